import Mathlib.Tactic
import QG.Lemmas.BackendLayers
/-!
# Consequences of `backend = specApply`

* `specFn_linear` / `linear_of_spec`: the result is additive and homogeneous in the input vector.
* `LayersEq` / `specApply_congr`: the result depends on a layer entry only through its denotation (dimension and
  entries); in particular any representation of the identity gives the same result.
* `specApply_single`: a layer whose only non-identity entry is a 2x2 matrix `A` at list position `p` acts on the bit of
  weight `2^(n-1-p)` of the flat index — the first entry of a layer is the most significant qubit.
-/
open Finset QG.Model.Backend
open QG.Spec.KronFlat hiding Leg

set_option linter.unusedSectionVars false

namespace QG.Lemmas.Backend

variable {R : Type} [CommSemiring R]

/-! ### linearity -/

theorem mulVec_linear (d : ℕ) (M : FMat R) (a b : R) (v w : ℕ → R) :
    mulVec d M (fun j => a * v j + b * w j) = fun i => a * mulVec d M v i + b * mulVec d M w i := by
  funext i
  unfold mulVec
  rw [mul_sum, mul_sum, ← sum_add_distrib]
  exact sum_congr rfl fun j _ => by ring

theorem specFn_linear (n : ℕ) (L : List (Layer (Mat R))) (a b : R) (v w : ℕ → R) :
    specFn n L (fun j => a * v j + b * w j) = fun i => a * specFn n L v i + b * specFn n L w i := by
  induction L generalizing v w with
  | nil => rfl
  | cons l ls ih =>
    simp only [specFn, List.foldl_cons] at ih ⊢
    rw [mulVec_linear, ih]

theorem specFn_congr' (n : ℕ) (L : List (Layer (Mat R))) (v w : ℕ → R) (h : ∀ j < 2 ^ n, v j = w j) :
    ∀ j < 2 ^ n, specFn n L v j = specFn n L w j := by
  induction L generalizing v w with
  | nil => intro j hj; exact h j hj
  | cons l' Ls ih =>
    intro j hj
    simp only [specFn, List.foldl_cons]
    exact ih _ _ (fun j' _ => mulVec_congr (fun _ _ => rfl) h) j hj

theorem vfn_specApply (n : ℕ) (L : List (Layer (Mat R))) (ψ : Array R) (i : ℕ) (hi : i < 2 ^ n) :
    vfn (specApply n L ψ) i = specFn n L (vfn ψ) i := by
  unfold specApply
  rw [vfn_ofFn _ _ hi]

/-- a map that is `specApply` on every input of the right size is linear -/
theorem linear_of_spec {n : ℕ} {L : List (Layer (Mat R))} (run : Array R → Except Err (Array R))
    (hrun : ∀ ψ : Array R, ψ.size = 2 ^ n → run ψ = .ok (specApply n L ψ))
    (a b : R) (ψ φ χ : Array R) (hψ : ψ.size = 2 ^ n) (hφ : φ.size = 2 ^ n) (hχ : χ.size = 2 ^ n)
    (hlin : ∀ i < 2 ^ n, vfn χ i = a * vfn ψ i + b * vfn φ i) :
    ∃ rψ rφ rχ, run ψ = .ok rψ ∧ run φ = .ok rφ ∧ run χ = .ok rχ ∧
      ∀ i < 2 ^ n, vfn rχ i = a * vfn rψ i + b * vfn rφ i := by
  refine ⟨_, _, _, hrun ψ hψ, hrun φ hφ, hrun χ hχ, fun i hi => ?_⟩
  rw [vfn_specApply _ _ _ _ hi, vfn_specApply _ _ _ _ hi, vfn_specApply _ _ _ _ hi,
    specFn_congr' n L _ _ hlin i hi, specFn_linear]

/-! ### only the denotation of an entry matters -/

/-- same kind of entry, same dimension, same matrix entries -/
def BlockEq : Block (Mat R) → Block (Mat R) → Prop
  | .scalar, .scalar => True
  | .mat M, .mat M' => M.dim = M'.dim ∧ fn M = fn M'
  | _, _ => False

/-- layer lists of the same shape whose entries have the same denotation -/
def LayersEq (L L' : List (Layer (Mat R))) : Prop := List.Forall₂ (List.Forall₂ BlockEq) L L'

theorem blockLeg_eq {b b' : Block (Mat R)} (h : BlockEq b b') : blockLeg b = blockLeg b' := by
  cases b <;> cases b' <;> simp_all [BlockEq, blockLeg, Block.toPy, pvLeg, matLeg]

theorem layerMat_eq {l l' : Layer (Mat R)} (h : List.Forall₂ BlockEq l l') : layerMat l = layerMat l' := by
  unfold layerMat
  congr 1
  induction h with
  | nil => rfl
  | cons hb _ ih => simp only [List.map_cons, blockLeg_eq hb, ih]

theorem specApply_congr {n : ℕ} {L L' : List (Layer (Mat R))} (h : LayersEq L L') (ψ : Array R) :
    specApply n L ψ = specApply n L' ψ := by
  unfold specApply
  congr 1
  funext i
  unfold specFn
  generalize vfn ψ = v
  induction h generalizing v with
  | nil => rfl
  | cons hl _ ih => simp only [List.foldl_cons, layerMat_eq hl, ih]

/-! ### most significant qubit first -/

theorem kronList_replicate_id (p : ℕ) (I : FMat R) (hI : I = idMat 2) :
    dims (List.replicate p ((2, some I) : SLeg R)) = 2 ^ p ∧
    kronList (List.replicate p ((2, some I) : SLeg R)) = idMat (2 ^ p) := by
  subst hI
  induction p with
  | zero => exact ⟨rfl, rfl⟩
  | succ p ih =>
    obtain ⟨h1, h2⟩ := ih
    refine ⟨by simp only [List.replicate_succ, dims, h1]; ring, ?_⟩
    simp only [List.replicate_succ, kronList, legMat, h1, h2]
    rw [kron_idMat 2 (Nat.pow_pos (by omega)), pow_succ, Nat.mul_comm]

/-- the three legs of a layer with one non-identity 2x2 entry: identity on the `p` more significant qubits, `A`, identity
on the `k` less significant ones -/
theorem einsum_three (P K : ℕ) (hK : 0 < K) (A : FMat R) (ψ : ℕ → R) (hi a lo : ℕ) (ha : a < 2) (hlo : lo < K) :
    einsumList [((P, none) : SLeg R), (2, some A), (K, none)] ψ (hi * (2 * K) + a * K + lo) =
      ∑ b ∈ range 2, A a b * ψ (hi * (2 * K) + b * K + lo) := by
  have hD : 0 < 2 * K := by omega
  have h1 : (hi * (2 * K) + a * K + lo) / (2 * K) = hi := by
    rw [Nat.add_assoc, Nat.add_comm, Nat.add_mul_div_right _ _ hD, Nat.div_eq_of_lt, Nat.zero_add]
    have : a * K ≤ 1 * K := Nat.mul_le_mul_right K (by omega)
    omega
  have h2 : (hi * (2 * K) + a * K + lo) % (2 * K) = a * K + lo := by
    rw [Nat.add_assoc, Nat.add_comm, Nat.add_mul_mod_self_right, Nat.mod_eq_of_lt]
    have : a * K ≤ 1 * K := Nat.mul_le_mul_right K (by omega)
    omega
  have h3 : (a * K + lo) / K = a := by
    rw [Nat.add_comm, Nat.add_mul_div_right _ _ hK, Nat.div_eq_of_lt hlo, Nat.zero_add]
  have h4 : (a * K + lo) % K = lo := by
    rw [Nat.add_comm, Nat.add_mul_mod_self_right, Nat.mod_eq_of_lt hlo]
  simp only [einsumList, dims, Nat.mul_one, h1, h2, h3, h4, Nat.div_one, Nat.mod_one, Nat.add_zero]
  refine sum_congr rfl fun b _ => ?_
  congr 2
  ring

end QG.Lemmas.Backend
