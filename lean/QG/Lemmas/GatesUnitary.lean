import Mathlib.Tactic
import Mathlib.Analysis.Normed.Algebra.MatrixExponential
import Mathlib.LinearAlgebra.UnitaryGroup
import QG.Gen.GateSets

/-! Helper lemmas for C07 (unitarity when relaxation is off) and C05: algebraic relations and reality
conditions of actual calls, skew-adjointness of the stochastic generators, unitarity of the drives. -/
namespace QG.Lemmas.Gates
open QG.Gen Matrix
open scoped Matrix.Norms.Operator ComplexConjugate Kronecker

/-! ### `kron2` preserves unitarity -/
theorem kron2_mem_unitary {A B : Matrix (Fin 2) (Fin 2) ℂ} (hA : A ∈ unitary (Matrix (Fin 2) (Fin 2) ℂ))
    (hB : B ∈ unitary (Matrix (Fin 2) (Fin 2) ℂ)) : QG.Spec.kron2 A B ∈ unitary (Matrix (Fin 4) (Fin 4) ℂ) := by
  have h := Matrix.kronecker_mem_unitary hA hB
  rw [Unitary.mem_iff] at h ⊢
  unfold QG.Spec.kron2
  simp only [star_eq_conjTranspose] at h ⊢
  constructor
  · rw [Matrix.reindex_apply, Matrix.conjTranspose_submatrix, Matrix.submatrix_mul_equiv, h.1, Matrix.submatrix_one_equiv]
  · rw [Matrix.reindex_apply, Matrix.conjTranspose_submatrix, Matrix.submatrix_mul_equiv, h.2, Matrix.submatrix_one_equiv]

/-- the exponential of a skew-Hermitian matrix is unitary -/
theorem exp_unitary_of_skew {n : Type} [Fintype n] [DecidableEq n] (A : Matrix n n ℂ) (h : Aᴴ = -A) :
    NormedSpace.exp A ∈ unitary (Matrix n n ℂ) := by
  rw [Unitary.mem_iff, star_eq_conjTranspose, ← Matrix.exp_conjTranspose, h, Matrix.exp_neg]
  constructor
  · exact Matrix.nonsing_inv_mul _ ((Matrix.isUnit_iff_isUnit_det _).mp (Matrix.isUnit_exp A))
  · exact Matrix.mul_nonsing_inv _ ((Matrix.isUnit_iff_isUnit_det _).mp (Matrix.isUnit_exp A))

/-! ### actual calls satisfy the algebraic relations and the reality conditions -/
theorem sq_env_rel (F : ℝ → ℝ) (theta phi p T1 T2 : ℝ) (w : SingleQubit.Samples) :
    let v := SingleQubit.envOf F theta phi p T1 T2 w
    v.c ^ 2 + v.s ^ 2 = 1 ∧ v.e * v.eb = 1 ∧ v.i ^ 2 = -1 := by
  refine ⟨?_, ?_, ?_⟩
  · simp only [SingleQubit.envOf]; exact Complex.cos_sq_add_sin_sq _
  · simp only [SingleQubit.envOf]; rw [← Complex.exp_add]; simp
  · simp [SingleQubit.envOf]

theorem sq_env_real (F : ℝ → ℝ) (theta phi p T1 T2 : ℝ) (w : SingleQubit.Samples) :
    SingleQubit.IsReal (SingleQubit.envOf F theta phi p T1 T2 w) := by
  constructor <;> simp [SingleQubit.envOf, ← Complex.cos_conj, ← Complex.sin_conj, ← Complex.exp_conj, map_ofNat]

theorem sq_noise_skew (v : SingleQubit.Env ℂ) (h : SingleQubit.IsReal v) (he1 : v.e1 = 0) :
    (SingleQubit.noiseArg v)ᴴ = - SingleQubit.noiseArg v := by
  cases h
  ext a b; fin_cases a <;> fin_cases b <;>
    simp [*, SingleQubit.noiseArg, SingleQubit.Idx, SingleQubit.Idy, SingleQubit.Idz, SingleQubit.Ir, SingleQubit.Ip,
      Matrix.conjTranspose_apply] <;> ring

theorem sq_U_unitary (v : SingleQubit.Env ℂ) (h : SingleQubit.IsReal v)
    (h0 : v.c ^ 2 + v.s ^ 2 = 1) (h1 : v.e * v.eb = 1) (h2 : v.i ^ 2 = -1) :
    SingleQubit.U v ∈ unitary (Matrix (Fin 2) (Fin 2) ℂ) := by
  rw [Unitary.mem_iff]
  have key : star (SingleQubit.U v) * SingleQubit.U v = 1 := by
    cases h
    ext a b; fin_cases a <;> fin_cases b <;>
      simp [*, SingleQubit.U, Matrix.mul_apply, Fin.sum_univ_two, Matrix.star_apply]
    · linear_combination h0 + (-(v.s^2) * v.i^2 ) * h1 + (- v.s^2) * h2
    · ring
    · ring
    · linear_combination h0 + (-(v.s^2) * v.i^2 ) * h1 + (- v.s^2) * h2
  exact ⟨key, (mul_eq_one_comm).mp key⟩

theorem sq_drift_zero (v : SingleQubit.Env ℂ) (he1 : v.e1 = 0) : SingleQubit.driftArg v = 0 := by
  ext a b; fin_cases a <;> fin_cases b <;> simp [SingleQubit.driftArg, SingleQubit.deterministic, he1]

/-- a single-qubit pulse with relaxation off is unitary, for all samples -/
theorem sq_gate_unitary (v : SingleQubit.Env ℂ) (h : SingleQubit.IsReal v)
    (h0 : v.c ^ 2 + v.s ^ 2 = 1) (h1 : v.e * v.eb = 1) (h2 : v.i ^ 2 = -1) (he1 : v.e1 = 0) :
    SingleQubit.gate v ∈ unitary (Matrix (Fin 2) (Fin 2) ℂ) := by
  unfold SingleQubit.gate
  rw [sq_drift_zero v he1, NormedSpace.exp_zero, mul_one]
  refine mul_mem (sq_U_unitary v h h0 h1 h2) ?_
  exact exp_unitary_of_skew _ (sq_noise_skew v h he1)

/-! ### cross-resonance pulse -/
theorem cr_env_rel (F : ℝ → ℝ) (theta phi t_cr p_cr T1c T2c T1t T2t : ℝ) (w : CR.Samples) :
    let v := CR.envOf F theta phi t_cr p_cr T1c T2c T1t T2t w
    v.c ^ 2 + v.s ^ 2 = 1 ∧ v.e * v.eb = 1 ∧ v.i ^ 2 = -1 := by
  refine ⟨?_, ?_, ?_⟩
  · simp only [CR.envOf]; exact Complex.cos_sq_add_sin_sq _
  · simp only [CR.envOf]; rw [← Complex.exp_add]; simp
  · simp [CR.envOf]

theorem cr_env_real (F : ℝ → ℝ) (theta phi t_cr p_cr T1c T2c T1t T2t : ℝ) (w : CR.Samples) :
    CR.IsReal (CR.envOf F theta phi t_cr p_cr T1c T2c T1t T2t w) := by
  constructor <;> simp [CR.envOf, ← Complex.cos_conj, ← Complex.sin_conj, ← Complex.exp_conj, map_ofNat]

theorem cr_noise_skew (v : CR.Env ℂ) (h : CR.IsReal v) (hc : v.e1_ctr = 0) (ht : v.e1_trg = 0) :
    (CR.noiseArg v)ᴴ = - CR.noiseArg v := by
  cases h
  ext a b; fin_cases a <;> fin_cases b <;>
    simp [*, CR.noiseArg, CR.Ir_ctr, CR.Ir_trg, CR.Ip_ctr, CR.Ip_trg, CR.Idx_ctr, CR.Idy_ctr, CR.Idz_ctr,
      CR.Idx_trg, CR.Idy_trg, CR.Idz_trg, Matrix.conjTranspose_apply] <;> ring

theorem cr_U_unitary (v : CR.Env ℂ) (h : CR.IsReal v)
    (h0 : v.c ^ 2 + v.s ^ 2 = 1) (h1 : v.e * v.eb = 1) (h2 : v.i ^ 2 = -1) :
    CR.U v ∈ unitary (Matrix (Fin 4) (Fin 4) ℂ) := by
  rw [Unitary.mem_iff]
  have key : star (CR.U v) * CR.U v = 1 := by
    cases h
    ext a b; fin_cases a <;> fin_cases b <;>
      simp [*, CR.U, Matrix.mul_apply, Fin.sum_univ_four, Matrix.star_apply] <;>
      first
        | ring1
        | linear_combination h0 + (-(v.s^2) * v.i^2 ) * h1 + (- v.s^2) * h2
  exact ⟨key, (mul_eq_one_comm).mp key⟩

theorem cr_drift_zero (v : CR.Env ℂ) (hc : v.e1_ctr = 0) (ht : v.e1_trg = 0) : CR.driftArg v = 0 := by
  ext a b; fin_cases a <;> fin_cases b <;>
    simp [CR.driftArg, CR.deterministic_r_ctr, CR.deterministic_r_trg, hc, ht]

theorem cr_gate_unitary (v : CR.Env ℂ) (h : CR.IsReal v)
    (h0 : v.c ^ 2 + v.s ^ 2 = 1) (h1 : v.e * v.eb = 1) (h2 : v.i ^ 2 = -1)
    (hc : v.e1_ctr = 0) (ht : v.e1_trg = 0) :
    CR.gate v ∈ unitary (Matrix (Fin 4) (Fin 4) ℂ) := by
  unfold CR.gate
  rw [cr_drift_zero v hc ht, NormedSpace.exp_zero, mul_one]
  refine mul_mem (cr_U_unitary v h h0 h1 h2) ?_
  exact exp_unitary_of_skew _ (cr_noise_skew v h hc ht)

end QG.Lemmas.Gates
