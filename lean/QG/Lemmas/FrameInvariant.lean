import Mathlib.Tactic
import QG.Spec.GateAlgebra
import QG.Model.Wiring

/-!
Helper development for C03: the **virtual-Z frame invariant** of the index-based circuit class, proved
against the abstract gate algebra (`QG.Spec.GateAlgebra`, C02) for an abstract *frame system*: a phase
group `Φ`, diagonal gates `rz : Φ → M2` forming a one-parameter group, the (phase-corrected) ideal gates,
the simulated gates as functions of the phase arguments the circuit class passes, and the six frame
identities relating them.  `QG/Props/C03.lean` instantiates it with the matrices regenerated from
`gates.py` (frame identities proved there for all phases).

Invariant: `ideal-so-far = frame(phi) * simulated-so-far`, `frame(phi) = Π_q e1 (rz phi_q) q`.
-/
namespace QG.Lemmas.Frame
open QG.Spec QG.Model.Optimizer QG.Model.Wiring

variable {M2 M4 Op : Type} [Monoid Op] {ops : MatOps M2 M4} {n : Nat}

/-- the data of the virtual-Z frame -/
structure FrameSys (ops : MatOps M2 M4) (Φ : Type) [AddCommGroup Φ] where
  rz : Φ → M2
  rz_zero : rz 0 = ops.one2
  rz_add : ∀ a b, ops.mul2 (rz a) (rz b) = rz (a + b)
  halfPi : Φ
  iX : M2
  iSX : M2
  iCX : M4      -- control = slot 0
  iCXr : M4     -- control = slot 1
  iECR : M4     -- control = slot 0
  iECRr : M4    -- control = slot 1
  sX : Φ → M2
  sSX : Φ → M2
  sCNOT : Φ → Φ → M4
  sCNOTinv : Φ → Φ → M4
  sECR : Φ → Φ → M4
  sECRinv : Φ → Φ → M4
  fX : ∀ φ, ops.mul2 iX (rz φ) = ops.mul2 (rz φ) (sX (-φ))
  fSX : ∀ φ, ops.mul2 iSX (rz φ) = ops.mul2 (rz φ) (sSX (-φ))
  /-- forward CNOT, slots (control, target), phases `(a, b)`; the control's phase drops by π/2 -/
  fCNOT : ∀ a b, ops.mul4 iCX (ops.kron (rz a) (rz b))
      = ops.mul4 (ops.kron (rz (a + -halfPi)) (rz b)) (sCNOT a b)
  /-- reversed CNOT, slots (target, control), called with `(phi_ctr, phi_trg) = (c, t)` -/
  fCNOTinv : ∀ c t, ops.mul4 iCXr (ops.kron (rz t) (rz c))
      = ops.mul4 (ops.kron (rz (t + halfPi)) (rz (c + halfPi + (halfPi + halfPi)))) (sCNOTinv c t)
  fECR : ∀ a b, ops.mul4 iECR (ops.kron (rz a) (rz b)) = ops.mul4 (ops.kron (rz a) (rz b)) (sECR a b)
  /-- reversed ECR, called with the phases in slot order -/
  fECRinv : ∀ s0 s1, ops.mul4 iECRr (ops.kron (rz s0) (rz s1)) = ops.mul4 (ops.kron (rz s0) (rz s1)) (sECRinv s0 s1)

variable {Φ : Type} [AddCommGroup Φ]

/-- the model's phase dictionary for an additive group -/
def groupPhase (F : FrameSys ops Φ) : PhaseOps Φ := ⟨0, (· + ·), (- ·), F.halfPi⟩

/-! ### the frame operator -/

/-- `Π_{q<m} e1 (rz (phi q)) q` (qubit 0 rightmost; all factors commute) -/
def frameUpTo (S : GateAlgebra ops n Op) (F : FrameSys ops Φ) (phi : Nat → Φ) : Nat → Op
  | 0 => 1
  | m + 1 => frameUpTo S F phi m * S.e1 (F.rz (phi m)) m

def frame (S : GateAlgebra ops n Op) (F : FrameSys ops Φ) (phi : Nat → Φ) : Op := frameUpTo S F phi n

variable (S : GateAlgebra ops n Op) (F : FrameSys ops Φ)

theorem frameUpTo_congr (phi psi : Nat → Φ) (m : Nat) (h : ∀ q, q < m → phi q = psi q) :
    frameUpTo S F phi m = frameUpTo S F psi m := by
  induction m with
  | zero => rfl
  | succ m ih =>
    simp only [frameUpTo]
    rw [ih (fun q hq => h q (by omega)), h m (by omega)]

/-- a one-qubit operator on `q` commutes with the part of the frame that is trivial on `q` -/
theorem e1_comm_frameUpTo (A : M2) (q : Nat) (hq : q < n) (psi : Nat → Φ) (hpsi : psi q = 0) (m : Nat) (hm : m ≤ n) :
    S.e1 A q * frameUpTo S F psi m = frameUpTo S F psi m * S.e1 A q := by
  induction m with
  | zero => simp [frameUpTo]
  | succ m ih =>
    simp only [frameUpTo]
    by_cases hmq : m = q
    · subst hmq
      rw [hpsi, F.rz_zero, S.e1_one _ hq, mul_one]
      exact ih (by omega)
    · rw [← mul_assoc, ih (by omega), mul_assoc, S.comm11 A _ q m hq (by omega) (Ne.symm hmq), ← mul_assoc]

/-- a two-qubit operator on `(a, b)` commutes with the part of the frame that is trivial on `a` and `b` -/
theorem e2_comm_frameUpTo (G : M4) (a b : Nat) (ha : a < n) (hb : b < n) (hab : a ≠ b) (psi : Nat → Φ)
    (hpa : psi a = 0) (hpb : psi b = 0) (m : Nat) (hm : m ≤ n) :
    S.e2 G a b * frameUpTo S F psi m = frameUpTo S F psi m * S.e2 G a b := by
  induction m with
  | zero => simp [frameUpTo]
  | succ m ih =>
    simp only [frameUpTo]
    by_cases hma : m = a
    · subst hma
      rw [hpa, F.rz_zero, S.e1_one _ ha, mul_one]; exact ih (by omega)
    · by_cases hmb : m = b
      · subst hmb
        rw [hpb, F.rz_zero, S.e1_one _ hb, mul_one]; exact ih (by omega)
      · rw [← mul_assoc, ih (by omega), mul_assoc,
          ← S.comm12 _ G m a b (by omega) ha hb hab hma hmb, ← mul_assoc]

/-- changing the phase of qubit `q` by `δ` multiplies the frame by `e1 (rz δ) q` (on the right) -/
theorem frameUpTo_update (phi : Nat → Φ) (q : Nat) (hq : q < n) (δ : Φ) (m : Nat) (hm : m ≤ n) (hqm : q < m) :
    frameUpTo S F (Function.update phi q (phi q + δ)) m = frameUpTo S F phi m * S.e1 (F.rz δ) q := by
  induction m with
  | zero => omega
  | succ m ih =>
    simp only [frameUpTo]
    by_cases hmq : m = q
    · subst hmq
      rw [frameUpTo_congr S F (Function.update phi m (phi m + δ)) phi m
        (fun r hr => by rw [Function.update_of_ne (by omega)])]
      rw [Function.update_self, ← F.rz_add, S.e1_mul _ _ _ hq, mul_assoc]
    · rw [ih (by omega) (by omega), Function.update_of_ne hmq, mul_assoc,
        ← S.comm11 _ _ m q (by omega) hq hmq, ← mul_assoc]

theorem e1_comm_frame (A : M2) (q : Nat) (hq : q < n) (psi : Nat → Φ) (hpsi : psi q = 0) :
    S.e1 A q * frame S F psi = frame S F psi * S.e1 A q := e1_comm_frameUpTo S F A q hq psi hpsi n le_rfl

theorem e2_comm_frame (G : M4) (a b : Nat) (ha : a < n) (hb : b < n) (hab : a ≠ b) (psi : Nat → Φ)
    (hpa : psi a = 0) (hpb : psi b = 0) :
    S.e2 G a b * frame S F psi = frame S F psi * S.e2 G a b :=
  e2_comm_frameUpTo S F G a b ha hb hab psi hpa hpb n le_rfl

theorem frame_update (phi : Nat → Φ) (q : Nat) (hq : q < n) (δ : Φ) :
    frame S F (Function.update phi q (phi q + δ)) = frame S F phi * S.e1 (F.rz δ) q :=
  frameUpTo_update S F phi q hq δ n le_rfl hq

/-- isolate the factor of qubit `q`: `frame phi = frame (phi[q := 0]) * e1 (rz (phi q)) q` -/
theorem frame_split (phi : Nat → Φ) (q : Nat) (hq : q < n) :
    frame S F phi = frame S F (Function.update phi q 0) * S.e1 (F.rz (phi q)) q := by
  have h := frame_update S F (Function.update phi q 0) q hq (phi q)
  simp only [Function.update_self, zero_add, Function.update_idem, Function.update_eq_self] at h
  exact h

/-! ### one step of every kind -/

/-- a one-qubit gate whose frame identity is `I · rz φ = rz φ · s(-φ)` passes through the frame unchanged -/
theorem step_one (iG : M2) (sG : Φ → M2) (fG : ∀ φ, ops.mul2 iG (F.rz φ) = ops.mul2 (F.rz φ) (sG (-φ)))
    (phi : Nat → Φ) (q : Nat) (hq : q < n) :
    S.e1 iG q * frame S F phi = frame S F phi * S.e1 (sG (-(phi q))) q := by
  rw [frame_split S F phi q hq, ← mul_assoc,
    e1_comm_frame S F iG q hq _ (Function.update_self ..)]
  rw [mul_assoc, ← S.e1_mul _ _ _ hq, fG, S.e1_mul _ _ _ hq, mul_assoc]

/-- a virtual rz shifts the phase -/
theorem step_rz (phi : Nat → Φ) (q : Nat) (hq : q < n) (θ : Φ) :
    S.e1 (F.rz θ) q * frame S F phi = frame S F (Function.update phi q (phi q + θ)) := by
  rw [frame_update S F phi q hq θ, frame_split S F phi q hq, ← mul_assoc,
    e1_comm_frame S F _ q hq _ (Function.update_self ..)]
  rw [mul_assoc, mul_assoc, ← S.e1_mul _ _ _ hq, ← S.e1_mul _ _ _ hq, F.rz_add, F.rz_add, add_comm]

/-- a two-qubit gate with frame identity `I · (rz a ⊗ rz b) = (rz (a+δa) ⊗ rz (b+δb)) · s` on slots `(x, y)` -/
theorem step_two (iG sG : M4) (x y : Nat) (hx : x < n) (hy : y < n) (hxy : x ≠ y) (phi : Nat → Φ) (δx δy : Φ)
    (fG : ops.mul4 iG (ops.kron (F.rz (phi x)) (F.rz (phi y)))
      = ops.mul4 (ops.kron (F.rz (phi x + δx)) (F.rz (phi y + δy))) sG) :
    S.e2 iG x y * frame S F phi
      = frame S F (Function.update (Function.update phi x (phi x + δx)) y (phi y + δy)) * S.e2 sG x y := by
  -- isolate both factors
  have hsplit : frame S F phi = frame S F (Function.update (Function.update phi x 0) y 0)
      * S.e1 (F.rz (phi x)) x * S.e1 (F.rz (phi y)) y := by
    rw [frame_split S F phi x hx, frame_split S F (Function.update phi x 0) y hy,
      Function.update_of_ne (Ne.symm hxy)]
    rw [mul_assoc, mul_assoc, S.comm11 _ _ y x hy hx (Ne.symm hxy)]
  set psi := Function.update (Function.update phi x 0) y 0 with hpsi
  have hpx : psi x = 0 := by rw [hpsi, Function.update_of_ne hxy, Function.update_self]
  have hpy : psi y = 0 := by rw [hpsi, Function.update_self]
  -- the target frame
  have htarget : frame S F (Function.update (Function.update phi x (phi x + δx)) y (phi y + δy))
      = frame S F psi * S.e1 (F.rz (phi x + δx)) x * S.e1 (F.rz (phi y + δy)) y := by
    have h1 := frame_update S F psi x hx (phi x + δx)
    rw [hpx, zero_add] at h1
    have h2 := frame_update S F (Function.update psi x (phi x + δx)) y hy (phi y + δy)
    rw [Function.update_of_ne (Ne.symm hxy), hpy, zero_add] at h2
    rw [← h1, ← h2]
    congr 1
    funext r
    by_cases hry : r = y
    · subst hry; simp
    · by_cases hrx : r = x
      · subst hrx; simp [Function.update_of_ne hry, hpsi, Function.update_of_ne hxy]
      · simp [Function.update_of_ne hry, Function.update_of_ne hrx, hpsi]
  rw [hsplit, htarget, ← mul_assoc, ← mul_assoc,
    e2_comm_frame S F iG x y hx hy hxy psi hpx hpy]
  simp only [mul_assoc]
  congr 1
  rw [← S.e2_kron _ _ _ _ hx hy hxy, ← S.e2_mul _ _ _ _ hx hy hxy, fG, S.e2_mul _ _ _ _ hx hy hxy,
    S.e2_kron _ _ _ _ hx hy hxy, mul_assoc]


/-! ### the index-based circuit class of the wiring model -/

/-- phases as a function of the row -/
def phiFn (l : List Φ) (q : Nat) : Φ := (l[q]?).getD 0

theorem getAt_phiFn {l : List Φ} {i : Nat} {a : Φ} (h : getAt l i = .ok a) : i < l.length ∧ phiFn l i = a := by
  unfold getAt at h
  cases hq : l[i]? with
  | none => simp [hq] at h
  | some v =>
    simp [hq] at h; subst h
    exact ⟨(List.getElem?_eq_some_iff.mp hq).1, by simp [phiFn, hq]⟩

theorem setAt_phiFn {l l' : List Φ} {i : Nat} {v : Φ} (h : setAt l i v = .ok l') :
    phiFn l' = Function.update (phiFn l) i v ∧ l'.length = l.length := by
  unfold setAt at h
  split_ifs at h with hi
  simp at h; subst h
  refine ⟨?_, by simp⟩
  funext q
  by_cases hq : q = i
  · subst hq; simp [phiFn, hi]
  · simp [phiFn, Function.update_of_ne hq, List.getElem?_set_ne (Ne.symm hq)]

/-- the matrix item a recorded call of the **noise-free** gate set stands for (idle relaxation and readout
bit-flip are the identity there) -/
def interp (F : FrameSys ops Φ) (it : BinItem Φ) : Item M2 M4 :=
  match it.gate with
  | none => .one ops.one2 it.i
  | some c =>
    match c.method, c.phases with
    | "X", [p] => .one (F.sX p) it.i
    | "SX", [p] => .one (F.sSX p) it.i
    | "CNOT", [a, b] => .two (F.sCNOT a b) it.i it.j.toNat
    | "CNOT_inv", [a, b] => .two (F.sCNOTinv a b) it.i it.j.toNat
    | "ECR", [a, b] => .two (F.sECR a b) it.i it.j.toNat
    | "ECR_inv", [a, b] => .two (F.sECRinv a b) it.i it.j.toNat
    | _, _ => .one ops.one2 it.i

/-- the operator the recorded item list computes (oldest item first) -/
def simOp (st : BinState Φ) : Op := S.sem (st.items.reverse.map (interp F))

/-- the (phase-corrected) ideal operator of one circuit-object call; delays, read-out and `I` are the identity -/
def idealOp : CircCall Φ → Op
  | .Rz i θ => S.e1 (F.rz θ) i
  | .X i _ => S.e1 F.iX i
  | .SX i _ => S.e1 F.iSX i
  | .CNOT i k _ => if i < k then S.e2 F.iCX i k else S.e2 F.iCXr k i
  | .ECR i k _ => if i < k then S.e2 F.iECR i k else S.e2 F.iECRr k i
  | _ => 1

def idealOps : List (CircCall Φ) → Op
  | [] => 1
  | c :: rest => idealOps rest * idealOp S F c

/-- rows in range, the two rows of a two-qubit gate distinct -/
def WFCall (n : Nat) : CircCall Φ → Prop
  | .Rz i _ => i < n | .I i => i < n | .X i _ => i < n | .SX i _ => i < n
  | .relaxation i _ => i < n | .bitflip i _ => i < n
  | .CNOT i k _ => i < n ∧ k < n ∧ i ≠ k
  | .ECR i k _ => i < n ∧ k < n ∧ i ≠ k

theorem simOp_push (nq : Nat) (phi : List Φ) (st : BinState Φ) (it : BinItem Φ) :
    simOp S F { nqubit := nq, phi := phi, items := it :: st.items } = S.item (interp F it) * simOp S F st := by
  unfold simOp
  simp only [List.reverse_cons, List.map_append, List.map_cons, List.map_nil]
  rw [GateAlgebra.sem_append, GateAlgebra.sem_singleton]

theorem simOp_phi (nq : Nat) (st : BinState Φ) (phi : List Φ) :
    simOp S F { nqubit := nq, phi := phi, items := st.items } = simOp S F st := rfl

theorem update_add_zero (phi : Nat → Φ) (x y : Nat) :
    Function.update (Function.update phi x (phi x + 0)) y (phi y + 0) = phi := by
  simp

/-- **one step preserves the frame invariant** -/
theorem binary_step_inv (st st' : BinState Φ) (c : CircCall Φ) (hwf : WFCall n c) (hlen : st.phi.length = n)
    (h : st.step (groupPhase F) c = .ok st') :
    idealOp S F c * (frame S F (phiFn st.phi) * simOp S F st)
      = frame S F (phiFn st'.phi) * simOp S F st' ∧ st'.phi.length = n := by
  cases c with
  | Rz i θ =>
    simp only [BinState.step, bind, Except.bind] at h
    cases h1 : getAt st.phi i with
    | error e => simp [h1] at h
    | ok p =>
      simp only [h1] at h
      cases h2 : setAt st.phi i ((groupPhase F).add p θ) with
      | error e => simp [h2] at h
      | ok phi' =>
        simp [h2, pure, Except.pure] at h; subst h
        obtain ⟨_, hp⟩ := getAt_phiFn h1
        obtain ⟨hu, hl⟩ := setAt_phiFn h2
        refine ⟨?_, by rw [hl, hlen]⟩
        simp only [idealOp, simOp_phi]
        rw [← mul_assoc, step_rz S F _ i hwf θ, hu, hp]; rfl
  | I i =>
    simp [BinState.step, pure, Except.pure] at h; subst h
    refine ⟨?_, hlen⟩
    simp only [idealOp, one_mul]
    rw [simOp_push]
    simp [interp, S.e1_one _ hwf]
  | X i pars =>
    simp only [BinState.step, bind, Except.bind] at h
    cases h1 : oneQCall (groupPhase F) "X" st.phi i pars true with
    | error e => simp [h1] at h
    | ok g =>
      simp [h1, pure, Except.pure] at h; subst h
      unfold oneQCall at h1
      cases h2 : getAt st.phi i with
      | error e => simp [h2, bind, Except.bind] at h1
      | ok p =>
        simp [h2, bind, Except.bind, pure, Except.pure] at h1; subst h1
        obtain ⟨_, hp⟩ := getAt_phiFn h2
        refine ⟨?_, hlen⟩
        simp only [idealOp]
        rw [simOp_push, ← mul_assoc, step_one S F F.iX F.sX F.fX _ i hwf, hp, mul_assoc]
        rfl
  | SX i pars =>
    simp only [BinState.step, bind, Except.bind] at h
    cases h1 : oneQCall (groupPhase F) "SX" st.phi i pars true with
    | error e => simp [h1] at h
    | ok g =>
      simp [h1, pure, Except.pure] at h; subst h
      unfold oneQCall at h1
      cases h2 : getAt st.phi i with
      | error e => simp [h2, bind, Except.bind] at h1
      | ok p =>
        simp [h2, bind, Except.bind, pure, Except.pure] at h1; subst h1
        obtain ⟨_, hp⟩ := getAt_phiFn h2
        refine ⟨?_, hlen⟩
        simp only [idealOp]
        rw [simOp_push, ← mul_assoc, step_one S F F.iSX F.sSX F.fSX _ i hwf, hp, mul_assoc]
        rfl
  | relaxation i pars =>
    simp [BinState.step, oneQCall, bind, Except.bind, pure, Except.pure] at h; subst h
    refine ⟨?_, hlen⟩
    simp only [idealOp, one_mul]
    rw [simOp_push]
    simp [interp, S.e1_one _ hwf]
  | bitflip i pars =>
    simp [BinState.step, oneQCall, bind, Except.bind, pure, Except.pure] at h; subst h
    refine ⟨?_, hlen⟩
    simp only [idealOp, one_mul]
    rw [simOp_push]
    simp [interp, S.e1_one _ hwf]
  | CNOT i k pars =>
    obtain ⟨hi, hk, hik⟩ := hwf
    simp only [BinState.step, bind, Except.bind] at h
    cases ht : twoQCNOT (groupPhase F) st.phi i k pars with
    | error e => simp [ht] at h
    | ok t =>
      simp [ht, pure, Except.pure] at h; subst h
      unfold twoQCNOT at ht
      cases h1 : getAt st.phi i with
      | error e => simp [h1, bind, Except.bind] at ht
      | ok a =>
        cases h2 : getAt st.phi k with
        | error e => simp [h1, h2, bind, Except.bind] at ht
        | ok b =>
          obtain ⟨_, hpa⟩ := getAt_phiFn h1
          obtain ⟨_, hpb⟩ := getAt_phiFn h2
          simp only [h1, h2, bind, Except.bind] at ht
          by_cases hlt : i < k
          · simp only [hlt, if_true] at ht
            cases h3 : setAt st.phi i ((groupPhase F).add a ((groupPhase F).neg (groupPhase F).halfPi)) with
            | error e => simp [h3] at ht
            | ok phi' =>
              simp [h3, pure, Except.pure] at ht; subst ht
              obtain ⟨hu, hl⟩ := setAt_phiFn h3
              refine ⟨?_, by simp [hl, hlen]⟩
              simp only [idealOp, hlt, if_true]
              rw [simOp_push, ← mul_assoc]
              have hf := F.fCNOT a b
              have := step_two S F F.iCX (F.sCNOT a b) i k hi hk hik (phiFn st.phi) (-F.halfPi) 0
                (by rw [hpa, hpb, add_zero]; exact hf)
              rw [this, mul_assoc]
              congr 1
              · congr 1
                rw [hu, hpa, hpb, add_zero]
                funext r
                by_cases hr : r = k
                · subst hr; rw [Function.update_self, Function.update_of_ne (Ne.symm hik), hpb]
                · rw [Function.update_of_ne hr]; rfl
          · simp only [hlt, if_false] at ht
            cases h3 : setAt st.phi i ((groupPhase F).add ((groupPhase F).add a (groupPhase F).halfPi)
                ((groupPhase F).add (groupPhase F).halfPi (groupPhase F).halfPi)) with
            | error e => simp [h3] at ht
            | ok phi1 =>
              simp only [h3] at ht
              cases h4 : getAt phi1 k with
              | error e => simp [h4] at ht
              | ok pk =>
                simp only [h4] at ht
                cases h5 : setAt phi1 k ((groupPhase F).add pk (groupPhase F).halfPi) with
                | error e => simp [h5] at ht
                | ok phi2 =>
                  simp [h5, pure, Except.pure] at ht; subst ht
                  obtain ⟨hu1, hl1⟩ := setAt_phiFn h3
                  obtain ⟨hu2, hl2⟩ := setAt_phiFn h5
                  obtain ⟨_, hpk⟩ := getAt_phiFn h4
                  have hpk' : pk = b := by
                    rw [← hpk, hu1, Function.update_of_ne (Ne.symm hik), hpb]
                  refine ⟨?_, by simp [hl2, hl1, hlen]⟩
                  simp only [idealOp, hlt, if_false]
                  rw [simOp_push, ← mul_assoc]
                  have hf := F.fCNOTinv a b
                  have := step_two S F F.iCXr (F.sCNOTinv a b) k i hk hi (Ne.symm hik) (phiFn st.phi)
                    F.halfPi (F.halfPi + (F.halfPi + F.halfPi))
                    (by rw [hpa, hpb, ← add_assoc]; exact hf)
                  rw [this, mul_assoc]
                  congr 1
                  · congr 1
                    rw [hu2, hu1, hpk', hpa, hpb]
                    funext r
                    by_cases hr : r = i
                    · subst hr
                      rw [Function.update_self, Function.update_of_ne hik, Function.update_self]
                      simp [groupPhase, add_assoc]
                    · by_cases hrk : r = k
                      · subst hrk
                        rw [Function.update_of_ne hr, Function.update_self, Function.update_self]
                        rfl
                      · rw [Function.update_of_ne hr, Function.update_of_ne hrk, Function.update_of_ne hrk,
                          Function.update_of_ne hr]
  | ECR i k pars =>
    obtain ⟨hi, hk, hik⟩ := hwf
    simp only [BinState.step, bind, Except.bind] at h
    cases ht : twoQECR st.phi i k pars with
    | error e => simp [ht] at h
    | ok t =>
      simp [ht, pure, Except.pure] at h; subst h
      unfold twoQECR at ht
      cases h1 : getAt st.phi i with
      | error e => simp [h1, bind, Except.bind] at ht
      | ok a =>
        cases h2 : getAt st.phi k with
        | error e => simp [h1, h2, bind, Except.bind] at ht
        | ok b =>
          obtain ⟨_, hpa⟩ := getAt_phiFn h1
          obtain ⟨_, hpb⟩ := getAt_phiFn h2
          simp only [h1, h2, bind, Except.bind] at ht
          by_cases hlt : i < k
          · simp [hlt, pure, Except.pure] at ht; subst ht
            refine ⟨?_, hlen⟩
            simp only [idealOp, hlt, if_true]
            rw [simOp_push, ← mul_assoc]
            have := step_two S F F.iECR (F.sECR a b) i k hi hk hik (phiFn st.phi) 0 0
              (by rw [hpa, hpb, add_zero, add_zero]; exact F.fECR a b)
            rw [this, mul_assoc]
            congr 1
            · rw [update_add_zero]
          · simp [hlt, pure, Except.pure] at ht; subst ht
            refine ⟨?_, hlen⟩
            simp only [idealOp, hlt, if_false]
            rw [simOp_push, ← mul_assoc]
            have := step_two S F F.iECRr (F.sECRinv b a) k i hk hi (Ne.symm hik) (phiFn st.phi) 0 0
              (by rw [hpa, hpb, add_zero, add_zero]; exact F.fECRinv b a)
            rw [this, mul_assoc]
            congr 1
            · rw [update_add_zero]

/-- **the frame invariant for a whole circuit**: after any well-formed sequence of circuit-object calls on a
fresh index-based circuit object, `ideal = frame(final phases) * simulated` -/
theorem binary_run_inv (cs : List (CircCall Φ)) (hwf : ∀ c ∈ cs, WFCall n c) (st st' : BinState Φ)
    (hlen : st.phi.length = n) (h : foldE (BinState.step (groupPhase F)) st cs = .ok st') :
    idealOps S F cs * (frame S F (phiFn st.phi) * simOp S F st)
      = frame S F (phiFn st'.phi) * simOp S F st' := by
  induction cs generalizing st with
  | nil => simp [foldE] at h; subst h; simp [idealOps]
  | cons c rest ih =>
    simp only [foldE, bind, Except.bind] at h
    cases h1 : BinState.step (groupPhase F) st c with
    | error e => simp [h1] at h
    | ok s1 =>
      simp only [h1] at h
      obtain ⟨hstep, hl1⟩ := binary_step_inv S F st s1 c (hwf c (by simp)) hlen h1
      have := ih (fun c hc => hwf c (by simp [hc])) s1 hl1 h
      simp only [idealOps]
      rw [mul_assoc, hstep, this]

end QG.Lemmas.Frame
