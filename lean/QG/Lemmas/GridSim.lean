import Mathlib.Tactic
import QG.Lemmas.LayerSim

/-!
Helper development for C03 (legacy fixed-depth class `Circuit`): a simulation between the grid machine
(`GridState`: `circuit[row][column]`, a column is one gate time) and the index-based machine (`BinState`).

Column `c` of the grid, read with a qubit offset exactly like a layer (`QG.Lemmas.LayerSim.layerItems`; `Circuit.statevector`
multiplies `kron` of every column, first column first), gives the items of that gate time; `gridItems st` is the item
list of all columns.  `step_simG`: a build call issued in row order keeps the two machines related.  The grid class
opens a new column lazily (on the first call after a column became full), so "row order" refers to the effective
fill counter `effS` (`s` if the current column still has room, `0` if it is full).
-/
namespace QG.Lemmas.GridSim
open QG.Model.Wiring QG.Lemmas.LayerSim

variable {Φ : Type}

/-- column `c` of the grid -/
def colOf (g : List (List Entry)) (c : Nat) : List Entry := g.map fun row => row.getD c Entry.one

def gridItems (st : GridState Φ) : List (BinItem Φ) :=
  (List.range (st.j + 1)).flatMap fun c => layerItems st.calls 0 (colOf st.grid c)

theorem getD_ones (d c : Nat) : (List.replicate d Entry.one).getD c Entry.one = Entry.one := by
  rw [List.getD_eq_getElem?_getD, List.getElem?_replicate]; split <;> rfl

theorem colOf_ones (n d c : Nat) : colOf (List.replicate n (List.replicate d Entry.one)) c = List.replicate n Entry.one := by
  simp only [colOf, List.map_replicate, getD_ones]

theorem colOf_length (g : List (List Entry)) (c : Nat) : (colOf g c).length = g.length := by simp [colOf]

theorem gridWrite_ok (g g' : List (List Entry)) (i j : Nat) (e : Entry) (h : gridWrite g i j e = .ok g') :
    ∃ row, g[i]? = some row ∧ i < g.length ∧ j < row.length ∧ g' = g.set i (row.set j e) := by
  unfold gridWrite getAt setAt at h
  cases hg : g[i]? with
  | none => simp [hg, bind, Except.bind] at h
  | some row =>
    simp only [hg, bind, Except.bind] at h
    have hi : i < g.length := by
      by_contra hc
      rw [List.getElem?_eq_none (by omega)] at hg
      cases hg
    by_cases hj : j < row.length
    · simp only [hj, if_true, hi] at h
      injection h with h
      exact ⟨row, rfl, hi, hj, h.symm⟩
    · simp [hj] at h

/-- writing `grid[i][j]` changes column `j` at row `i` and nothing else -/
theorem colOf_write (g : List (List Entry)) (i j c : Nat) (e : Entry) (row : List Entry) (hr : g[i]? = some row)
    (hj : j < row.length) :
    colOf (g.set i (row.set j e)) c = if c = j then (colOf g j).set i e else colOf g c := by
  unfold colOf
  rw [List.map_set]
  have hi : i < g.length := by
    by_contra hc
    rw [List.getElem?_eq_none (by omega)] at hr
    cases hr
  have hgi : g[i] = row := by
    have := List.getElem?_eq_getElem hi
    rw [this] at hr
    injection hr
  by_cases hc : c = j
  · subst hc
    rw [if_pos rfl]
    congr 1
    simp [List.getD_eq_getElem?_getD, hj]
  · rw [if_neg hc]
    have : (row.set j e).getD c Entry.one = row.getD c Entry.one := by
      simp [List.getD_eq_getElem?_getD, List.getElem?_set_ne (Ne.symm hc)]
    rw [this]
    apply List.ext_getElem
    · simp
    · intro k h1 h2
      simp only [List.getElem_set, List.getElem_map]
      split
      · rename_i hik
        subst hik
        rw [hgi]
      · rfl

theorem rows_write (g : List (List Entry)) (i j : Nat) (e : Entry) (row : List Entry) (hr : g[i]? = some row) (d : Nat)
    (h : ∀ r ∈ g, r.length = d) : ∀ r ∈ g.set i (row.set j e), r.length = d := by
  intro r hr'
  rcases List.mem_or_eq_of_mem_set hr' with h1 | h1
  · exact h r h1
  · subst h1
    simp only [List.length_set]
    exact h row (List.mem_of_getElem? hr)

/-- the effective fill counter: a full column counts as an empty next one -/
def effS (n s : Nat) : Nat := if s = n then 0 else s
/-- the column the next entry goes to -/
def effJ (n s j : Nat) : Nat := if s = n then j + 1 else j

structure RelG (n d : Nat) (st : GridState Φ) (b : BinState Φ) : Prop where
  nq : st.nqubit = n
  npos : 0 < n
  rows : st.grid.length = n
  cols : ∀ r ∈ st.grid, r.length = d
  sle : st.s ≤ n
  phi : b.phi = st.phi
  cur : ∃ A, colOf st.grid st.j = A ++ List.replicate (n - st.s) Entry.one ∧ A.length = st.s ∧ width st.calls A = st.s
  later : ∀ c, st.j < c → colOf st.grid c = List.replicate n Entry.one
  valid : ∀ r ∈ st.grid, ∀ e ∈ r, validE st.calls e
  items : b.items.reverse = gridItems st

theorem colOf_valid (calls : List (GateCall Φ)) (g : List (List Entry)) (h : ∀ r ∈ g, ∀ e ∈ r, validE calls e) (c : Nat) :
    ∀ e ∈ colOf g c, validE calls e := by
  intro e he
  unfold colOf at he
  obtain ⟨row, hrow, rfl⟩ := List.mem_map.mp he
  rw [List.getD_eq_getElem?_getD]
  cases hc : row[c]? with
  | none => trivial
  | some x => exact h row hrow x (List.mem_of_getElem? hc)

theorem relG_init (P : PhaseOps Φ) (n d : Nat) (hn : 0 < n) :
    RelG n d (GridState.init P n d) (BinState.init P n) where
  nq := rfl
  npos := hn
  rows := by simp [GridState.init]
  cols := by intro r hr; simp [GridState.init] at hr; rw [hr.2]; simp
  sle := Nat.zero_le _
  phi := rfl
  cur := ⟨[], by simp only [GridState.init, colOf_ones, List.nil_append, Nat.sub_zero], rfl, rfl⟩
  later := by
    intro c _
    simp only [GridState.init, colOf_ones]
  valid := by
    intro r hr e he
    simp [GridState.init] at hr
    rw [hr.2] at he
    simp at he
    rw [he.2]; trivial
  items := by
    simp only [GridState.init, BinState.init, gridItems, List.reverse_nil, Nat.zero_add, List.range_one,
      List.flatMap_cons, List.flatMap_nil, List.append_nil]
    rw [colOf_ones, layerItems_ones]

/-- recording a gate-set call does not disturb the relation -/
theorem relG_push (n d : Nat) (st : GridState Φ) (b : BinState Φ) (h : RelG n d st b) (c : GateCall Φ) :
    RelG n d { st with calls := c :: st.calls } b where
  nq := h.nq
  npos := h.npos
  rows := h.rows
  cols := h.cols
  sle := h.sle
  phi := h.phi
  cur := by
    obtain ⟨A, hA, hl, hw⟩ := h.cur
    refine ⟨A, hA, hl, ?_⟩
    have hv : ∀ e ∈ A, validE st.calls e := fun e he =>
      colOf_valid st.calls st.grid h.valid st.j e (by rw [hA]; simp [he])
    show width (c :: st.calls) A = st.s
    rw [(layer_push st.calls c A hv 0).1, hw]
  later := h.later
  valid := fun r hr e he => valid_push _ _ _ (h.valid r hr e he)
  items := by
    rw [h.items]
    unfold gridItems
    apply List.flatMap_congr
    intro k _
    exact ((layer_push st.calls c _ (colOf_valid st.calls st.grid h.valid k) 0).2).symm

/-- `apply` of the grid class with the width and the phases made explicit -/
def placeG (st : GridState Φ) (i : Nat) (e : Entry) (w : Nat) (phi : List Φ) : Except Err (GridState Φ) :=
  if st.s < st.nqubit then do
    let g ← gridWrite st.grid i st.j e
    pure { st with grid := g, s := st.s + w, phi := phi }
  else if st.s = st.nqubit then do
    let g ← gridWrite st.grid i (st.j + 1) e
    pure { st with grid := g, s := w, j := st.j + 1, phi := phi }
  else pure st

theorem apply1_eqG (st : GridState Φ) (i : Nat) (e : Entry) : st.apply1 i e = placeG st i e 1 st.phi := rfl
theorem apply2_eqG (st : GridState Φ) (i : Nat) (e : Entry) (phi : List Φ) : st.apply2 i e phi = placeG st i e 2 phi := rfl

theorem range_flatMap_succ {α : Type} (f : Nat → List α) (m : Nat) :
    (List.range (m + 1)).flatMap f = (List.range m).flatMap f ++ f m := by
  rw [List.range_succ, List.flatMap_append]; simp

/-- **placing an entry in row order keeps the relation** -/
theorem placeG_sim (n d : Nat) (st st' : GridState Φ) (b : BinState Φ) (h : RelG n d st b) (i w : Nat) (e : Entry)
    (phi : List Φ) (it : BinItem Φ) (hw : entryWidth st.calls e = w) (hit : entryItem st.calls (effS n st.s) e = [it])
    (hv : validE st.calls e) (hrow : (i = effS n st.s ∧ 1 ≤ w) ∨ (i = effS n st.s + 1 ∧ w = 2))
    (hfit : effS n st.s + w ≤ n) (hp : placeG st i e w phi = .ok st') :
    RelG n d st' { b with phi := phi, items := it :: b.items } ∧ st'.s = effS n st.s + w := by
  have hw1 : 1 ≤ w := by rcases hrow with ⟨_, h1⟩ | ⟨_, h2⟩ <;> omega
  unfold placeG at hp
  rw [h.nq] at hp
  by_cases hs : st.s < n
  · -- room in the current column
    have heff : effS n st.s = st.s := by unfold effS; rw [if_neg (by omega)]
    rw [heff] at hit hrow hfit
    rw [if_pos hs] at hp
    cases hg : gridWrite st.grid i st.j e with
    | error x => simp [hg, bind, Except.bind] at hp
    | ok g' =>
      simp only [hg, bind, Except.bind, pure, Except.pure] at hp
      injection hp with hp
      subst hp
      obtain ⟨row, hr, hi, hj, rfl⟩ := gridWrite_ok _ _ _ _ _ hg
      obtain ⟨A, hA, hl, hwA⟩ := h.cur
      have hAv : ∀ x ∈ A, validE st.calls x := fun x hx =>
        colOf_valid st.calls st.grid h.valid st.j x (by rw [hA]; simp [hx])
      obtain ⟨B, hB, hBl, hBw, hBi, hBv, _⟩ := place_list st.calls n st.s w i e it _ A hA hl hwA hAv hw hit hv hrow hfit
      have hset : (colOf st.grid st.j).set i e = B ++ List.replicate (n - (st.s + w)) Entry.one := by
        unfold setAt at hB
        split at hB
        · injection hB
        · cases hB
      refine ⟨⟨rfl, h.npos, by simpa using h.rows, rows_write _ _ _ _ _ hr d h.cols, hfit, rfl, ?_, ?_, ?_, ?_⟩, by rw [heff]⟩
      · refine ⟨B, ?_, hBl, hBw⟩
        show colOf (st.grid.set i (row.set st.j e)) st.j = _
        rw [colOf_write _ _ _ _ _ _ hr hj, if_pos rfl, hset]
      · intro c hc
        have hc' : st.j < c := hc
        show colOf (st.grid.set i (row.set st.j e)) c = _
        rw [colOf_write _ _ _ _ _ _ hr hj, if_neg (by omega)]
        exact h.later c hc'
      · intro r hr' x hx
        rcases List.mem_or_eq_of_mem_set hr' with h1 | h1
        · exact h.valid r h1 x hx
        · subst h1
          rcases List.mem_or_eq_of_mem_set hx with h2 | h2
          · exact h.valid row (List.mem_of_getElem? hr) x h2
          · subst h2; exact hv
      · show (it :: b.items).reverse = gridItems _
        unfold gridItems
        simp only
        rw [List.reverse_cons, h.items]
        unfold gridItems
        rw [range_flatMap_succ, range_flatMap_succ]
        have hpre : (List.range st.j).flatMap (fun c => layerItems st.calls 0 (colOf (st.grid.set i (row.set st.j e)) c))
            = (List.range st.j).flatMap (fun c => layerItems st.calls 0 (colOf st.grid c)) := by
          apply List.flatMap_congr
          intro c hc
          rw [colOf_write _ _ _ _ _ _ hr hj, if_neg (by have := List.mem_range.mp hc; omega)]
        rw [hpre, colOf_write _ _ _ _ _ _ hr hj, if_pos rfl, hset, hA, layerItems_append, layerItems_append,
          layerItems_ones, layerItems_ones, hBi]
        simp
  · -- the current column is full: the entry opens column j + 1
    have hsn : st.s = n := by have := h.sle; omega
    have heff : effS n st.s = 0 := by unfold effS; rw [if_pos hsn]
    rw [heff] at hit hrow hfit
    rw [if_neg hs, if_pos hsn] at hp
    cases hg : gridWrite st.grid i (st.j + 1) e with
    | error x => simp [hg, bind, Except.bind] at hp
    | ok g' =>
      simp only [hg, bind, Except.bind, pure, Except.pure] at hp
      injection hp with hp
      subst hp
      obtain ⟨row, hr, hi, hj, rfl⟩ := gridWrite_ok _ _ _ _ _ hg
      have hnew : colOf st.grid (st.j + 1) = [] ++ List.replicate (n - 0) Entry.one := by
        simpa using h.later (st.j + 1) (by omega)
      obtain ⟨B, hB, hBl, hBw, hBi, hBv, _⟩ := place_list st.calls n 0 w i e it _ [] hnew rfl rfl (by simp) hw hit hv hrow hfit
      have hset : (colOf st.grid (st.j + 1)).set i e = B ++ List.replicate (n - (0 + w)) Entry.one := by
        unfold setAt at hB
        split at hB
        · injection hB
        · cases hB
      refine ⟨⟨rfl, h.npos, by simpa using h.rows, rows_write _ _ _ _ _ hr d h.cols, by show w ≤ n; omega, rfl, ?_, ?_, ?_, ?_⟩,
        by rw [heff]; simp⟩
      · refine ⟨B, ?_, by simpa using hBl, by simpa using hBw⟩
        show colOf (st.grid.set i (row.set (st.j + 1) e)) (st.j + 1) = _
        rw [colOf_write _ _ _ _ _ _ hr hj, if_pos rfl, hset]
        simp
      · intro c hc
        show colOf (st.grid.set i (row.set (st.j + 1) e)) c = _
        have hc' : st.j + 1 < c := hc
        rw [colOf_write _ _ _ _ _ _ hr hj, if_neg (by omega)]
        exact h.later c (by omega)
      · intro r hr' x hx
        rcases List.mem_or_eq_of_mem_set hr' with h1 | h1
        · exact h.valid r h1 x hx
        · subst h1
          rcases List.mem_or_eq_of_mem_set hx with h2 | h2
          · exact h.valid row (List.mem_of_getElem? hr) x h2
          · subst h2; exact hv
      · show (it :: b.items).reverse = gridItems _
        unfold gridItems
        simp only
        rw [List.reverse_cons, h.items]
        unfold gridItems
        rw [range_flatMap_succ (m := st.j + 1)]
        have hpre : (List.range (st.j + 1)).flatMap
              (fun c => layerItems st.calls 0 (colOf (st.grid.set i (row.set (st.j + 1) e)) c))
            = (List.range (st.j + 1)).flatMap (fun c => layerItems st.calls 0 (colOf st.grid c)) := by
          apply List.flatMap_congr
          intro c hc
          rw [colOf_write _ _ _ _ _ _ hr hj, if_neg (by have := List.mem_range.mp hc; omega)]
        rw [hpre, colOf_write _ _ _ _ _ _ hr hj, if_pos rfl, hset, layerItems_append, layerItems_ones, hBi]
        simp [layerItems]

/-! ### one build call -/

theorem effS_lt (n s : Nat) (hn : 0 < n) (hs : s ≤ n) : effS n s < n := by
  unfold effS; split <;> omega

/-- placing the matrix of a freshly recorded one-qubit call -/
theorem place_oneG (n d : Nat) (st st' : GridState Φ) (b : BinState Φ) (h : RelG n d st b) (c0 : GateCall Φ)
    (h2 : isTwo c0.method = false) (i : Nat) (hi : i = effS n st.s)
    (hp : ({ st with calls := c0 :: st.calls } : GridState Φ).apply1 i (.tok st.calls.length) = .ok st') :
    RelG n d st' { b with phi := st.phi, items := ⟨some c0, i, -1⟩ :: b.items } ∧ st'.s = effS n st.s + 1 := by
  have hr := relG_push n d st b h c0
  rw [apply1_eqG] at hp
  exact placeG_sim n d _ st' b hr i 1 (.tok st.calls.length) st.phi ⟨some c0, i, -1⟩
    (by simp [entryWidth, callAt_new, h2]) (by simp [entryItem, callAt_new, h2, hi])
    (by simp [validE]) (Or.inl ⟨hi, le_refl 1⟩) (by have := effS_lt n st.s h.npos h.sle; show effS n st.s + 1 ≤ n; omega) hp

/-- placing the matrix of a freshly recorded two-qubit call on rows `(s, s+1)` -/
theorem place_twoG (n d : Nat) (st st' : GridState Φ) (b : BinState Φ) (h : RelG n d st b) (c0 : GateCall Φ)
    (h2 : isTwo c0.method = true) (i k : Nat) (phi : List Φ)
    (hrow : (i = effS n st.s ∧ k = effS n st.s + 1 ∨ i = effS n st.s + 1 ∧ k = effS n st.s) ∧ effS n st.s + 2 ≤ n)
    (hp : ({ st with calls := c0 :: st.calls } : GridState Φ).apply2 i (.tok st.calls.length) phi = .ok st') :
    RelG n d st' { b with phi := phi, items := (if i < k then ⟨some c0, i, (k : Int)⟩ else ⟨some c0, k, (i : Int)⟩) :: b.items }
      ∧ st'.s = effS n st.s + 2 := by
  have hr := relG_push n d st b h c0
  rw [apply2_eqG] at hp
  have hit : (if i < k then (⟨some c0, i, (k : Int)⟩ : BinItem Φ) else ⟨some c0, k, (i : Int)⟩)
      = ⟨some c0, effS n st.s, ((effS n st.s + 1 : Nat) : Int)⟩ := by
    rcases hrow.1 with ⟨h1, h3⟩ | ⟨h1, h3⟩
    · rw [if_pos (by omega), h1, h3]
    · rw [if_neg (by omega), h1, h3]
  rw [hit]
  exact placeG_sim n d _ st' b hr i 2 (.tok st.calls.length) phi _
    (by simp [entryWidth, callAt_new, h2]) (by simp [entryItem, callAt_new, h2])
    (by simp [validE]) (by rcases hrow.1 with ⟨h1, _⟩ | ⟨h1, _⟩; exact Or.inl ⟨h1, by omega⟩; exact Or.inr ⟨h1, rfl⟩)
    hrow.2 hp

/-- the fill counter of the grid class after a call (no eager flush: it may equal `n`) -/
def nextSG (n s : Nat) : CircCall Φ → Nat
  | .Rz _ _ => s
  | .CNOT _ _ _ => effS n s + 2
  | .ECR _ _ _ => effS n s + 2
  | _ => effS n s + 1

/-- **one build call in row order: the grid machine and the index-based machine stay related** -/
theorem step_simG (P : PhaseOps Φ) (n d : Nat) (st st' : GridState Φ) (b : BinState Φ) (h : RelG n d st b)
    (c : CircCall Φ) (hrow : AtRow n (effS n st.s) c) (hs : st.step P c = .ok st') :
    ∃ b', b.step P c = .ok b' ∧ RelG n d st' b' ∧ st'.s = nextSG n st.s c := by
  have hsn : st.s < st.nqubit ∨ st.s = st.nqubit := by have := h.sle; rw [h.nq]; omega
  cases c with
  | Rz i th =>
    simp only [GridState.step, bind, Except.bind] at hs
    simp only [BinState.step, bind, Except.bind, h.phi]
    cases h1 : getAt st.phi i with
    | error e => simp [h1] at hs
    | ok p =>
      simp only [h1] at hs ⊢
      cases h2 : setAt st.phi i (P.add p th) with
      | error e => simp [h2] at hs
      | ok phi' =>
        simp only [h2, pure, Except.pure] at hs ⊢
        injection hs with hs
        subst hs
        exact ⟨_, rfl, ⟨h.nq, h.npos, h.rows, h.cols, h.sle, rfl, h.cur, h.later, h.valid, h.items⟩, rfl⟩
  | I i =>
    simp only [GridState.step] at hs
    refine ⟨_, rfl, ?_⟩
    rw [apply1_eqG] at hs
    have := placeG_sim n d st st' b h i 1 .ident st.phi ⟨none, i, -1⟩ rfl (by rw [(hrow : i = effS n st.s)]; rfl)
      trivial (Or.inl ⟨hrow, le_refl 1⟩) (by have := effS_lt n st.s h.npos h.sle; omega) hs
    rw [← h.phi] at this
    exact this
  | X i pars =>
    simp only [GridState.step, bind, Except.bind] at hs
    simp only [BinState.step, bind, Except.bind, h.phi]
    cases h1 : oneQCall P "X" st.phi i pars true with
    | error e => simp [h1] at hs
    | ok c0 =>
      simp only [h1, pure, Except.pure] at hs ⊢
      exact ⟨_, rfl, place_oneG n d st st' b h c0 (by rw [oneQCall_method P _ _ _ _ _ _ h1]; decide) i hrow hs⟩
  | SX i pars =>
    simp only [GridState.step, bind, Except.bind] at hs
    simp only [BinState.step, bind, Except.bind, h.phi]
    cases h1 : oneQCall P "SX" st.phi i pars true with
    | error e => simp [h1] at hs
    | ok c0 =>
      simp only [h1, pure, Except.pure] at hs ⊢
      exact ⟨_, rfl, place_oneG n d st st' b h c0 (by rw [oneQCall_method P _ _ _ _ _ _ h1]; decide) i hrow hs⟩
  | relaxation i pars =>
    simp only [GridState.step, bind, Except.bind] at hs
    simp only [BinState.step, bind, Except.bind, h.phi]
    cases h1 : oneQCall P "relaxation" st.phi i pars false with
    | error e => simp [h1] at hs
    | ok c0 =>
      simp only [h1, pure, Except.pure] at hs ⊢
      exact ⟨_, rfl, place_oneG n d st st' b h c0 (by rw [oneQCall_method P _ _ _ _ _ _ h1]; decide) i hrow hs⟩
  | bitflip i pars =>
    simp only [GridState.step, bind, Except.bind] at hs
    simp only [BinState.step, bind, Except.bind, h.phi]
    cases h1 : oneQCall P "bitflip" st.phi i pars false with
    | error e => simp [h1] at hs
    | ok c0 =>
      simp only [h1, pure, Except.pure] at hs ⊢
      exact ⟨_, rfl, place_oneG n d st st' b h c0 (by rw [oneQCall_method P _ _ _ _ _ _ h1]; decide) i hrow hs⟩
  | CNOT i k pars =>
    simp only [GridState.step] at hs
    by_cases had : absDiff i k ≠ 1
    · rw [if_pos had] at hs; cases hs
    · rw [if_neg had, if_pos hsn] at hs
      simp only [bind, Except.bind] at hs
      simp only [BinState.step, bind, Except.bind, h.phi]
      cases h1 : twoQCNOT P st.phi i k pars with
      | error e => simp [h1] at hs
      | ok t =>
        simp only [h1, pure, Except.pure] at hs ⊢
        exact ⟨_, rfl, place_twoG n d st st' b h t.call (twoQCNOT_method P _ _ _ _ _ h1) i k t.phi hrow hs⟩
  | ECR i k pars =>
    simp only [GridState.step] at hs
    by_cases had : absDiff i k ≠ 1
    · rw [if_pos had] at hs; cases hs
    · rw [if_neg had, if_pos hsn] at hs
      simp only [bind, Except.bind] at hs
      simp only [BinState.step, bind, Except.bind, h.phi]
      cases h1 : twoQECR st.phi i k pars with
      | error e => simp [h1] at hs
      | ok t =>
        simp only [h1, pure, Except.pure] at hs ⊢
        exact ⟨_, rfl, place_twoG n d st st' b h t.call (twoQECR_method _ _ _ _ _ h1) i k t.phi hrow hs⟩

/-! ### whole call lists -/

def RowOrderedG (n : Nat) : Nat → List (CircCall Φ) → Prop
  | _, [] => True
  | s, c :: cs => AtRow n (effS n s) c ∧ RowOrderedG n (nextSG n s c) cs

theorem effS_nextSG (n s : Nat) (c : CircCall Φ) : effS n (nextSG n s c) = nextS n (effS n s) c := by
  cases c <;> simp only [nextSG, nextS, effS] <;> rfl

/-- row order in the sense of the layered classes is row order for the grid class -/
theorem rowOrderedG_of (n : Nat) (cs : List (CircCall Φ)) (s : Nat) (h : RowOrdered n (effS n s) cs) : RowOrderedG n s cs := by
  induction cs generalizing s with
  | nil => trivial
  | cons c rest ih =>
    refine ⟨h.1, ih _ ?_⟩
    rw [effS_nextSG]
    exact h.2

theorem run_simG (P : PhaseOps Φ) (n d : Nat) (cs : List (CircCall Φ)) (st st' : GridState Φ) (b : BinState Φ)
    (h : RelG n d st b) (hrow : RowOrderedG n st.s cs) (hs : foldE (GridState.step P) st cs = .ok st') :
    ∃ b', foldE (BinState.step P) b cs = .ok b' ∧ RelG n d st' b' := by
  induction cs generalizing st b with
  | nil => simp only [foldE] at hs; injection hs with hs; subst hs; exact ⟨b, rfl, h⟩
  | cons c rest ih =>
    simp only [foldE, bind, Except.bind] at hs ⊢
    cases h1 : st.step P c with
    | error e => simp [h1] at hs
    | ok s1 =>
      simp only [h1] at hs
      obtain ⟨b1, hb1, hr1, hs1⟩ := step_simG P n d st s1 b h c hrow.1 h1
      obtain ⟨b', hb', hr'⟩ := ih s1 b1 hr1 (by rw [hs1]; exact hrow.2) hs
      exact ⟨b', by simp only [hb1]; exact hb', hr'⟩

end QG.Lemmas.GridSim
