import Mathlib.Tactic
import QG.Spec.GateAlgebra
/-!
Helper lemmas for C02: levels 1 and 3 of the optimizer (run merging), against the abstract gate algebra.
-/
namespace QG.Lemmas.Optimizer
open QG.Model.Optimizer QG.Spec QG.Spec.GateAlgebra

variable {M2 M4 Op : Type} [Monoid Op] {ops : MatOps M2 M4} {n : Nat}

/-- the qubit of a one-qubit item -/
def oneQ : Item M2 M4 → Option Nat
  | .one _ q => some q
  | .two .. => none

/-- "adjacent one-qubit items act on different qubits" — what level 1 establishes and the
after-section of `process_snippet` needs -/
def NoAdjSame : List (Item M2 M4) → Prop
  | [] => True
  | [_] => True
  | x :: y :: rest => (oneQ x = none ∨ oneQ x ≠ oneQ y) ∧ NoAdjSame (y :: rest)

theorem NoAdjSame.tail {x : Item M2 M4} {l} (h : NoAdjSame (x :: l)) : NoAdjSame l := by
  cases l with
  | nil => trivial
  | cons y rest => exact h.2

theorem noAdjSame_cons {x : Item M2 M4} {l : List (Item M2 M4)}
    (hx : oneQ x = none ∨ l.head?.map oneQ ≠ some (oneQ x)) (hl : NoAdjSame l) : NoAdjSame (x :: l) := by
  cases l with
  | nil => trivial
  | cons y rest =>
    refine ⟨?_, hl⟩
    rcases hx with h | h
    · exact Or.inl h
    · right; intro heq; apply h; simp [heq]

/-! ### level 1 -/

theorem scanRun1_le (q : Nat) (l : List (Item M2 M4)) : scanRun1 q l ≤ l.length := by
  induction l with
  | nil => simp [scanRun1]
  | cons g rest ih =>
    cases g with
    | two m a b => simp [scanRun1]
    | one m q' =>
      simp only [scanRun1]
      split
      · simp; omega
      · simp

theorem scanRun1_spec (q : Nat) (l : List (Item M2 M4)) :
    ∀ x ∈ l.take (scanRun1 q l), ∃ m, x = Item.one m q := by
  induction l with
  | nil => simp [scanRun1]
  | cons g rest ih =>
    cases g with
    | two m a b => simp [scanRun1]
    | one m q' =>
      simp only [scanRun1]
      split
      · rename_i hq
        intro x hx
        simp only [List.take_succ_cons, List.mem_cons] at hx
        rcases hx with rfl | hx
        · exact ⟨m, by rw [hq]⟩
        · exact ih x hx
      · simp

/-- the scan is maximal: what follows the run is not a one-qubit item on `q` -/
theorem scanRun1_stop (q : Nat) (l : List (Item M2 M4)) :
    (l.drop (scanRun1 q l)).head?.map oneQ ≠ some (some q) := by
  induction l with
  | nil => simp [scanRun1]
  | cons g rest ih =>
    cases g with
    | two m a b => simp [scanRun1, oneQ]
    | one m q' =>
      simp only [scanRun1]
      split
      · simpa using ih
      · rename_i hq
        simp [oneQ, hq]

theorem mergeRun1_sem (S : GateAlgebra ops n Op) (q : Nat) (hq : q < n) (l : List (Item M2 M4))
    (hl : ∀ x ∈ l, ∃ m, x = Item.one m q) (acc : M2) :
    S.e1 (mergeRun1 ops l acc) q = S.sem l * S.e1 acc q := by
  induction l generalizing acc with
  | nil => simp [mergeRun1]
  | cons g rest ih =>
    obtain ⟨m, rfl⟩ := hl _ List.mem_cons_self
    have := ih (fun x hx => hl x (List.mem_cons_of_mem _ hx)) (ops.mul2 m acc)
    simp [mergeRun1, this, S.e1_mul _ _ _ hq, mul_assoc]

theorem run1_le (g : Item M2 M4) (rest : List (Item M2 M4)) : run1 g rest ≤ rest.length := by
  cases g with
  | one m q => exact scanRun1_le q rest
  | two m a b => simp [run1]

theorem emit1_sem (S : GateAlgebra ops n Op) (g : Item M2 M4) (rest : List (Item M2 M4))
    (hg : WFItem n g) :
    S.item (emit1 ops g rest) = S.sem (rest.take (run1 g rest)) * S.item g := by
  cases g with
  | two m a b => simp [emit1, run1]
  | one m q =>
    have hq : q < n := hg
    simp only [emit1, run1]
    split
    · rw [item_one, mergeRun1_sem S q hq _ (scanRun1_spec q rest), S.e1_mul _ _ _ hq, S.e1_one _ hq,
        mul_one, item_one]
    · rename_i h
      have : scanRun1 q rest = 0 := by omega
      simp [this]

theorem emit1_oneQ (g : Item M2 M4) (rest : List (Item M2 M4)) : oneQ (emit1 ops g rest) = oneQ g := by
  cases g with
  | two m a b => simp [emit1]
  | one m q =>
    simp only [emit1]
    split <;> simp [oneQ]

theorem emit1_wf (g : Item M2 M4) (rest : List (Item M2 M4)) (hg : WFItem n g) :
    WFItem n (emit1 ops g rest) := by
  cases g with
  | two m a b => simpa [emit1] using hg
  | one m q =>
    simp only [emit1]
    split
    · exact hg
    · exact hg

theorem run1_stop (g : Item M2 M4) (rest : List (Item M2 M4)) :
    oneQ g = none ∨ (rest.drop (run1 g rest)).head?.map oneQ ≠ some (oneQ g) := by
  cases g with
  | two m a b => left; rfl
  | one m q => right; exact scanRun1_stop q rest

theorem level1_sem (S : GateAlgebra ops n Op) (l : List (Item M2 M4)) (hl : WFList n l) :
    S.sem (level1 ops l) = S.sem l := by
  induction hlen : l.length using Nat.strong_induction_on generalizing l with
  | _ k ih =>
    cases l with
    | nil => simp [level1]
    | cons g rest =>
      have hdrop : S.sem (level1 ops (rest.drop (run1 g rest))) = S.sem (rest.drop (run1 g rest)) :=
        ih _ (by subst hlen; simp only [List.length_drop, List.length_cons]; omega) _ (hl.tail.drop _) rfl
      have hsplit : S.sem rest = S.sem (rest.drop (run1 g rest)) * S.sem (rest.take (run1 g rest)) := by
        rw [← sem_append, List.take_append_drop]
      rw [level1]
      split
      · rw [sem_cons, emit1_sem S g rest hl.head, sem_cons, hsplit, mul_assoc]
      · rw [sem_cons, hdrop, emit1_sem S g rest hl.head, sem_cons, hsplit, mul_assoc]

theorem level1_wf (l : List (Item M2 M4)) (hl : WFList n l) : WFList n (level1 ops l) := by
  induction hlen : l.length using Nat.strong_induction_on generalizing l with
  | _ k ih =>
    cases l with
    | nil => simpa [level1] using hl
    | cons g rest =>
      rw [level1]
      split
      · exact WFList.cons (emit1_wf g rest hl.head) (hl.tail.drop _)
      · exact WFList.cons (emit1_wf g rest hl.head)
          (ih _ (by subst hlen; simp only [List.length_drop, List.length_cons]; omega) _ (hl.tail.drop _) rfl)

theorem level1_length_le (l : List (Item M2 M4)) : (level1 ops l).length ≤ l.length := by
  induction hlen : l.length using Nat.strong_induction_on generalizing l with
  | _ k ih =>
    cases l with
    | nil => simp [level1]
    | cons g rest =>
      subst hlen
      rw [level1]
      split
      · simp only [List.length_cons, List.length_drop]; omega
      · have := ih _ (by simp only [List.length_drop, List.length_cons]; omega)
          (rest.drop (run1 g rest)) rfl
        simp only [List.length_cons, List.length_drop] at this ⊢; omega

theorem level1_head (l : List (Item M2 M4)) : (level1 ops l).head?.map oneQ = l.head?.map oneQ := by
  cases l with
  | nil => simp [level1]
  | cons g rest =>
    rw [level1]
    split <;> simp [emit1_oneQ]

/-- after level 1 adjacent one-qubit items act on different qubits -/
theorem level1_noAdjSame (l : List (Item M2 M4)) : NoAdjSame (level1 ops l) := by
  induction hlen : l.length using Nat.strong_induction_on generalizing l with
  | _ k ih =>
    cases l with
    | nil => simp [level1, NoAdjSame]
    | cons g rest =>
      rw [level1]
      split
      · rename_i h1
        apply noAdjSame_cons
        · rw [emit1_oneQ]; exact run1_stop g rest
        · match hd : rest.drop (run1 g rest), h1 with
          | [x], _ => trivial
      · apply noAdjSame_cons
        · rw [emit1_oneQ, level1_head]; exact run1_stop g rest
        · exact ih _ (by subst hlen; simp only [List.length_drop, List.length_cons]; omega) _ rfl

/-! ### level 3 -/

theorem scanRun2_le (a b : Nat) (l : List (Item M2 M4)) : scanRun2 a b l ≤ l.length := by
  induction l with
  | nil => simp [scanRun2]
  | cons g rest ih =>
    cases g with
    | one m q => simp [scanRun2]
    | two m a' b' =>
      simp only [scanRun2]
      split
      · simp; omega
      · simp

theorem scanRun2_spec (a b : Nat) (l : List (Item M2 M4)) :
    ∀ x ∈ l.take (scanRun2 a b l), ∃ m, x = Item.two m a b := by
  induction l with
  | nil => simp [scanRun2]
  | cons g rest ih =>
    cases g with
    | one m q => simp [scanRun2]
    | two m a' b' =>
      simp only [scanRun2]
      split
      · rename_i hq
        intro x hx
        simp only [List.take_succ_cons, List.mem_cons] at hx
        rcases hx with rfl | hx
        · exact ⟨m, by rw [hq.1, hq.2]⟩
        · exact ih x hx
      · simp

theorem mergeRun2_sem (S : GateAlgebra ops n Op) (a b : Nat) (ha : a < n) (hb : b < n) (hab : a ≠ b)
    (l : List (Item M2 M4)) (hl : ∀ x ∈ l, ∃ m, x = Item.two m a b) (acc : M4) :
    S.e2 (mergeRun2 ops l acc) a b = S.sem l * S.e2 acc a b := by
  induction l generalizing acc with
  | nil => simp [mergeRun2]
  | cons g rest ih =>
    obtain ⟨m, rfl⟩ := hl _ List.mem_cons_self
    have := ih (fun x hx => hl x (List.mem_cons_of_mem _ hx)) (ops.mul4 m acc)
    simp [mergeRun2, this, S.e2_mul _ _ _ _ ha hb hab, mul_assoc]

theorem run3_le (g : Item M2 M4) (rest : List (Item M2 M4)) : run3 g rest ≤ rest.length := by
  cases g with
  | two m a b => exact scanRun2_le a b rest
  | one m q => simp [run3]

theorem emit3_sem (S : GateAlgebra ops n Op) (g : Item M2 M4) (rest : List (Item M2 M4))
    (hg : WFItem n g) :
    S.item (emit3 ops g rest) = S.sem (rest.take (run3 g rest)) * S.item g := by
  cases g with
  | one m q => simp [emit3, run3]
  | two m a b =>
    obtain ⟨ha, hb, hab⟩ : a < n ∧ b < n ∧ a ≠ b := hg
    simp only [emit3, run3]
    split
    · rw [item_two, mergeRun2_sem S a b ha hb hab _ (scanRun2_spec a b rest),
        S.e2_mul _ _ _ _ ha hb hab, S.e2_one _ _ ha hb hab, mul_one, item_two]
    · rename_i h
      have : scanRun2 a b rest = 0 := by omega
      simp [this]

theorem emit3_wf (g : Item M2 M4) (rest : List (Item M2 M4)) (hg : WFItem n g) :
    WFItem n (emit3 ops g rest) := by
  cases g with
  | one m q => simpa [emit3] using hg
  | two m a b =>
    simp only [emit3]
    split
    · exact hg
    · exact hg

theorem level3_sem (S : GateAlgebra ops n Op) (l : List (Item M2 M4)) (hl : WFList n l) :
    S.sem (level3 ops l) = S.sem l := by
  induction hlen : l.length using Nat.strong_induction_on generalizing l with
  | _ k ih =>
    cases l with
    | nil => simp [level3]
    | cons g rest =>
      have hdrop : S.sem (level3 ops (rest.drop (run3 g rest))) = S.sem (rest.drop (run3 g rest)) :=
        ih _ (by subst hlen; simp only [List.length_drop, List.length_cons]; omega) _ (hl.tail.drop _) rfl
      have hsplit : S.sem rest = S.sem (rest.drop (run3 g rest)) * S.sem (rest.take (run3 g rest)) := by
        rw [← sem_append, List.take_append_drop]
      rw [level3]
      split
      · rw [sem_cons, emit3_sem S g rest hl.head, sem_cons, hsplit, mul_assoc]
      · rw [sem_cons, hdrop, emit3_sem S g rest hl.head, sem_cons, hsplit, mul_assoc]

theorem level3_wf (l : List (Item M2 M4)) (hl : WFList n l) : WFList n (level3 ops l) := by
  induction hlen : l.length using Nat.strong_induction_on generalizing l with
  | _ k ih =>
    cases l with
    | nil => simpa [level3] using hl
    | cons g rest =>
      rw [level3]
      split
      · exact WFList.cons (emit3_wf g rest hl.head) (hl.tail.drop _)
      · exact WFList.cons (emit3_wf g rest hl.head)
          (ih _ (by subst hlen; simp only [List.length_drop, List.length_cons]; omega) _ (hl.tail.drop _) rfl)

theorem level3_length_le (l : List (Item M2 M4)) : (level3 ops l).length ≤ l.length := by
  induction hlen : l.length using Nat.strong_induction_on generalizing l with
  | _ k ih =>
    cases l with
    | nil => simp [level3]
    | cons g rest =>
      subst hlen
      rw [level3]
      split
      · simp only [List.length_cons, List.length_drop]; omega
      · have := ih _ (by simp only [List.length_drop, List.length_cons]; omega)
          (rest.drop (run3 g rest)) rfl
        simp only [List.length_cons, List.length_drop] at this ⊢; omega

theorem level3_ne_nil (l : List (Item M2 M4)) (h : l ≠ []) : level3 ops l ≠ [] := by
  cases l with
  | nil => exact absurd rfl h
  | cons g rest =>
    rw [level3]
    split <;> simp

theorem level1_ne_nil (l : List (Item M2 M4)) (h : l ≠ []) : level1 ops l ≠ [] := by
  cases l with
  | nil => exact absurd rfl h
  | cons g rest =>
    rw [level1]
    split <;> simp

end QG.Lemmas.Optimizer
