import Mathlib.Tactic
import QG.Lemmas.LayerSim
import QG.Lemmas.FrameInvariant
import QG.Lemmas.BackendBinaryBridge

/-!
# Bridge between the layers of a layered circuit object (C03 / C08) and the layers the backends read (C01)

`QG.Lemmas.LayerSim` reads a layer of tokens with a qubit offset and gets a list of registered items
(`layerItems`); `QG.Lemmas.Backend` reads a layer of matrices and scalar placeholders and gets a list of matrix items
(`itemsFrom`, the `layersItems` of C01's `binary_layer_spec`).  Here the two readings are shown to be the same list
once every token is replaced by the matrix of the noise-free gate set (`toBlock`): the shape invariant `Segs` that
`LayerSim.Rel` carries says that a layer is made of the segments `[I]`, `[M₂]`, `[G₄, 1]`, `[1, G₄]`, which is exactly
the well-formedness `WFI` of C01, and segment by segment the items agree.
-/
open QG.Model.Backend QG.Lemmas.Backend QG.Lemmas.LayerSim QG.Lemmas.Frame QG.Model.Wiring QG.Model.Optimizer
open QG.Spec QG.Spec.Register

set_option linter.unusedSectionVars false

namespace QG.Lemmas.LayerBridge

variable {R : Type} [CommSemiring R] {Φ : Type} [AddCommGroup Φ]

/-- a `Bool`-indexed 2x2 matrix as a model matrix (row-major array) -/
def ofM2 (m : M2 R) : Mat R := Mat.tab 2 fun i j => m (decide (i = 1)) (decide (j = 1))

/-- a `Bool × Bool`-indexed 4x4 matrix as a model matrix (`(a, b)` ↔ row / column `2a + b`) -/
def ofM4 (m : M4 R) : Mat R :=
  Mat.tab 4 fun i j => m (decide (i / 2 = 1), decide (i % 2 = 1)) (decide (j / 2 = 1), decide (j % 2 = 1))

@[simp] theorem ofM2_dim (m : M2 R) : (ofM2 m).dim = 2 := rfl
@[simp] theorem ofM4_dim (m : M4 R) : (ofM4 m).dim = 4 := rfl

theorem toM2_ofM2 (m : M2 R) : toM2 (ofM2 m) = m := by
  funext a b
  simp only [toM2, ofM2, fn_tab]
  cases a <;> cases b <;> simp

theorem toM4_ofM4 (m : M4 R) : toM4 (ofM4 m) = m := by
  funext ab cd
  obtain ⟨a, b⟩ := ab
  obtain ⟨c, d⟩ := cd
  simp only [toM4, ofM4, fn_tab]
  cases a <;> cases b <;> cases c <;> cases d <;> simp

/-- the matrix of an item as a layer entry -/
def itemBlock : Item (M2 R) (M4 R) → Block (Mat R)
  | .one m _ => .mat (ofM2 m)
  | .two m _ _ => .mat (ofM4 m)

/-- a layer entry of the circuit object with its token replaced by the matrix the noise-free gate set returns -/
def toBlock (F : FrameSys (matOps R) Φ) (calls : List (GateCall Φ)) : Entry → Block (Mat R)
  | .one => .scalar
  | .ident => .mat (ofM2 1)
  | .tok k => match callAt calls k with
    | some c => itemBlock (interp F ⟨some c, 0, 1⟩)
    | none => .scalar

/-- a one-qubit call is a 2x2 item wherever it is registered -/
theorem interp_one (F : FrameSys (matOps R) Φ) (c : GateCall Φ) (h : isTwo c.method = false) :
    ∃ m : M2 R, ∀ i j, interp F ⟨some c, i, j⟩ = .one m i := by
  obtain ⟨method, phases, pars⟩ := c
  simp only [isTwo, Bool.or_eq_false_iff, beq_eq_false_iff_ne, ne_eq] at h
  obtain ⟨⟨⟨h1, h2⟩, h3⟩, h4⟩ := h
  unfold interp
  simp only
  split
  · exact ⟨_, fun _ _ => rfl⟩
  · exact ⟨_, fun _ _ => rfl⟩
  · exact absurd rfl h1
  · exact absurd rfl h2
  · exact absurd rfl h3
  · exact absurd rfl h4
  · exact ⟨_, fun _ _ => rfl⟩

/-- a two-qubit call with its two phases is a 4x4 item wherever it is registered -/
theorem interp_two (F : FrameSys (matOps R) Φ) (c : GateCall Φ) (h : isTwo c.method = true) (hp : c.phases.length = 2) :
    ∃ m : M4 R, ∀ i j, interp F ⟨some c, i, j⟩ = .two m i j.toNat := by
  obtain ⟨method, phases, pars⟩ := c
  match phases, hp with
  | [a, b], _ =>
    simp only [isTwo, Bool.or_eq_true, beq_iff_eq] at h
    rcases h with ((h | h) | h) | h <;> subst h
    · exact ⟨F.sCNOT a b, fun _ _ => rfl⟩
    · exact ⟨F.sCNOTinv a b, fun _ _ => rfl⟩
    · exact ⟨F.sECR a b, fun _ _ => rfl⟩
    · exact ⟨F.sECRinv a b, fun _ _ => rfl⟩

theorem mem_of_callAt {calls : List (GateCall Φ)} {k : Nat} {c : GateCall Φ} (h : callAt calls k = some c) : c ∈ calls := by
  unfold callAt at h
  have := List.mem_of_getElem? h
  simpa using this

/-- **one layer**: a layer made of segments is a well-formed layer of C01, and its items read the C01 way are its items
read the C03 way -/
theorem segs_bridge (F : FrameSys (matOps R) Φ) (calls : List (GateCall Φ)) (hws : ∀ c ∈ calls, WS c)
    (l : List Entry) (h : Segs calls l) (q : Nat) :
    WFI (l.map (toBlock F calls)) ∧
      itemsFrom (l.map (toBlock F calls)) q = (layerItems calls q l).map (interp F) := by
  induction h generalizing q with
  | nil => exact ⟨.nil, rfl⟩
  | ident rest _ ih =>
    obtain ⟨hw, hi⟩ := ih (q + 1)
    refine ⟨.m2 _ _ rfl hw, ?_⟩
    have hitems : itemsFrom (Block.mat (ofM2 (1 : M2 R)) :: rest.map (toBlock F calls)) q =
        .one (toM2 (ofM2 (1 : M2 R))) q :: itemsFrom (rest.map (toBlock F calls)) (q + 1) := by
      cases hr : rest.map (toBlock F calls) with
      | nil => simp [itemsFrom]
      | cons b r => cases b <;> simp [itemsFrom]
    show itemsFrom (Block.mat (ofM2 1) :: rest.map (toBlock F calls)) q = _
    rw [hitems, hi, toM2_ofM2]
    simp [layerItems, entryItem, entryWidth, interp]
    rfl
  | one k c rest hc h2 _ ih =>
    obtain ⟨hw, hi⟩ := ih (q + 1)
    obtain ⟨m, hm⟩ := interp_one F c h2
    have hb : toBlock F calls (Entry.tok k) = .mat (ofM2 m) := by simp only [toBlock, hc, hm, itemBlock]
    refine ⟨by rw [List.map_cons, hb]; exact .m2 _ _ rfl hw, ?_⟩
    have hitems : itemsFrom (Block.mat (ofM2 m) :: rest.map (toBlock F calls)) q =
        .one (toM2 (ofM2 m)) q :: itemsFrom (rest.map (toBlock F calls)) (q + 1) := by
      cases hr : rest.map (toBlock F calls) with
      | nil => simp [itemsFrom]
      | cons b r => cases b <;> simp [itemsFrom]
    rw [List.map_cons, hb, hitems, hi, toM2_ofM2]
    simp [layerItems, entryItem, entryWidth, hc, h2, hm]
  | fwd k c rest hc h2 _ ih =>
    obtain ⟨hw, hi⟩ := ih (q + 2)
    obtain ⟨m, hm⟩ := interp_two F c h2 (hws c (mem_of_callAt hc) h2)
    have hb : toBlock F calls (Entry.tok k) = .mat (ofM4 m) := by simp only [toBlock, hc, hm, itemBlock]
    refine ⟨by rw [List.map_cons, List.map_cons, hb]; exact .m4after _ _ rfl hw, ?_⟩
    rw [List.map_cons, List.map_cons, hb]
    have hitems : itemsFrom (Block.mat (ofM4 m) :: toBlock F calls Entry.one :: rest.map (toBlock F calls)) q =
        .two (toM4 (ofM4 m)) q (q + 1) :: itemsFrom (rest.map (toBlock F calls)) (q + 2) := by
      simp [itemsFrom, toBlock]
    rw [hitems, hi, toM4_ofM4]
    simp [layerItems, entryItem, entryWidth, hc, h2, hm]
  | rev k c rest hc h2 _ ih =>
    obtain ⟨hw, hi⟩ := ih (q + 2)
    obtain ⟨m, hm⟩ := interp_two F c h2 (hws c (mem_of_callAt hc) h2)
    have hb : toBlock F calls (Entry.tok k) = .mat (ofM4 m) := by simp only [toBlock, hc, hm, itemBlock]
    refine ⟨by rw [List.map_cons, List.map_cons, hb]; exact .m4before _ _ rfl hw, ?_⟩
    rw [List.map_cons, List.map_cons, hb]
    have hitems : itemsFrom (toBlock F calls Entry.one :: Block.mat (ofM4 m) :: rest.map (toBlock F calls)) q =
        .two (toM4 (ofM4 m)) q (q + 1) :: itemsFrom (rest.map (toBlock F calls)) (q + 2) := by
      simp [itemsFrom, toBlock]
    rw [hitems, hi, toM4_ofM4]
    simp [layerItems, entryItem, entryWidth, hc, h2, hm]

/-- the inductive well-formedness of C01's lemmas implies the decidable one of C01's statements -/
theorem wfBlocks_of_wfi (l : List (Block (Mat R))) (h : WFI l) : wfBlocks Mat.dim l = true := by
  induction h with
  | nil => rfl
  | m2 M rest hM _ ih =>
    cases rest with
    | nil => simp [wfBlocks, hM]
    | cons b r => cases b <;> simp_all [wfBlocks]
  | m4after M rest hM _ ih => simp [wfBlocks, hM, ih]
  | m4before M rest hM _ ih => simp [wfBlocks, hM, ih]

/-- the completed layers of a layered circuit object as the layers of matrices handed to a backend (oldest first) -/
def layersOf (F : FrameSys (matOps R) Φ) (st : LayerState Φ) : List (Layer (Mat R)) :=
  st.mpList.reverse.map fun l => l.map (toBlock F st.calls)

/-- **whole object, on a layer boundary**: the layers of matrices are well formed in the sense of C01, and C01's item
reading of them (`layersItems`) is C03's item list of the object (`allItems`) -/
theorem layers_bridge (F : FrameSys (matOps R) Φ) (n : Nat) (st : LayerState Φ) (b : BinState Φ) (h : Rel n st b)
    (hs : st.s = 0) :
    (∀ l ∈ layersOf F st, WFI l ∧ l.length = n) ∧
      layersItems (layersOf F st) = (allItems st).map (interp F) := by
  constructor
  · intro l hl
    simp only [layersOf, List.mem_map, List.mem_reverse] at hl
    obtain ⟨l0, hl0, rfl⟩ := hl
    obtain ⟨hsg, hlen⟩ := h.segsList l0 hl0
    exact ⟨(segs_bridge F st.calls h.ws l0 hsg 0).1, by simpa using hlen⟩
  · obtain ⟨A, hA, hAl, _, _⟩ := h.mp
    have hA0 : A = [] := List.eq_nil_of_length_eq_zero (by omega)
    have hmp : layerItems st.calls 0 st.mp = [] := by rw [hA, hA0, List.nil_append, layerItems_ones]
    unfold allItems layersItems layersOf
    rw [List.flatMap_append, List.flatMap_cons, List.flatMap_nil, hmp, List.append_nil, List.append_nil,
      List.flatMap_map, List.map_flatMap]
    apply List.flatMap_congr
    intro l0 hl0
    obtain ⟨hsg, _⟩ := h.segsList l0 (by simpa using hl0)
    exact (segs_bridge F st.calls h.ws l0 hsg 0).2

/-! ### a pipeline run always completes a layer (the read-out layer) -/

def nonRz : CircCall Φ → Bool
  | .Rz _ _ => false
  | _ => true

theorem bin_step_items (P : PhaseOps Φ) (b b' : BinState Φ) (c : CircCall Φ) (h : b.step P c = .ok b') :
    (b.items ≠ [] → b'.items ≠ []) ∧ (nonRz c = true → b'.items ≠ []) := by
  cases c <;> simp only [BinState.step, bind, Except.bind, pure, Except.pure] at h
  all_goals (repeat' split at h)
  all_goals (try cases h)
  all_goals simp_all [nonRz]

theorem bin_run_items (P : PhaseOps Φ) (cs : List (CircCall Φ)) (b b' : BinState Φ)
    (h : foldE (BinState.step P) b cs = .ok b') (hne : b.items ≠ [] ∨ ∃ c ∈ cs, nonRz c = true) : b'.items ≠ [] := by
  induction cs generalizing b with
  | nil =>
    simp only [foldE] at h
    injection h with h
    subst h
    rcases hne with h | ⟨c, hc, _⟩
    · exact h
    · cases hc
  | cons c rest ih =>
    simp only [foldE, bind, Except.bind] at h
    cases h1 : b.step P c with
    | error e => simp [h1] at h
    | ok b1 =>
      simp only [h1] at h
      obtain ⟨k1, k2⟩ := bin_step_items P b b1 c h1
      apply ih b1 h
      rcases hne with h0 | ⟨c', hc', hn⟩
      · exact Or.inl (k1 h0)
      · rcases List.mem_cons.mp hc' with rfl | hc'
        · exact Or.inl (k2 hn)
        · exact Or.inr ⟨c', hc', hn⟩

theorem callsLayered_has_item (n : Nat) (hn : 0 < n) (data : List (Op Φ)) : ∃ c ∈ callsLayered n data, nonRz c = true :=
  ⟨.bitflip 0 [.tm 0, .rout 0], by
    unfold callsLayered
    exact List.mem_append_right _ (List.mem_map.mpr ⟨0, List.mem_range.mpr hn, rfl⟩), rfl⟩

/-- on a layer boundary an object whose index-based twin has registered an item has a completed layer -/
theorem mpList_ne_nil (n : Nat) (st : LayerState Φ) (b : BinState Φ) (h : Rel n st b) (hs : st.s = 0)
    (hb : b.items ≠ []) : st.mpList ≠ [] := by
  intro hnil
  obtain ⟨A, hA, hAl, _, _⟩ := h.mp
  have hA0 : A = [] := List.eq_nil_of_length_eq_zero (by omega)
  have hmp : layerItems st.calls 0 st.mp = [] := by rw [hA, hA0, List.nil_append, layerItems_ones]
  have := h.items
  unfold allItems at this
  rw [hnil] at this
  simp [hmp] at this
  exact hb this
/-! ### no exception on the domain -/

/-- sizes of a layered object for `n` qubits -/
def Sized (n : Nat) (st : LayerState Φ) : Prop := st.nqubit = n ∧ st.phi.length = n ∧ st.mp.length = n

theorem getAt_ok {α : Type} (l : List α) (i : Nat) (h : i < l.length) : ∃ v, getAt l i = .ok v := by
  unfold getAt
  rw [List.getElem?_eq_getElem h]
  exact ⟨_, rfl⟩

theorem setAt_ok {α : Type} (l : List α) (i : Nat) (v : α) (h : i < l.length) : setAt l i v = .ok (l.set i v) := by
  unfold setAt
  rw [if_pos h]

theorem oneQCall_ok (P : PhaseOps Φ) (m : String) (phi : List Φ) (i : Nat) (pars : List Par) (wp : Bool)
    (h : i < phi.length) : ∃ c, oneQCall P m phi i pars wp = .ok c := by
  unfold oneQCall
  obtain ⟨v, hv⟩ := getAt_ok phi i h
  cases wp <;> simp [hv, bind, Except.bind, pure, Except.pure]

theorem twoQCNOT_ok (P : PhaseOps Φ) (phi : List Φ) (i k : Nat) (pars : List Par) (hi : i < phi.length)
    (hk : k < phi.length) : ∃ t, twoQCNOT P phi i k pars = .ok t ∧ t.phi.length = phi.length := by
  unfold twoQCNOT
  obtain ⟨a, ha⟩ := getAt_ok phi i hi
  obtain ⟨b, hb⟩ := getAt_ok phi k hk
  simp only [ha, hb, bind, Except.bind, pure, Except.pure]
  by_cases hik : i < k
  · rw [if_pos hik, setAt_ok _ _ _ hi]
    exact ⟨_, rfl, by simp⟩
  · rw [if_neg hik, setAt_ok _ _ _ hi]
    simp only
    obtain ⟨c, hc⟩ := getAt_ok (phi.set i (P.add (P.add a P.halfPi) (P.add P.halfPi P.halfPi))) k (by simpa using hk)
    rw [hc]
    simp only
    rw [setAt_ok _ _ _ (by simpa using hk)]
    exact ⟨_, rfl, by simp⟩

theorem twoQECR_ok (phi : List Φ) (i k : Nat) (pars : List Par) (hi : i < phi.length)
    (hk : k < phi.length) : ∃ t, twoQECR phi i k pars = .ok t ∧ t.phi.length = phi.length := by
  unfold twoQECR
  obtain ⟨a, ha⟩ := getAt_ok phi i hi
  obtain ⟨b, hb⟩ := getAt_ok phi k hk
  simp only [ha, hb, bind, Except.bind, pure, Except.pure]
  by_cases hik : i < k
  · rw [if_pos hik]; exact ⟨_, rfl, rfl⟩
  · rw [if_neg hik]; exact ⟨_, rfl, rfl⟩

theorem flush_sized (n : Nat) (st : LayerState Φ) (h : Sized n st) : Sized n st.flush := by
  unfold LayerState.flush
  split
  · exact ⟨h.1, h.2.1, by simp [h.1]⟩
  · exact h

theorem placeE_ok (n : Nat) (st : LayerState Φ) (h : Sized n st) (i : Nat) (hi : i < n) (e : Entry) (w : Nat)
    (phi : List Φ) (hphi : phi.length = n) : ∃ st', placeE st i e w phi = .ok st' ∧ Sized n st' := by
  unfold placeE
  rw [setAt_ok _ _ _ (by rw [h.2.2]; exact hi)]
  exact ⟨_, rfl, flush_sized n _ ⟨h.1, hphi, by simp [h.2.2]⟩⟩

/-- **no exception on the domain**: a well-formed build call on a layered object of the right sizes returns normally -/
theorem layer_step_ok (P : PhaseOps Φ) (n : Nat) (st : LayerState Φ) (h : Sized n st) (c : CircCall Φ)
    (hwf : WFCall n c) : ∃ st', st.step P c = .ok st' ∧ Sized n st' := by
  cases c with
  | Rz i th =>
    simp only [LayerState.step, bind, Except.bind]
    have hi : i < st.phi.length := by rw [h.2.1]; exact hwf
    obtain ⟨p, hp⟩ := getAt_ok st.phi i hi
    rw [hp]
    simp only
    rw [setAt_ok _ _ _ hi]
    exact ⟨_, rfl, h.1, by simp [h.2.1], h.2.2⟩
  | I i =>
    simp only [LayerState.step, apply1_eq]
    exact placeE_ok n st h i hwf _ _ _ h.2.1
  | X i pars =>
    simp only [LayerState.step, bind, Except.bind]
    obtain ⟨c0, hc0⟩ := oneQCall_ok P "X" st.phi i pars true (by rw [h.2.1]; exact hwf)
    rw [hc0]
    simp only [apply1_eq]
    exact placeE_ok n ({ st with calls := c0 :: st.calls }) ⟨h.1, h.2.1, h.2.2⟩ i hwf _ _ _ h.2.1
  | SX i pars =>
    simp only [LayerState.step, bind, Except.bind]
    obtain ⟨c0, hc0⟩ := oneQCall_ok P "SX" st.phi i pars true (by rw [h.2.1]; exact hwf)
    rw [hc0]
    simp only [apply1_eq]
    exact placeE_ok n ({ st with calls := c0 :: st.calls }) ⟨h.1, h.2.1, h.2.2⟩ i hwf _ _ _ h.2.1
  | relaxation i pars =>
    simp only [LayerState.step, bind, Except.bind]
    obtain ⟨c0, hc0⟩ := oneQCall_ok P "relaxation" st.phi i pars false (by rw [h.2.1]; exact hwf)
    rw [hc0]
    simp only [apply1_eq]
    exact placeE_ok n ({ st with calls := c0 :: st.calls }) ⟨h.1, h.2.1, h.2.2⟩ i hwf _ _ _ h.2.1
  | bitflip i pars =>
    simp only [LayerState.step, bind, Except.bind]
    obtain ⟨c0, hc0⟩ := oneQCall_ok P "bitflip" st.phi i pars false (by rw [h.2.1]; exact hwf)
    rw [hc0]
    simp only [apply1_eq]
    exact placeE_ok n ({ st with calls := c0 :: st.calls }) ⟨h.1, h.2.1, h.2.2⟩ i hwf _ _ _ h.2.1
  | CNOT i k pars =>
    simp only [LayerState.step, bind, Except.bind]
    obtain ⟨t, ht, htl⟩ := twoQCNOT_ok P st.phi i k pars (by rw [h.2.1]; exact hwf.1) (by rw [h.2.1]; exact hwf.2.1)
    rw [ht]
    simp only [apply2_eq]
    exact placeE_ok n ({ st with calls := t.call :: st.calls }) ⟨h.1, h.2.1, h.2.2⟩ i hwf.1 _ _ _ (by rw [htl, h.2.1])
  | ECR i k pars =>
    simp only [LayerState.step, bind, Except.bind]
    obtain ⟨t, ht, htl⟩ := twoQECR_ok st.phi i k pars (by rw [h.2.1]; exact hwf.1) (by rw [h.2.1]; exact hwf.2.1)
    rw [ht]
    simp only [apply2_eq]
    exact placeE_ok n ({ st with calls := t.call :: st.calls }) ⟨h.1, h.2.1, h.2.2⟩ i hwf.1 _ _ _ (by rw [htl, h.2.1])

theorem layer_run_ok (P : PhaseOps Φ) (n : Nat) (cs : List (CircCall Φ)) (hwf : ∀ c ∈ cs, WFCall n c)
    (st : LayerState Φ) (h : Sized n st) : ∃ st', foldE (LayerState.step P) st cs = .ok st' ∧ Sized n st' := by
  induction cs generalizing st with
  | nil => exact ⟨st, rfl, h⟩
  | cons c rest ih =>
    obtain ⟨st1, h1, hs1⟩ := layer_step_ok P n st h c (hwf c (by simp))
    obtain ⟨st', h2, hs2⟩ := ih (fun c' hc' => hwf c' (by simp [hc'])) st1 hs1
    exact ⟨st', by simp only [foldE, bind, Except.bind, h1]; exact h2, hs2⟩

theorem init_sized (P : PhaseOps Φ) (n : Nat) : Sized n (LayerState.init P n) := by
  simp [Sized, LayerState.init]
end QG.Lemmas.LayerBridge
