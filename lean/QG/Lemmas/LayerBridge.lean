import Mathlib.Tactic
import QG.Lemmas.LayerSim
import QG.Lemmas.FrameInvariant
import QG.Lemmas.BackendBinaryBridge

/-!
# Bridge between the layers of a layered circuit object (C03 / C08) and the layers the backends read (C01)

`QG.Lemmas.LayerSim` reads a layer of tokens with a qubit offset and gets a list of registered items
(`layerItems`); `QG.Lemmas.Backend` reads a layer of matrices and scalar placeholders and gets a list of matrix items
(`itemsFrom`, the `layersItems` of C01's `binary_layer_spec`).  Here the two readings are shown to be the same list
once every token is replaced by the matrix of the noise-free gate set (`toBlock`): the shape invariant `Segs` that
`LayerSim.Rel` carries says that a layer is made of the segments `[I]`, `[M₂]`, `[G₄, 1]`, `[1, G₄]`, which is exactly
the well-formedness `WFI` of C01, and segment by segment the items agree.
-/
open QG.Model.Backend QG.Lemmas.Backend QG.Lemmas.LayerSim QG.Lemmas.Frame QG.Model.Wiring QG.Model.Optimizer
open QG.Spec QG.Spec.Register

set_option linter.unusedSectionVars false

namespace QG.Lemmas.LayerBridge

variable {R : Type} [CommSemiring R] {Φ : Type} [AddCommGroup Φ]

/-- a `Bool`-indexed 2x2 matrix as a model matrix (row-major array) -/
def ofM2 (m : M2 R) : Mat R := Mat.tab 2 fun i j => m (decide (i = 1)) (decide (j = 1))

/-- a `Bool × Bool`-indexed 4x4 matrix as a model matrix (`(a, b)` ↔ row / column `2a + b`) -/
def ofM4 (m : M4 R) : Mat R :=
  Mat.tab 4 fun i j => m (decide (i / 2 = 1), decide (i % 2 = 1)) (decide (j / 2 = 1), decide (j % 2 = 1))

@[simp] theorem ofM2_dim (m : M2 R) : (ofM2 m).dim = 2 := rfl
@[simp] theorem ofM4_dim (m : M4 R) : (ofM4 m).dim = 4 := rfl

theorem toM2_ofM2 (m : M2 R) : toM2 (ofM2 m) = m := by
  funext a b
  simp only [toM2, ofM2, fn_tab]
  cases a <;> cases b <;> simp

theorem toM4_ofM4 (m : M4 R) : toM4 (ofM4 m) = m := by
  funext ab cd
  obtain ⟨a, b⟩ := ab
  obtain ⟨c, d⟩ := cd
  simp only [toM4, ofM4, fn_tab]
  cases a <;> cases b <;> cases c <;> cases d <;> simp

/-- the matrix of an item as a layer entry -/
def itemBlock : Item (M2 R) (M4 R) → Block (Mat R)
  | .one m _ => .mat (ofM2 m)
  | .two m _ _ => .mat (ofM4 m)

/-- a layer entry of the circuit object with its token replaced by the matrix the noise-free gate set returns -/
def toBlock (F : FrameSys (matOps R) Φ) (calls : List (GateCall Φ)) : Entry → Block (Mat R)
  | .one => .scalar
  | .ident => .mat (ofM2 1)
  | .tok k => match callAt calls k with
    | some c => itemBlock (interp F ⟨some c, 0, 1⟩)
    | none => .scalar

/-- a one-qubit call is a 2x2 item wherever it is registered -/
theorem interp_one (F : FrameSys (matOps R) Φ) (c : GateCall Φ) (h : isTwo c.method = false) :
    ∃ m : M2 R, ∀ i j, interp F ⟨some c, i, j⟩ = .one m i := by
  obtain ⟨method, phases, pars⟩ := c
  simp only [isTwo, Bool.or_eq_false_iff, beq_eq_false_iff_ne, ne_eq] at h
  obtain ⟨⟨⟨h1, h2⟩, h3⟩, h4⟩ := h
  unfold interp
  simp only
  split
  · exact ⟨_, fun _ _ => rfl⟩
  · exact ⟨_, fun _ _ => rfl⟩
  · exact absurd rfl h1
  · exact absurd rfl h2
  · exact absurd rfl h3
  · exact absurd rfl h4
  · exact ⟨_, fun _ _ => rfl⟩

/-- a two-qubit call with its two phases is a 4x4 item wherever it is registered -/
theorem interp_two (F : FrameSys (matOps R) Φ) (c : GateCall Φ) (h : isTwo c.method = true) (hp : c.phases.length = 2) :
    ∃ m : M4 R, ∀ i j, interp F ⟨some c, i, j⟩ = .two m i j.toNat := by
  obtain ⟨method, phases, pars⟩ := c
  match phases, hp with
  | [a, b], _ =>
    simp only [isTwo, Bool.or_eq_true, beq_iff_eq] at h
    rcases h with ((h | h) | h) | h <;> subst h
    · exact ⟨F.sCNOT a b, fun _ _ => rfl⟩
    · exact ⟨F.sCNOTinv a b, fun _ _ => rfl⟩
    · exact ⟨F.sECR a b, fun _ _ => rfl⟩
    · exact ⟨F.sECRinv a b, fun _ _ => rfl⟩

theorem mem_of_callAt {calls : List (GateCall Φ)} {k : Nat} {c : GateCall Φ} (h : callAt calls k = some c) : c ∈ calls := by
  unfold callAt at h
  have := List.mem_of_getElem? h
  simpa using this

/-- **one layer**: a layer made of segments is a well-formed layer of C01, and its items read the C01 way are its items
read the C03 way -/
theorem segs_bridge (F : FrameSys (matOps R) Φ) (calls : List (GateCall Φ)) (hws : ∀ c ∈ calls, WS c)
    (l : List Entry) (h : Segs calls l) (q : Nat) :
    WFI (l.map (toBlock F calls)) ∧
      itemsFrom (l.map (toBlock F calls)) q = (layerItems calls q l).map (interp F) := by
  induction h generalizing q with
  | nil => exact ⟨.nil, rfl⟩
  | ident rest _ ih =>
    obtain ⟨hw, hi⟩ := ih (q + 1)
    refine ⟨.m2 _ _ rfl hw, ?_⟩
    have hitems : itemsFrom (Block.mat (ofM2 (1 : M2 R)) :: rest.map (toBlock F calls)) q =
        .one (toM2 (ofM2 (1 : M2 R))) q :: itemsFrom (rest.map (toBlock F calls)) (q + 1) := by
      cases hr : rest.map (toBlock F calls) with
      | nil => simp [itemsFrom]
      | cons b r => cases b <;> simp [itemsFrom]
    show itemsFrom (Block.mat (ofM2 1) :: rest.map (toBlock F calls)) q = _
    rw [hitems, hi, toM2_ofM2]
    simp [layerItems, entryItem, entryWidth, interp]
    rfl
  | one k c rest hc h2 _ ih =>
    obtain ⟨hw, hi⟩ := ih (q + 1)
    obtain ⟨m, hm⟩ := interp_one F c h2
    have hb : toBlock F calls (Entry.tok k) = .mat (ofM2 m) := by simp only [toBlock, hc, hm, itemBlock]
    refine ⟨by rw [List.map_cons, hb]; exact .m2 _ _ rfl hw, ?_⟩
    have hitems : itemsFrom (Block.mat (ofM2 m) :: rest.map (toBlock F calls)) q =
        .one (toM2 (ofM2 m)) q :: itemsFrom (rest.map (toBlock F calls)) (q + 1) := by
      cases hr : rest.map (toBlock F calls) with
      | nil => simp [itemsFrom]
      | cons b r => cases b <;> simp [itemsFrom]
    rw [List.map_cons, hb, hitems, hi, toM2_ofM2]
    simp [layerItems, entryItem, entryWidth, hc, h2, hm]
  | fwd k c rest hc h2 _ ih =>
    obtain ⟨hw, hi⟩ := ih (q + 2)
    obtain ⟨m, hm⟩ := interp_two F c h2 (hws c (mem_of_callAt hc) h2)
    have hb : toBlock F calls (Entry.tok k) = .mat (ofM4 m) := by simp only [toBlock, hc, hm, itemBlock]
    refine ⟨by rw [List.map_cons, List.map_cons, hb]; exact .m4after _ _ rfl hw, ?_⟩
    rw [List.map_cons, List.map_cons, hb]
    have hitems : itemsFrom (Block.mat (ofM4 m) :: toBlock F calls Entry.one :: rest.map (toBlock F calls)) q =
        .two (toM4 (ofM4 m)) q (q + 1) :: itemsFrom (rest.map (toBlock F calls)) (q + 2) := by
      simp [itemsFrom, toBlock]
    rw [hitems, hi, toM4_ofM4]
    simp [layerItems, entryItem, entryWidth, hc, h2, hm]
  | rev k c rest hc h2 _ ih =>
    obtain ⟨hw, hi⟩ := ih (q + 2)
    obtain ⟨m, hm⟩ := interp_two F c h2 (hws c (mem_of_callAt hc) h2)
    have hb : toBlock F calls (Entry.tok k) = .mat (ofM4 m) := by simp only [toBlock, hc, hm, itemBlock]
    refine ⟨by rw [List.map_cons, List.map_cons, hb]; exact .m4before _ _ rfl hw, ?_⟩
    rw [List.map_cons, List.map_cons, hb]
    have hitems : itemsFrom (toBlock F calls Entry.one :: Block.mat (ofM4 m) :: rest.map (toBlock F calls)) q =
        .two (toM4 (ofM4 m)) q (q + 1) :: itemsFrom (rest.map (toBlock F calls)) (q + 2) := by
      simp [itemsFrom, toBlock]
    rw [hitems, hi, toM4_ofM4]
    simp [layerItems, entryItem, entryWidth, hc, h2, hm]

/-- the inductive well-formedness of C01's lemmas implies the decidable one of C01's statements -/
theorem wfBlocks_of_wfi (l : List (Block (Mat R))) (h : WFI l) : wfBlocks Mat.dim l = true := by
  induction h with
  | nil => rfl
  | m2 M rest hM _ ih =>
    cases rest with
    | nil => simp [wfBlocks, hM]
    | cons b r => cases b <;> simp_all [wfBlocks]
  | m4after M rest hM _ ih => simp [wfBlocks, hM, ih]
  | m4before M rest hM _ ih => simp [wfBlocks, hM, ih]

/-- the completed layers of a layered circuit object as the layers of matrices handed to a backend (oldest first) -/
def layersOf (F : FrameSys (matOps R) Φ) (st : LayerState Φ) : List (Layer (Mat R)) :=
  st.mpList.reverse.map fun l => l.map (toBlock F st.calls)

/-- **whole object, on a layer boundary**: the layers of matrices are well formed in the sense of C01, and C01's item
reading of them (`layersItems`) is C03's item list of the object (`allItems`) -/
theorem layers_bridge (F : FrameSys (matOps R) Φ) (n : Nat) (st : LayerState Φ) (b : BinState Φ) (h : Rel n st b)
    (hs : st.s = 0) :
    (∀ l ∈ layersOf F st, WFI l ∧ l.length = n) ∧
      layersItems (layersOf F st) = (allItems st).map (interp F) := by
  constructor
  · intro l hl
    simp only [layersOf, List.mem_map, List.mem_reverse] at hl
    obtain ⟨l0, hl0, rfl⟩ := hl
    obtain ⟨hsg, hlen⟩ := h.segsList l0 hl0
    exact ⟨(segs_bridge F st.calls h.ws l0 hsg 0).1, by simpa using hlen⟩
  · obtain ⟨A, hA, hAl, _, _⟩ := h.mp
    have hA0 : A = [] := List.eq_nil_of_length_eq_zero (by omega)
    have hmp : layerItems st.calls 0 st.mp = [] := by rw [hA, hA0, List.nil_append, layerItems_ones]
    unfold allItems layersItems layersOf
    rw [List.flatMap_append, List.flatMap_cons, List.flatMap_nil, hmp, List.append_nil, List.append_nil,
      List.flatMap_map, List.map_flatMap]
    apply List.flatMap_congr
    intro l0 hl0
    obtain ⟨hsg, _⟩ := h.segsList l0 (by simpa using hl0)
    exact (segs_bridge F st.calls h.ws l0 hsg 0).2

end QG.Lemmas.LayerBridge
