import Mathlib.Tactic
import QG.Lemmas.GridSim
import QG.Lemmas.LayerBridge

/-!
# Bridge between the columns of the legacy grid class `Circuit` (C03 / C08) and the layers a backend reads (C01)

`Circuit.statevector` multiplies `kron(column)` over the columns of its grid (first column first) — literally what
`StandardBackend.statevector` does with a list of layers.  `QG.Lemmas.GridSim` relates the grid machine to the
index-based machine (`RelG`: the columns read with a qubit offset are the registered items).  Here a second invariant
(`ShapeG`: every completed column, and the filled part of the current one, is made of the segments `[I]`, `[M₂]`,
`[G₄,1]`, `[1,G₄]`; two-qubit calls carry two phases) is carried along the same runs, and `grid_bridge` turns it into
C01's vocabulary: with every token replaced by the matrix of the noise-free gate set the columns are well-formed layers
of C01, and C01's item reading of them is C03's item list of the object.
-/
open QG.Model.Backend QG.Lemmas.Backend QG.Lemmas.LayerSim QG.Lemmas.GridSim QG.Lemmas.LayerBridge QG.Lemmas.Frame
open QG.Model.Wiring QG.Model.Optimizer QG.Spec QG.Spec.Register

set_option linter.unusedSectionVars false
set_option linter.unusedSimpArgs false

namespace QG.Lemmas.GridBridge

variable {R : Type} [CommSemiring R] {Φ : Type} [AddCommGroup Φ]

/-- the shape invariant of a grid object (next to `GridSim.RelG`) -/
structure ShapeG (n : Nat) (st : GridState Φ) : Prop where
  cur : ∃ A, colOf st.grid st.j = A ++ List.replicate (n - st.s) Entry.one ∧ A.length = st.s ∧ Segs st.calls A
  earlier : ∀ c, c < st.j → Segs st.calls (colOf st.grid c)
  ws : ∀ c ∈ st.calls, WS c

theorem shapeG_init (P : PhaseOps Φ) (n d : Nat) : ShapeG n (GridState.init P n d) where
  cur := ⟨[], by simp only [GridState.init, colOf_ones, List.nil_append, Nat.sub_zero], rfl, .nil⟩
  earlier := by intro c hc; simp [GridState.init] at hc
  ws := by intro c hc; simp [GridState.init] at hc

theorem shapeG_push (n : Nat) (st : GridState Φ) (h : ShapeG n st) (c : GateCall Φ) (hws : WS c) :
    ShapeG n { st with calls := c :: st.calls } where
  cur := by
    obtain ⟨A, hA, hl, hs⟩ := h.cur
    exact ⟨A, hA, hl, hs.push c⟩
  earlier := fun k hk => (h.earlier k hk).push c
  ws := by
    intro c' hc'
    rcases List.mem_cons.mp hc' with rfl | hc'
    · exact hws
    · exact h.ws c' hc'

/-- the filled part of the current column is determined by its length -/
theorem cur_unique {n s : Nat} {col A B : List Entry}
    (hA : col = A ++ List.replicate (n - s) Entry.one) (hB : col = B ++ List.replicate (n - s) Entry.one)
    (hlA : A.length = s) (hlB : B.length = s) : A = B := by
  have := hA.symm.trans hB
  exact (List.append_inj this (by rw [hlA, hlB])).1

/-- **placing an entry in row order keeps the shape** (same hypotheses as `GridSim.placeG_sim`, plus `SegOK`) -/
theorem placeG_shape (n d : Nat) (st st' : GridState Φ) (b : BinState Φ) (h : RelG n d st b) (hsh : ShapeG n st)
    (i w : Nat) (e : Entry) (phi : List Φ) (it : BinItem Φ) (hw : entryWidth st.calls e = w)
    (hit : entryItem st.calls (effS n st.s) e = [it]) (hv : validE st.calls e)
    (hrow : (i = effS n st.s ∧ 1 ≤ w) ∨ (i = effS n st.s + 1 ∧ w = 2)) (hfit : effS n st.s + w ≤ n)
    (hseg : SegOK st.calls e w) (hp : placeG st i e w phi = .ok st') : ShapeG n st' := by
  unfold placeG at hp
  rw [h.nq] at hp
  by_cases hs : st.s < n
  · have heff : effS n st.s = st.s := by unfold effS; rw [if_neg (by omega)]
    rw [heff] at hit hrow hfit
    rw [if_pos hs] at hp
    cases hg : gridWrite st.grid i st.j e with
    | error x => simp [hg, bind, Except.bind] at hp
    | ok g' =>
      simp only [hg, bind, Except.bind, pure, Except.pure] at hp
      injection hp with hp
      subst hp
      obtain ⟨row, hr, hi, hj, rfl⟩ := gridWrite_ok _ _ _ _ _ hg
      obtain ⟨A, hA, hl, hwA⟩ := h.cur
      obtain ⟨A', hA', hl', hsA'⟩ := hsh.cur
      have hAA : A' = A := cur_unique hA' hA hl' hl
      subst hAA
      have hAv : ∀ x ∈ A', validE st.calls x := fun x hx =>
        colOf_valid st.calls st.grid h.valid st.j x (by rw [hA]; simp [hx])
      obtain ⟨B, hB, hBl, _, _, _, hBs⟩ :=
        place_list st.calls n st.s w i e it _ A' hA hl hwA hAv hw hit hv hrow hfit
      have hset : (colOf st.grid st.j).set i e = B ++ List.replicate (n - (st.s + w)) Entry.one := by
        unfold setAt at hB
        split at hB
        · injection hB
        · cases hB
      refine ⟨⟨B, ?_, hBl, hBs hseg hsA'⟩, ?_, hsh.ws⟩
      · show colOf (st.grid.set i (row.set st.j e)) st.j = _
        rw [colOf_write _ _ _ _ _ _ hr hj, if_pos rfl, hset]
      · intro c hc
        have hc' : c < st.j := hc
        show Segs st.calls (colOf (st.grid.set i (row.set st.j e)) c)
        rw [colOf_write _ _ _ _ _ _ hr hj, if_neg (by omega)]
        exact hsh.earlier c hc'
  · have hsn : st.s = n := by have := h.sle; omega
    have heff : effS n st.s = 0 := by unfold effS; rw [if_pos hsn]
    rw [heff] at hit hrow hfit
    rw [if_neg hs, if_pos hsn] at hp
    cases hg : gridWrite st.grid i (st.j + 1) e with
    | error x => simp [hg, bind, Except.bind] at hp
    | ok g' =>
      simp only [hg, bind, Except.bind, pure, Except.pure] at hp
      injection hp with hp
      subst hp
      obtain ⟨row, hr, hi, hj, rfl⟩ := gridWrite_ok _ _ _ _ _ hg
      have hnew : colOf st.grid (st.j + 1) = [] ++ List.replicate (n - 0) Entry.one := by
        simpa using h.later (st.j + 1) (by omega)
      obtain ⟨B, hB, hBl, _, _, _, hBs⟩ :=
        place_list st.calls n 0 w i e it _ [] hnew rfl rfl (by simp) hw hit hv hrow hfit
      have hset : (colOf st.grid (st.j + 1)).set i e = B ++ List.replicate (n - (0 + w)) Entry.one := by
        unfold setAt at hB
        split at hB
        · injection hB
        · cases hB
      -- the column that has just been completed
      obtain ⟨A', hA', hl', hsA'⟩ := hsh.cur
      have hfull : colOf st.grid st.j = A' := by rw [hA', hsn]; simp
      refine ⟨⟨B, ?_, by simpa using hBl, hBs hseg .nil⟩, ?_, hsh.ws⟩
      · show colOf (st.grid.set i (row.set (st.j + 1) e)) (st.j + 1) = _
        rw [colOf_write _ _ _ _ _ _ hr hj, if_pos rfl, hset]
        simp
      · intro c hc
        have hc' : c < st.j + 1 := hc
        show Segs st.calls (colOf (st.grid.set i (row.set (st.j + 1) e)) c)
        rw [colOf_write _ _ _ _ _ _ hr hj, if_neg (by omega)]
        by_cases hcj : c = st.j
        · rw [hcj, hfull]; exact hsA'
        · exact hsh.earlier c (by omega)

/-- placing the matrix of a freshly recorded one-qubit call -/
theorem place_oneG_shape (n d : Nat) (st st' : GridState Φ) (b : BinState Φ) (h : RelG n d st b) (hsh : ShapeG n st)
    (c0 : GateCall Φ) (h2 : isTwo c0.method = false) (i : Nat) (hi : i = effS n st.s)
    (hp : ({ st with calls := c0 :: st.calls } : GridState Φ).apply1 i (.tok st.calls.length) = .ok st') :
    ShapeG n st' := by
  have hr := relG_push n d st b h c0
  have hs' := shapeG_push n st hsh c0 (fun h' => by rw [h2] at h'; cases h')
  rw [apply1_eqG] at hp
  exact placeG_shape n d _ st' b hr hs' i 1 (.tok st.calls.length) st.phi ⟨some c0, i, -1⟩
    (by simp [entryWidth, callAt_new, h2]) (by simp [entryItem, callAt_new, h2, hi])
    (by simp [validE]) (Or.inl ⟨hi, le_refl 1⟩)
    (by have := effS_lt n st.s h.npos h.sle; show effS n st.s + 1 ≤ n; omega)
    (Or.inr ⟨st.calls.length, c0, rfl, callAt_new _ _, Or.inl ⟨h2, rfl⟩⟩) hp

/-- placing the matrix of a freshly recorded two-qubit call on rows `(s, s+1)` -/
theorem place_twoG_shape (n d : Nat) (st st' : GridState Φ) (b : BinState Φ) (h : RelG n d st b) (hsh : ShapeG n st)
    (c0 : GateCall Φ) (h2 : isTwo c0.method = true) (hws : WS c0) (i k : Nat) (phi : List Φ)
    (hrow : (i = effS n st.s ∧ k = effS n st.s + 1 ∨ i = effS n st.s + 1 ∧ k = effS n st.s) ∧ effS n st.s + 2 ≤ n)
    (hp : ({ st with calls := c0 :: st.calls } : GridState Φ).apply2 i (.tok st.calls.length) phi = .ok st') :
    ShapeG n st' := by
  have hr := relG_push n d st b h c0
  have hs' := shapeG_push n st hsh c0 hws
  rw [apply2_eqG] at hp
  exact placeG_shape n d _ st' b hr hs' i 2 (.tok st.calls.length) phi
    ⟨some c0, effS n st.s, ((effS n st.s + 1 : Nat) : Int)⟩
    (by simp [entryWidth, callAt_new, h2]) (by simp [entryItem, callAt_new, h2])
    (by simp [validE]) (by rcases hrow.1 with ⟨h1, _⟩ | ⟨h1, _⟩; exact Or.inl ⟨h1, by omega⟩; exact Or.inr ⟨h1, rfl⟩)
    hrow.2 (Or.inr ⟨st.calls.length, c0, rfl, callAt_new _ _, Or.inr ⟨h2, rfl⟩⟩) hp

/-- **one build call in row order keeps the shape** -/
theorem step_shapeG (P : PhaseOps Φ) (n d : Nat) (st st' : GridState Φ) (b : BinState Φ) (h : RelG n d st b)
    (hsh : ShapeG n st) (c : CircCall Φ) (hrow : AtRow n (effS n st.s) c) (hs : st.step P c = .ok st') :
    ShapeG n st' := by
  have hsn : st.s < st.nqubit ∨ st.s = st.nqubit := by have := h.sle; rw [h.nq]; omega
  cases c with
  | Rz i th =>
    simp only [GridState.step, bind, Except.bind] at hs
    cases h1 : getAt st.phi i with
    | error e => simp [h1] at hs
    | ok p =>
      simp only [h1] at hs
      cases h2 : setAt st.phi i (P.add p th) with
      | error e => simp [h2] at hs
      | ok phi' =>
        simp only [h2, pure, Except.pure] at hs
        injection hs with hs
        subst hs
        exact ⟨hsh.cur, hsh.earlier, hsh.ws⟩
  | I i =>
    simp only [GridState.step] at hs
    rw [apply1_eqG] at hs
    exact placeG_shape n d st st' b h hsh i 1 .ident st.phi ⟨none, i, -1⟩ rfl
      (by rw [(hrow : i = effS n st.s)]; rfl) trivial (Or.inl ⟨hrow, le_refl 1⟩)
      (by have := effS_lt n st.s h.npos h.sle; omega) (Or.inl ⟨rfl, rfl⟩) hs
  | X i pars =>
    simp only [GridState.step, bind, Except.bind] at hs
    cases h1 : oneQCall P "X" st.phi i pars true with
    | error e => simp [h1] at hs
    | ok c0 =>
      simp only [h1, pure, Except.pure] at hs
      exact place_oneG_shape n d st st' b h hsh c0 (by rw [oneQCall_method P _ _ _ _ _ _ h1]; decide) i hrow hs
  | SX i pars =>
    simp only [GridState.step, bind, Except.bind] at hs
    cases h1 : oneQCall P "SX" st.phi i pars true with
    | error e => simp [h1] at hs
    | ok c0 =>
      simp only [h1, pure, Except.pure] at hs
      exact place_oneG_shape n d st st' b h hsh c0 (by rw [oneQCall_method P _ _ _ _ _ _ h1]; decide) i hrow hs
  | relaxation i pars =>
    simp only [GridState.step, bind, Except.bind] at hs
    cases h1 : oneQCall P "relaxation" st.phi i pars false with
    | error e => simp [h1] at hs
    | ok c0 =>
      simp only [h1, pure, Except.pure] at hs
      exact place_oneG_shape n d st st' b h hsh c0 (by rw [oneQCall_method P _ _ _ _ _ _ h1]; decide) i hrow hs
  | bitflip i pars =>
    simp only [GridState.step, bind, Except.bind] at hs
    cases h1 : oneQCall P "bitflip" st.phi i pars false with
    | error e => simp [h1] at hs
    | ok c0 =>
      simp only [h1, pure, Except.pure] at hs
      exact place_oneG_shape n d st st' b h hsh c0 (by rw [oneQCall_method P _ _ _ _ _ _ h1]; decide) i hrow hs
  | CNOT i k pars =>
    simp only [GridState.step] at hs
    by_cases had : absDiff i k ≠ 1
    · rw [if_pos had] at hs; cases hs
    · rw [if_neg had, if_pos hsn] at hs
      simp only [bind, Except.bind] at hs
      cases h1 : twoQCNOT P st.phi i k pars with
      | error e => simp [h1] at hs
      | ok t =>
        simp only [h1, pure, Except.pure] at hs
        exact place_twoG_shape n d st st' b h hsh t.call (twoQCNOT_method P _ _ _ _ _ h1)
          (fun _ => twoQCNOT_ws P _ _ _ _ _ h1) i k t.phi hrow hs
  | ECR i k pars =>
    simp only [GridState.step] at hs
    by_cases had : absDiff i k ≠ 1
    · rw [if_pos had] at hs; cases hs
    · rw [if_neg had, if_pos hsn] at hs
      simp only [bind, Except.bind] at hs
      cases h1 : twoQECR st.phi i k pars with
      | error e => simp [h1] at hs
      | ok t =>
        simp only [h1, pure, Except.pure] at hs
        exact place_twoG_shape n d st st' b h hsh t.call (twoQECR_method _ _ _ _ _ h1)
          (fun _ => twoQECR_ws _ _ _ _ _ h1) i k t.phi hrow hs

/-- **whole call lists**: the two machines stay related and the grid keeps its shape -/
theorem run_shapeG (P : PhaseOps Φ) (n d : Nat) (cs : List (CircCall Φ)) (st st' : GridState Φ) (b : BinState Φ)
    (h : RelG n d st b) (hsh : ShapeG n st) (hrow : RowOrderedG n st.s cs)
    (hs : foldE (GridState.step P) st cs = .ok st') :
    ∃ b', foldE (BinState.step P) b cs = .ok b' ∧ RelG n d st' b' ∧ ShapeG n st' := by
  induction cs generalizing st b with
  | nil => simp only [foldE] at hs; injection hs with hs; subst hs; exact ⟨b, rfl, h, hsh⟩
  | cons c rest ih =>
    simp only [foldE, bind, Except.bind] at hs ⊢
    cases h1 : st.step P c with
    | error e => simp [h1] at hs
    | ok s1 =>
      simp only [h1] at hs
      obtain ⟨b1, hb1, hr1, hs1⟩ := step_simG P n d st s1 b h c hrow.1 h1
      have hsh1 := step_shapeG P n d st s1 b h hsh c hrow.1 h1
      obtain ⟨b', hb', hr', hsh'⟩ := ih s1 b1 hr1 hsh1 (by rw [hs1]; exact hrow.2) hs
      exact ⟨b', by simp only [hb1]; exact hb', hr', hsh'⟩

/-! ### where a run ends: the fill counter of the grid class -/

/-- the fill counter after a call list (grid class: no eager flush) -/
def endSG (n : Nat) : Nat → List (CircCall Φ) → Nat
  | s, [] => s
  | s, c :: cs => endSG n (nextSG n s c) cs

theorem endSG_append (n s : Nat) (l1 l2 : List (CircCall Φ)) : endSG n s (l1 ++ l2) = endSG n (endSG n s l1) l2 := by
  induction l1 generalizing s with
  | nil => rfl
  | cons c rest ih => simp only [List.cons_append, endSG]; exact ih _

theorem effS_endSG (n s : Nat) (cs : List (CircCall Φ)) : effS n (endSG n s cs) = endS n (effS n s) cs := by
  induction cs generalizing s with
  | nil => rfl
  | cons c rest ih => simp only [endSG, endS]; rw [ih, effS_nextSG]

theorem run_shapeG_end (P : PhaseOps Φ) (n d : Nat) (cs : List (CircCall Φ)) (st st' : GridState Φ) (b : BinState Φ)
    (h : RelG n d st b) (hsh : ShapeG n st) (hrow : RowOrderedG n st.s cs)
    (hs : foldE (GridState.step P) st cs = .ok st') :
    ∃ b', foldE (BinState.step P) b cs = .ok b' ∧ RelG n d st' b' ∧ ShapeG n st' ∧ st'.s = endSG n st.s cs := by
  induction cs generalizing st b with
  | nil => simp only [foldE] at hs; injection hs with hs; subst hs; exact ⟨b, rfl, h, hsh, rfl⟩
  | cons c rest ih =>
    simp only [foldE, bind, Except.bind] at hs ⊢
    cases h1 : st.step P c with
    | error e => simp [h1] at hs
    | ok s1 =>
      simp only [h1] at hs
      obtain ⟨b1, hb1, hr1, hs1⟩ := step_simG P n d st s1 b h c hrow.1 h1
      have hsh1 := step_shapeG P n d st s1 b h hsh c hrow.1 h1
      obtain ⟨b', hb', hr', hsh', he⟩ := ih s1 b1 hr1 hsh1 (by rw [hs1]; exact hrow.2) hs
      exact ⟨b', by simp only [hb1]; exact hb', hr', hsh', by rw [he, hs1]; rfl⟩

/-- **a pipeline run ends on a column boundary**: the last calls are the `n` read-out bit flips, so the last column is
full (`s = n`) -/
theorem endSG_callsLayered (n : Nat) (hn : 0 < n) (data : List (Op Φ)) (hend : endS n 0 (callsLayered n data) = 0) :
    endSG n 0 (callsLayered n data) = n := by
  have he : effS n (endSG n 0 (callsLayered n data)) = 0 := by
    rw [effS_endSG]
    have : effS n 0 = 0 := by unfold effS; split <;> omega
    rw [this, hend]
  -- the list ends with a bit flip, after which the counter is positive
  obtain ⟨m, rfl⟩ : ∃ m, n = m + 1 := ⟨n - 1, by omega⟩
  have hlast : callsLayered (m + 1) data = (data.flatMap (callsLayeredOp (m + 1)) ++
      (List.range m).map (fun k => (.bitflip k [.tm k, .rout k] : CircCall Φ))) ++ [.bitflip m [.tm m, .rout m]] := by
    unfold callsLayered
    rw [List.range_succ, List.map_append, List.append_assoc]
    rfl
  have hpos : 0 < endSG (m + 1) 0 (callsLayered (m + 1) data) := by
    rw [hlast, endSG_append]
    simp only [endSG, nextSG]
    omega
  unfold effS at he
  split at he
  · assumption
  · omega

/-- the used columns of a grid object as the layers of matrices `Circuit.statevector` multiplies (first column first) -/
def columnsOf (F : FrameSys (matOps R) Φ) (st : GridState Φ) : List (Layer (Mat R)) :=
  (List.range (st.j + 1)).map fun c => (colOf st.grid c).map (toBlock F st.calls)

/-- **whole object, on a column boundary**: the columns are well-formed layers of C01 of width `n`, and C01's item
reading of them (`layersItems`) is C03's item list of the object (`gridItems`) -/
theorem grid_bridge (F : FrameSys (matOps R) Φ) (n d : Nat) (st : GridState Φ) (b : BinState Φ) (h : RelG n d st b)
    (hsh : ShapeG n st) (hs : st.s = n) :
    (∀ l ∈ columnsOf F st, WFI l ∧ l.length = n) ∧
      layersItems (columnsOf F st) = (gridItems st).map (interp F) := by
  have hcol : ∀ c, c < st.j + 1 → Segs st.calls (colOf st.grid c) := by
    intro c hc
    by_cases hcj : c = st.j
    · obtain ⟨A, hA, _, hsA⟩ := hsh.cur
      rw [hcj, hA, hs]; simpa using hsA
    · exact hsh.earlier c (by omega)
  constructor
  · intro l hl
    simp only [columnsOf, List.mem_map, List.mem_range] at hl
    obtain ⟨c, hc, rfl⟩ := hl
    refine ⟨(segs_bridge F st.calls hsh.ws _ (hcol c hc) 0).1, ?_⟩
    rw [List.length_map, colOf_length, h.rows]
  · unfold layersItems columnsOf gridItems
    rw [List.flatMap_map, List.map_flatMap]
    apply List.flatMap_congr
    intro c hc
    exact (segs_bridge F st.calls hsh.ws _ (hcol c (List.mem_range.mp hc)) 0).2

end QG.Lemmas.GridBridge

/-! ### how many columns a run fills: `j · n + s` is the total width placed so far -/

namespace QG.Lemmas.GridBridge
variable {Φ : Type} [AddCommGroup Φ]

/-- rows a build call occupies -/
def callW : CircCall Φ → Nat
  | .Rz _ _ => 0
  | .CNOT _ _ _ => 2
  | .ECR _ _ _ => 2
  | _ => 1

def totalW (cs : List (CircCall Φ)) : Nat := (cs.map callW).sum

theorem totalW_append (a b : List (CircCall Φ)) : totalW (a ++ b) = totalW a + totalW b := by
  simp [totalW]

theorem apply1_width (st st' : GridState Φ) (i : Nat) (e : Entry) (hs : st.s ≤ st.nqubit)
    (h : st.apply1 i e = .ok st') :
    st'.j * st.nqubit + st'.s = st.j * st.nqubit + st.s + 1 ∧ st'.nqubit = st.nqubit := by
  unfold GridState.apply1 at h
  by_cases h1 : st.s < st.nqubit
  · rw [if_pos h1] at h
    cases hg : gridWrite st.grid i st.j e with
    | error x => simp [hg, bind, Except.bind] at h
    | ok g =>
      simp only [hg, bind, Except.bind, pure, Except.pure] at h
      injection h with h; subst h
      exact ⟨by simp only; ring, rfl⟩
  · have h2 : st.s = st.nqubit := by omega
    rw [if_neg h1, if_pos h2] at h
    cases hg : gridWrite st.grid i (st.j + 1) e with
    | error x => simp [hg, bind, Except.bind] at h
    | ok g =>
      simp only [hg, bind, Except.bind, pure, Except.pure] at h
      injection h with h; subst h
      refine ⟨?_, rfl⟩
      simp only
      rw [h2]; ring

theorem apply2_width (st st' : GridState Φ) (i : Nat) (e : Entry) (phi : List Φ) (hs : st.s ≤ st.nqubit)
    (h : st.apply2 i e phi = .ok st') :
    st'.j * st.nqubit + st'.s = st.j * st.nqubit + st.s + 2 ∧ st'.nqubit = st.nqubit := by
  unfold GridState.apply2 at h
  by_cases h1 : st.s < st.nqubit
  · rw [if_pos h1] at h
    cases hg : gridWrite st.grid i st.j e with
    | error x => simp [hg, bind, Except.bind] at h
    | ok g =>
      simp only [hg, bind, Except.bind, pure, Except.pure] at h
      injection h with h; subst h
      exact ⟨by simp only; ring, rfl⟩
  · have h2 : st.s = st.nqubit := by omega
    rw [if_neg h1, if_pos h2] at h
    cases hg : gridWrite st.grid i (st.j + 1) e with
    | error x => simp [hg, bind, Except.bind] at h
    | ok g =>
      simp only [hg, bind, Except.bind, pure, Except.pure] at h
      injection h with h; subst h
      refine ⟨?_, rfl⟩
      simp only
      rw [h2]; ring

/-- one build call adds its width to `j · n + s` -/
theorem step_width (P : PhaseOps Φ) (st st' : GridState Φ) (c : CircCall Φ) (hs : st.s ≤ st.nqubit)
    (h : st.step P c = .ok st') :
    st'.j * st.nqubit + st'.s = st.j * st.nqubit + st.s + callW c ∧ st'.nqubit = st.nqubit := by
  cases c with
  | Rz i th =>
    simp only [GridState.step, bind, Except.bind] at h
    cases h1 : getAt st.phi i with
    | error e => simp [h1] at h
    | ok p =>
      simp only [h1] at h
      cases h2 : setAt st.phi i (P.add p th) with
      | error e => simp [h2] at h
      | ok phi' =>
        simp only [h2, pure, Except.pure] at h
        injection h with h; subst h
        exact ⟨rfl, rfl⟩
  | I i =>
    simp only [GridState.step] at h
    exact apply1_width st st' i .ident hs h
  | X i pars =>
    simp only [GridState.step, bind, Except.bind] at h
    cases h1 : oneQCall P "X" st.phi i pars true with
    | error e => simp [h1] at h
    | ok c0 => simp only [h1] at h; exact apply1_width { st with calls := c0 :: st.calls } st' i _ hs h
  | SX i pars =>
    simp only [GridState.step, bind, Except.bind] at h
    cases h1 : oneQCall P "SX" st.phi i pars true with
    | error e => simp [h1] at h
    | ok c0 => simp only [h1] at h; exact apply1_width { st with calls := c0 :: st.calls } st' i _ hs h
  | relaxation i pars =>
    simp only [GridState.step, bind, Except.bind] at h
    cases h1 : oneQCall P "relaxation" st.phi i pars false with
    | error e => simp [h1] at h
    | ok c0 => simp only [h1] at h; exact apply1_width { st with calls := c0 :: st.calls } st' i _ hs h
  | bitflip i pars =>
    simp only [GridState.step, bind, Except.bind] at h
    cases h1 : oneQCall P "bitflip" st.phi i pars false with
    | error e => simp [h1] at h
    | ok c0 => simp only [h1] at h; exact apply1_width { st with calls := c0 :: st.calls } st' i _ hs h
  | CNOT i k pars =>
    simp only [GridState.step] at h
    by_cases had : absDiff i k ≠ 1
    · rw [if_pos had] at h; cases h
    · rw [if_neg had, if_pos (by omega : st.s < st.nqubit ∨ st.s = st.nqubit)] at h
      simp only [bind, Except.bind] at h
      cases h1 : twoQCNOT P st.phi i k pars with
      | error e => simp [h1] at h
      | ok t => simp only [h1] at h; exact apply2_width { st with calls := t.call :: st.calls } st' i _ t.phi hs h
  | ECR i k pars =>
    simp only [GridState.step] at h
    by_cases had : absDiff i k ≠ 1
    · rw [if_pos had] at h; cases h
    · rw [if_neg had, if_pos (by omega : st.s < st.nqubit ∨ st.s = st.nqubit)] at h
      simp only [bind, Except.bind] at h
      cases h1 : twoQECR st.phi i k pars with
      | error e => simp [h1] at h
      | ok t => simp only [h1] at h; exact apply2_width { st with calls := t.call :: st.calls } st' i _ t.phi hs h

/-- whole call lists (in row order, so that the fill counter stays within the column) -/
theorem run_width (P : PhaseOps Φ) (n d : Nat) (cs : List (CircCall Φ)) (st st' : GridState Φ) (b : BinState Φ)
    (h : RelG n d st b) (hrow : RowOrderedG n st.s cs) (hs : foldE (GridState.step P) st cs = .ok st') :
    st'.j * n + st'.s = st.j * n + st.s + totalW cs := by
  induction cs generalizing st b with
  | nil => simp only [foldE] at hs; injection hs with hs; subst hs; simp [totalW]
  | cons c rest ih =>
    simp only [foldE, bind, Except.bind] at hs
    cases h1 : st.step P c with
    | error e => simp [h1] at hs
    | ok s1 =>
      simp only [h1] at hs
      obtain ⟨b1, _, hr1, hs1⟩ := step_simG P n d st s1 b h c hrow.1 h1
      have hw := step_width P st s1 c (by rw [h.nq]; exact h.sle) h1
      rw [h.nq] at hw
      have := ih s1 b1 hr1 (by rw [hs1]; exact hrow.2) hs
      rw [this, hw.1]
      simp only [totalW, List.map_cons, List.sum_cons]
      ring

end QG.Lemmas.GridBridge

namespace QG.Lemmas.GridBridge
variable {Φ : Type} [AddCommGroup Φ]

/-- the operations of the preprocessed circuit that take a gate time (a full column / layer) -/
def isColOp : Op Φ → Bool
  | .sx _ | .x _ | .cx _ _ | .ecr _ _ | .delay _ _ => true
  | _ => false

def colCount (data : List (Op Φ)) : Nat := (data.filter isColOp).length

theorem totalW_layerLoop (n : Nat) (hit : Nat → Option (List (CircCall Φ))) :
    totalW (layerLoop n hit) =
      ((List.range n).map fun k => match hit k with | some cs => totalW cs | none => 1).sum := by
  unfold layerLoop
  induction (List.range n) with
  | nil => rfl
  | cons k rest ih =>
    rw [List.flatMap_cons, totalW_append, ih, List.map_cons, List.sum_cons]
    congr 1
    cases hit k <;> rfl

theorem sum_const_one (l : List Nat) : (l.map fun _ => 1).sum = l.length := by
  induction l with
  | nil => rfl
  | cons a r ih => simp [ih]; omega

/-- one row takes 2, another 0, the others 1 -/
theorem sum_two_zero (n c t : Nat) (hct : c ≠ t) :
    ((List.range n).map fun k => if k = c then 2 else if k = t then 0 else 1).sum + (if t < n then 1 else 0)
      = n + (if c < n then 1 else 0) := by
  induction n with
  | zero => simp
  | succ m ih =>
    rw [List.range_succ, List.map_append, List.sum_append, List.map_singleton, List.sum_singleton]
    by_cases hc : m = c
    · subst hc
      have h1 : ¬ t < m ∨ t < m := by omega
      rw [if_pos rfl]
      simp only [Nat.lt_irrefl, if_false, Nat.lt_succ_self, if_true] at ih ⊢
      by_cases ht : t < m
      · have : t < m + 1 := by omega
        simp only [ht, this, if_true] at ih ⊢; omega
      · have : ¬ t < m + 1 := by omega
        simp only [ht, this, if_false] at ih ⊢; omega
    · by_cases ht : m = t
      · subst ht
        rw [if_neg hc, if_pos rfl]
        by_cases hcm : c < m
        · have : c < m + 1 := by omega
          simp only [hcm, this, Nat.lt_irrefl, Nat.lt_succ_self, if_true, if_false] at ih ⊢; omega
        · have : ¬ c < m + 1 := by omega
          simp only [hcm, this, Nat.lt_irrefl, Nat.lt_succ_self, if_true, if_false] at ih ⊢; omega
      · rw [if_neg hc, if_neg ht]
        by_cases htm : t < m <;> by_cases hcm : c < m
        · have a1 : t < m + 1 := by omega
          have a2 : c < m + 1 := by omega
          simp only [htm, hcm, a1, a2, if_true] at ih ⊢; omega
        · have a1 : t < m + 1 := by omega
          have a2 : ¬ c < m + 1 := by omega
          simp only [htm, hcm, a1, a2, if_true, if_false] at ih ⊢; omega
        · have a1 : ¬ t < m + 1 := by omega
          have a2 : c < m + 1 := by omega
          simp only [htm, hcm, a1, a2, if_true, if_false] at ih ⊢; omega
        · have a1 : ¬ t < m + 1 := by omega
          have a2 : ¬ c < m + 1 := by omega
          simp only [htm, hcm, a1, a2, if_false] at ih ⊢; omega

/-- every operation that takes a gate time issues calls of total width `n`; the others none -/
theorem totalW_op (n : Nat) (op : Op Φ) (hwf : LWF n op) :
    totalW (callsLayeredOp n op) = if isColOp op then n else 0 := by
  cases op with
  | rz q th => rfl
  | barrier qs => rfl
  | measure q c => rfl
  | sx q =>
    simp only [callsLayeredOp, isColOp, if_true, totalW_layerLoop]
    have : (fun k => match (if k = q then some [CircCall.SX k [Par.p k, Par.T1 k, Par.T2 q]] else none : Option (List (CircCall Φ))) with
        | some cs => totalW cs | none => 1) = fun _ => 1 := by
      funext k; by_cases h : k = q <;> simp [h, totalW, callW]
    rw [this, sum_const_one, List.length_range]
  | x q =>
    simp only [callsLayeredOp, isColOp, if_true, totalW_layerLoop]
    have : (fun k => match (if k = q then some [CircCall.X k [Par.p k, Par.T1 k, Par.T2 q]] else none : Option (List (CircCall Φ))) with
        | some cs => totalW cs | none => 1) = fun _ => 1 := by
      funext k; by_cases h : k = q <;> simp [h, totalW, callW]
    rw [this, sum_const_one, List.length_range]
  | delay q d =>
    simp only [callsLayeredOp, isColOp, if_true, totalW_layerLoop]
    have : (fun k => match (if k = q then some [CircCall.relaxation k [Par.durDt d, Par.T1 k, Par.T2 k]] else none : Option (List (CircCall Φ))) with
        | some cs => totalW cs | none => 1) = fun _ => 1 := by
      funext k; by_cases h : k = q <;> simp [h, totalW, callW]
    rw [this, sum_const_one, List.length_range]
  | cx c t =>
    obtain ⟨hc, ht, hadj⟩ := hwf
    simp only [callsLayeredOp, isColOp, if_true, totalW_layerLoop]
    have : (fun k => match (if k = c then some [CircCall.CNOT k t (twoQubitPars k t)] else if k = t then some [] else none :
          Option (List (CircCall Φ))) with | some cs => totalW cs | none => 1)
        = fun k => if k = c then 2 else if k = t then 0 else 1 := by
      funext k
      by_cases h1 : k = c
      · simp [h1, totalW, callW]
      · by_cases h2 : k = t
        · subst h2
          have hne : ¬ k = c := h1
          simp [hne, totalW]
        · simp [h1, h2, totalW]
    rw [this]
    have := sum_two_zero n c t (by omega)
    simp only [hc, ht, if_true] at this
    omega
  | ecr c t =>
    obtain ⟨hc, ht, hadj⟩ := hwf
    simp only [callsLayeredOp, isColOp, if_true, totalW_layerLoop]
    have : (fun k => match (if k = c then some [CircCall.ECR k t (twoQubitPars k t)] else if k = t then some [] else none :
          Option (List (CircCall Φ))) with | some cs => totalW cs | none => 1)
        = fun k => if k = c then 2 else if k = t then 0 else 1 := by
      funext k
      by_cases h1 : k = c
      · simp [h1, totalW, callW]
      · by_cases h2 : k = t
        · subst h2
          have hne : ¬ k = c := h1
          simp [hne, totalW]
        · simp [h1, h2, totalW]
    rw [this]
    have := sum_two_zero n c t (by omega)
    simp only [hc, ht, if_true] at this
    omega

theorem totalW_callsLayered (n : Nat) (data : List (Op Φ)) (hwf : ∀ op ∈ data, LWF n op) :
    totalW (callsLayered n data) = n * colCount data + n := by
  unfold callsLayered
  rw [totalW_append]
  have hflip : totalW ((List.range n).map fun k => (.bitflip k [.tm k, .rout k] : CircCall Φ)) = n := by
    unfold totalW
    rw [List.map_map]
    have : (callW ∘ fun k => (.bitflip k [.tm k, .rout k] : CircCall Φ)) = fun _ => 1 := by funext k; rfl
    rw [this, sum_const_one, List.length_range]
  rw [hflip]
  congr 1
  induction data with
  | nil => simp [totalW, colCount]
  | cons op rest ih =>
    rw [List.flatMap_cons, totalW_append, ih (fun o ho => hwf o (by simp [ho])), totalW_op n op (hwf op (by simp))]
    unfold colCount
    rw [List.filter_cons]
    by_cases h : isColOp op = true
    · simp only [h, if_true, List.length_cons]; ring
    · simp only [h, if_false]; simp

/-- **a pipeline run fills exactly one column per gate-time operation plus the read-out column** -/
theorem columns_used (P : PhaseOps Φ) (n d : Nat) (hn : 0 < n) (data : List (Op Φ)) (hwf : ∀ op ∈ data, LWF n op)
    (st' : GridState Φ) (b : BinState Φ) (h0 : RelG n d (GridState.init P n d) b)
    (hrow : RowOrderedG n 0 (callsLayered n data)) (hend : st'.s = n)
    (hs : foldE (GridState.step P) (GridState.init P n d) (callsLayered n data) = .ok st') :
    st'.j + 1 = colCount data + 1 := by
  have hw := run_width P n d _ (GridState.init P n d) st' b h0 hrow hs
  rw [totalW_callsLayered n data hwf, hend] at hw
  simp only [GridState.init, Nat.zero_mul, Nat.zero_add] at hw
  have : (st'.j + 1) * n = (colCount data + 1) * n := by ring_nf; ring_nf at hw; omega
  exact Nat.eq_of_mul_eq_mul_right hn this

/-- without barriers and measurements in the preprocessed list this is the depth the simulator computes,
`len(data) − n_rz + 1` -/
theorem colCount_depthOf (data : List (Op Φ)) (hpre : ∀ op ∈ data, (∃ q th, op = .rz q th) ∨ isColOp op = true) :
    colCount data + 1 = depthOf data := by
  unfold depthOf
  congr 1
  induction data with
  | nil => rfl
  | cons op rest ih =>
    have ih' := ih (fun o ho => hpre o (by simp [ho]))
    have hle : countRz rest ≤ rest.length := by
      clear ih ih' hpre
      induction rest with
      | nil => simp [countRz]
      | cons o r ihr => cases o <;> simp [countRz] <;> omega
    rcases hpre op (by simp) with ⟨q, th, rfl⟩ | hcol
    · simp only [colCount, List.filter_cons, isColOp, countRz, List.length_cons] at ih' ⊢
      simp only [Bool.false_eq_true, if_false]
      omega
    · have hc : countRz (op :: rest) = countRz rest := by
        cases op <;> simp [isColOp] at hcol <;> rfl
      rw [hc]
      simp only [colCount, List.filter_cons, hcol, if_true, List.length_cons] at ih' ⊢
      omega

end QG.Lemmas.GridBridge
