import Mathlib.Tactic
import QG.Model.Backend
import QG.Spec.KronFlat
/-!
# Semantics of the numeric primitives of `QG.Model.Backend`

The model is instantiated with the scalar dictionary `dictOf R` of a commutative semiring `R`.  A model matrix `M`
denotes the flat-index function `M.fn` (zero outside `[0, M.dim)²`), an array `ψ` the function `vfn ψ`.
Each primitive (`Mat.tab`, `sumTo`, `kronM`, `one1`, `isIdentity`, `matVec`, `matMul`, `contractAt`) is identified
with its mathematical counterpart in `QG.Spec.KronFlat`.
-/
open Finset QG.Model.Backend
open QG.Spec.KronFlat hiding Leg

set_option linter.unusedSectionVars false

namespace QG.Lemmas.Backend

variable {R : Type} [CommSemiring R]

/-- the scalar dictionary of a commutative semiring -/
def dictOf (R : Type) [CommSemiring R] : Scalar R := ⟨0, 1, (· + ·), (· * ·)⟩

@[simp] theorem dictOf_zero : (dictOf R).zero = 0 := rfl
@[simp] theorem dictOf_one : (dictOf R).one = 1 := rfl
@[simp] theorem dictOf_add (a b : R) : (dictOf R).add a b = a + b := rfl
@[simp] theorem dictOf_mul (a b : R) : (dictOf R).mul a b = a * b := rfl

/-- denotation of a model matrix -/
def fn (M : Mat R) : FMat R := fun i j => M.get (dictOf R) i j

/-- denotation of a model vector -/
def vfn (ψ : Array R) : ℕ → R := fun i => ψ.getD i 0

theorem getD_ofFn {α : Type} {n : ℕ} (g : Fin n → α) (k : ℕ) (hk : k < n) (z : α) :
    (Array.ofFn g).getD k z = g ⟨k, hk⟩ := by
  simp [Array.getD, hk]

theorem vfn_ofFn {n : ℕ} (g : Fin n → R) (k : ℕ) (hk : k < n) : vfn (Array.ofFn g) k = g ⟨k, hk⟩ :=
  getD_ofFn g k hk 0

theorem sumTo_eq (f : ℕ → R) (n : ℕ) : sumTo (dictOf R) f n = ∑ k ∈ range n, f k := by
  induction n with
  | zero => simp [sumTo]
  | succ k ih => simp [sumTo, ih, sum_range_succ]

theorem fn_isCut (M : Mat R) : IsCut M.dim (fn M) := by
  intro i j h
  unfold fn Mat.get
  rw [if_neg (by omega)]; rfl

@[simp] theorem tab_dim (d : ℕ) (f : ℕ → ℕ → R) : (Mat.tab d f).dim = d := rfl

theorem fn_tab (d : ℕ) (f : ℕ → ℕ → R) (i j : ℕ) :
    fn (Mat.tab d f) i j = if i < d ∧ j < d then f i j else 0 := by
  show (if i < d ∧ j < d then (Mat.tab d f).data.getD (i * d + j) 0 else 0) = _
  by_cases h : i < d ∧ j < d
  · rw [if_pos h, if_pos h]
    have hk : i * d + j < d * d := by
      have : i * d + j < i * d + d := by omega
      have : i * d + d = (i + 1) * d := by ring
      have : (i + 1) * d ≤ d * d := Nat.mul_le_mul_right d (by omega)
      omega
    unfold Mat.tab
    simp only
    rw [getD_ofFn _ _ hk]
    have hd : 0 < d := by omega
    have h1 : (i * d + j) / d = i := by
      rw [Nat.add_comm, Nat.add_mul_div_right _ _ hd, Nat.div_eq_of_lt h.2, Nat.zero_add]
    have h2 : (i * d + j) % d = j := by
      rw [Nat.add_comm, Nat.add_mul_mod_self_right, Nat.mod_eq_of_lt h.2]
    simp only [h1, h2]
  · rw [if_neg h, if_neg h]

@[simp] theorem kronM_dim (A B : Mat R) : (kronM (dictOf R) A B).dim = A.dim * B.dim := rfl

/-- `np.kron` of the model is `kron` of the specification -/
theorem fn_kronM (A B : Mat R) : fn (kronM (dictOf R) A B) = kron B.dim (fn A) (fn B) := by
  funext i j
  unfold kronM
  rw [fn_tab]
  split_ifs with h
  · rfl
  · unfold kron
    by_cases hb : B.dim = 0
    · have : fn B (i % B.dim) (j % B.dim) = 0 := fn_isCut B _ _ (Or.inl (by omega))
      rw [this, mul_zero]
    · have hb' : 0 < B.dim := Nat.pos_of_ne_zero hb
      have : A.dim ≤ i / B.dim ∨ A.dim ≤ j / B.dim := by
        by_cases hi : i < A.dim * B.dim
        · right; exact (Nat.le_div_iff_mul_le hb').mpr (by omega)
        · left; exact (Nat.le_div_iff_mul_le hb').mpr (by omega)
      rw [fn_isCut A _ _ this, zero_mul]

theorem fn_one1 : fn (one1 (dictOf R)) = idMat 1 := by
  funext i j
  unfold fn Mat.get one1 idMat
  by_cases h : i < 1 ∧ j < 1
  · obtain ⟨hi, hj⟩ := h
    have hi0 : i = 0 := by omega
    have hj0 : j = 0 := by omega
    subst hi0; subst hj0
    simp
  · have : ¬ (i = j ∧ i < 1) := by omega
    simp only [if_neg h, if_neg this]
    rfl

@[simp] theorem one1_dim : (one1 (dictOf R)).dim = 1 := rfl

theorem isIdentity_sound [DecidableEq R] (M : Mat R) (h : isIdentity (dictOf R) M = true) :
    M.dim = 2 ∧ fn M = idMat 2 := by
  unfold isIdentity at h
  simp only [Bool.and_eq_true, beq_iff_eq, decide_eq_true_eq] at h
  obtain ⟨hd, hdata⟩ := h
  refine ⟨hd, ?_⟩
  funext i j
  unfold fn Mat.get idMat
  rw [hd, hdata]
  by_cases hi : i < 2
  · by_cases hj : j < 2
    · interval_cases i <;> interval_cases j <;> simp [Array.getD]
    · have : ¬ (i = j ∧ i < 2) := by omega
      simp only [if_neg this]; rw [if_neg (by omega)]; rfl
  · have : ¬ (i = j ∧ i < 2) := by omega
    simp only [if_neg this]; rw [if_neg (by omega)]; rfl

/-- `A @ psi` -/
theorem matVec_eq (A : Mat R) (ψ : Array R) (h : A.dim = ψ.size) :
    matVec (dictOf R) A ψ = .ok (Array.ofFn (n := A.dim) fun i => mulVec A.dim (fn A) (vfn ψ) i.val) := by
  unfold matVec
  rw [if_neg (by simpa using h)]
  congr 1
  congr 1
  funext i
  rw [sumTo_eq]
  rfl

/-- `A @ B` -/
theorem matMul_eq (A B : Mat R) (h : A.dim = B.dim) :
    ∃ C, matMul (dictOf R) A B = .ok C ∧ C.dim = A.dim ∧
      ∀ i j, fn C i j = if i < A.dim ∧ j < A.dim then ∑ k ∈ range A.dim, fn A i k * fn B k j else 0 := by
  unfold matMul
  rw [if_neg (by simpa using h)]
  refine ⟨_, rfl, rfl, fun i j => ?_⟩
  rw [fn_tab]
  split_ifs
  · rw [sumTo_eq]; rfl
  · rfl

/-! ### the contraction -/

/-- denotation of a model leg -/
def legSem (l : Leg (Mat R)) : QG.Spec.KronFlat.Leg R := (l.1, l.2.map fn)

theorem legDims_eq (legs : List (Leg (Mat R))) : legDims legs = dims (legs.map legSem) := by
  induction legs with
  | nil => rfl
  | cons x rest ih =>
    obtain ⟨d, o⟩ := x
    simp only [legDims, List.map_cons, legSem, dims, ih]

theorem contractAt_eq (ψ : Array R) (legs : List (Leg (Mat R))) (hpos : ∀ x ∈ legs, 0 < x.1) (acc i : ℕ)
    (hi : i < legDims legs) :
    contractAt (dictOf R) ψ legs acc i =
      einsumList (legs.map legSem) (fun j => vfn ψ (acc * legDims legs + j)) i := by
  induction legs generalizing acc i with
  | nil =>
    have : i = 0 := by simpa [legDims] using hi
    subst this
    simp [contractAt, einsumList, legDims, vfn]
  | cons x rest ih =>
    obtain ⟨d, o⟩ := x
    have hrest : ∀ y ∈ rest, 0 < y.1 := fun y hy => hpos y (by simp [hy])
    have hD : 0 < legDims rest := by
      rw [legDims_eq]
      exact dims_pos _ fun y hy => by
        obtain ⟨x, hx, rfl⟩ := List.mem_map.mp hy
        exact hrest x hx
    have hmod : i % legDims rest < legDims rest := Nat.mod_lt _ hD
    cases o with
    | some A =>
      simp only [contractAt, List.map_cons, legSem, Option.map_some, einsumList, legDims]
      rw [sumTo_eq, ← legDims_eq]
      refine sum_congr rfl fun b _ => ?_
      rw [ih hrest _ _ hmod]
      simp only [dictOf_mul]
      congr 2
      funext j
      congr 1
      ring
    | none =>
      simp only [contractAt, List.map_cons, legSem, Option.map_none, einsumList, legDims]
      rw [← legDims_eq, ih hrest _ _ hmod]
      congr 1
      funext j
      congr 1
      ring

end QG.Lemmas.Backend
