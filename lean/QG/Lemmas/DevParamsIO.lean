import Mathlib.Data.List.Basic
import Mathlib.Tactic
import QG.Model.DevParamsIO

/-! Helper lemmas for C15 (device-parameter save / load).  Property theorems are in `QG/Props/C15.lean`. -/
namespace QG.Lemmas.DevParamsIO
open QG.Model.DevParamsIO

variable {Tok : Type}

/-! ### `chunks` -/

theorem chunks_length (k n : Nat) (d : List Tok) : (chunks k n d).length = n := by
  induction n generalizing d with
  | zero => rfl
  | succ n ih => simp [chunks, ih]

theorem chunks_flatten (k n : Nat) (d : List Tok) (h : d.length = n * k) : (chunks k n d).flatten = d := by
  induction n generalizing d with
  | zero =>
    have : d = [] := List.eq_nil_of_length_eq_zero (by simpa using h)
    simp [chunks, this]
  | succ n ih =>
    have h2 : (d.drop k).length = n * k := by
      rw [List.length_drop, h]; ring_nf; omega
    simp [chunks, ih _ h2]

theorem chunks_mem_length (k n : Nat) (d : List Tok) (h : d.length = n * k) :
    ∀ c ∈ chunks k n d, c.length = k := by
  induction n generalizing d with
  | zero => simp [chunks]
  | succ n ih =>
    have h2 : (d.drop k).length = n * k := by
      rw [List.length_drop, h]; ring_nf; omega
    intro c hc
    simp only [chunks, List.mem_cons] at hc
    rcases hc with rfl | hc
    · rw [List.length_take, h]
      have : k ≤ (n + 1) * k := Nat.le_mul_of_pos_left k (Nat.succ_pos n)
      omega
    · exact ih _ h2 c hc

/-! ### `savetxt` followed by `loadtxt` -/

/-- the lines `loadtxt` sees for a table with `c ≥ 1` columns are all non-blank and equally long -/
theorem loadtxt_rows (ndmin r c : Nat) (hr : 1 ≤ r) (hc : 1 ≤ c) (rows : List (List Tok))
    (hlen : rows.length = r) (hall : ∀ x ∈ rows, x.length = c) :
    loadtxt ndmin rows =
      .ok ⟨if 2 ≤ ndmin then [r, c] else
             (if ndmin == 1 && (squeeze [r, c]).isEmpty then [1] else squeeze [r, c]), rows.flatten⟩ := by
  have hfilter : rows.filter (fun l => !l.isEmpty) = rows := by
    apply List.filter_eq_self.2
    intro x hx
    have := hall x hx
    cases x with
    | nil => simp at this; omega
    | cons _ _ => rfl
  unfold loadtxt
  simp only [hfilter]
  cases hrows : rows with
  | nil => simp [hrows] at hlen; omega
  | cons r0 rest =>
    have h0 : r0.length = c := hall r0 (by simp [hrows])
    have hall' : (r0 :: rest).all (fun x => x.length == r0.length) = true := by
      rw [List.all_eq_true]
      intro x hx
      have := hall x (by simpa [hrows] using hx)
      simp [this, h0]
    have hlen' : (r0 :: rest).length = r := by simpa [hrows] using hlen
    rw [h0] at hall'
    simp only [hlen', h0, hall', if_true]

/-- a vector of length `L ≥ 1`: saved one value per line, read back squeezed (0-d when `L = 1`) -/
theorem loadtxt_savetxt_vec (L : Nat) (hL : 1 ≤ L) (d : List Tok) (hd : d.length = L) :
    ∃ lines, savetxt ⟨[L], d⟩ = .ok lines ∧
      loadtxt 0 lines = .ok ⟨if L = 1 then [] else [L], d⟩ := by
  refine ⟨d.map fun x => [x], rfl, ?_⟩
  rw [loadtxt_rows 0 L 1 hL le_rfl _ (by simpa using hd) (by simp)]
  have hfl : ∀ d : List Tok, (d.map fun x => [x]).flatten = d := by
    intro d
    induction d with
    | nil => rfl
    | cons x xs ih => simp [ih]
  rw [hfl]
  by_cases h1 : L = 1
  · subst h1; simp [squeeze]
  · simp [squeeze, h1]

/-- an `(r, c)` table with `r, c ≥ 1`: saved one row per line; `ndmin=2` gives the shape back, the default
squeezes axes of length one -/
theorem loadtxt_savetxt_table (r c : Nat) (hr : 1 ≤ r) (hc : 1 ≤ c) (d : List Tok) (hd : d.length = r * c) :
    ∃ lines, savetxt ⟨[r, c], d⟩ = .ok lines ∧
      loadtxt 2 lines = .ok ⟨[r, c], d⟩ ∧
      loadtxt 0 lines = .ok ⟨squeeze [r, c], d⟩ := by
  refine ⟨chunks c r d, rfl, ?_, ?_⟩
  · rw [loadtxt_rows 2 r c hr hc _ (chunks_length c r d) (chunks_mem_length c r d hd), chunks_flatten c r d hd]
    simp
  · rw [loadtxt_rows 0 r c hr hc _ (chunks_length c r d) (chunks_mem_length c r d hd), chunks_flatten c r d hd]
    simp

theorem squeeze_table (m : Nat) (hm : 2 ≤ m) : squeeze [m, m] = [m, m] := by
  have : m ≠ 1 := by omega
  simp [squeeze, this]

/-! ### `tolist` followed by `np.array` -/

theorem npArrayList_map_tolist (s : List Nat)
    (ih : ∀ d : List Tok, d.length = prod s → npArray (tolist s d) = .ok ⟨s, d⟩)
    (cs : List (List Tok)) (hcs : ∀ c ∈ cs, c.length = prod s) :
    npArrayList (cs.map (tolist s)) =
      .ok (if cs = [] then none else some (cs.length, ⟨s, cs.flatten⟩)) := by
  induction cs with
  | nil => simp [npArrayList]
  | cons c cs ihc =>
    have hc : c.length = prod s := hcs c (by simp)
    have hcs' : ∀ c ∈ cs, c.length = prod s := fun x hx => hcs x (by simp [hx])
    simp only [List.map_cons, npArrayList, ih c hc, ihc hcs']
    cases cs with
    | nil => simp
    | cons c' cs' => simp

/-- `np.array(a.tolist())` gives `a` back for every shape without an axis of length zero -/
theorem npArray_tolist (s : List Nat) (hpos : ∀ n ∈ s, 1 ≤ n) (d : List Tok) (hd : d.length = prod s) :
    npArray (tolist s d) = .ok ⟨s, d⟩ := by
  induction s generalizing d with
  | nil =>
    match d, hd with
    | [x], _ => simp [tolist, npArray]
  | cons n s ih =>
    have hs : ∀ k ∈ s, 1 ≤ k := fun k hk => hpos k (by simp [hk])
    have hn : 1 ≤ n := hpos n (by simp)
    have hd' : d.length = n * prod s := by simpa [prod] using hd
    simp only [tolist, npArray]
    rw [npArrayList_map_tolist s (fun d hd => ih hs d hd) _ (chunks_mem_length (prod s) n d hd')]
    have hne : chunks (prod s) n d ≠ [] := by
      intro h
      have := chunks_length (prod s) n d
      rw [h] at this
      simp at this; omega
    simp [hne, chunks_length, chunks_flatten _ _ _ hd']

/-! ### running statements -/

theorem runSteps_append {σ : Type} (A B : List (σ → σ × Option Err)) (s : σ) :
    runSteps (A ++ B) s =
      match runSteps A s with
      | (s', some e) => (s', some e)
      | (s', none) => runSteps B s' := by
  induction A generalizing s with
  | nil => simp [runSteps]
  | cons f A ih =>
    simp only [List.cons_append, runSteps]
    rcases hf : f s with ⟨s', _ | e⟩
    · simp [ih]
    · simp

/-- an invariant of every statement holds for the state in which the run ends (normally or not) -/
theorem runSteps_inv {σ : Type} (P : σ → Prop) (steps : List (σ → σ × Option Err))
    (h : ∀ st ∈ steps, ∀ s, P s → P (st s).1) (s : σ) (hs : P s) : P (runSteps steps s).1 := by
  induction steps generalizing s with
  | nil => simpa [runSteps] using hs
  | cons f steps ih =>
    have hf := h f (by simp) s hs
    simp only [runSteps]
    rcases hfs : f s with ⟨s', _ | e⟩
    · rw [hfs] at hf
      exact ih (fun st hst => h st (by simp [hst])) s' hf
    · rw [hfs] at hf; exact hf

/-! ### the objects of the property -/

/-- the shape `load_from_backend` gives attribute `f` for a layout of `L` qubits with table side `m` -/
def expectedShape (L m : Nat) (f : Field) : List Nat :=
  match f with
  | .dt => [1]
  | .pInt | .tInt => [m, m]
  | _ => [L]

/-- the complete object with arrays `a f` and metadata `md` -/
def mkDP (L : Nat) (a : Field → Arr Tok) (md : Tok) : DevParams Tok := ⟨L, fun f => some (a f), some md⟩

theorem mkDP_complete (L : Nat) (a : Field → Arr Tok) (md : Tok) : (mkDP L a md).isComplete = true := by
  simp [mkDP, DevParams.isComplete, dictOrder]

/-- one attribute through `np.savetxt` and the (repaired) load rule of `load_from_texts` -/
theorem loadField_savetxt (L m : Nat) (hL : 1 ≤ L) (hm : 1 ≤ m) (hLm : L = 1 ∨ 2 ≤ m) (f : Field) (a : Arr Tok)
    (hs : a.shape = expectedShape L m f) (hd : a.data.length = prod a.shape) :
    ∃ lines, savetxt a = .ok lines ∧ loadField L f lines = .ok a := by
  obtain ⟨s, d⟩ := a
  simp only at hs hd
  subst hs
  have vec : ∀ g : Field, g ≠ .dt → g.isTable = false → expectedShape L m g = [L] →
      d.length = prod [L] → ∃ lines, savetxt ⟨[L], d⟩ = .ok lines ∧ loadField L g lines = .ok ⟨[L], d⟩ := by
    intro g hg1 hg2 _ hd
    obtain ⟨lines, h1, h2⟩ := loadtxt_savetxt_vec L hL d (by simpa [prod] using hd)
    refine ⟨lines, h1, ?_⟩
    by_cases h : L = 1
    · subst h; simp [loadField, hg1, hg2, h2, Except.map, wrap]
    · simp [loadField, hg1, h, h2]
  have tab : ∀ g : Field, g ≠ .dt → g.isTable = true → d.length = prod [m, m] →
      ∃ lines, savetxt ⟨[m, m], d⟩ = .ok lines ∧ loadField L g lines = .ok ⟨[m, m], d⟩ := by
    intro g hg1 hg2 hd
    obtain ⟨lines, h1, h2, h3⟩ := loadtxt_savetxt_table m m hm hm d (by simpa [prod] using hd)
    refine ⟨lines, h1, ?_⟩
    by_cases h : L = 1
    · simp [loadField, hg1, hg2, h, h2]
    · have hm2 : 2 ≤ m := by omega
      simp [loadField, hg1, h, h3, squeeze_table m hm2]
  cases f with
  | dt =>
    obtain ⟨lines, h1, h2⟩ := loadtxt_savetxt_vec 1 le_rfl d (by simpa [expectedShape, prod] using hd)
    exact ⟨lines, h1, by simp [loadField, h2, Except.map, wrap, expectedShape]⟩
  | pInt => exact tab .pInt (by decide) rfl hd
  | tInt => exact tab .tInt (by decide) rfl hd
  | T1 => exact vec .T1 (by decide) rfl rfl hd
  | T2 => exact vec .T2 (by decide) rfl rfl hd
  | p => exact vec .p (by decide) rfl rfl hd
  | rout => exact vec .rout (by decide) rfl rfl hd
  | tm => exact vec .tm (by decide) rfl rfl hd

/-- one attribute through `tolist`, `json` and `np.array` -/
theorem npArray_tolist_expected (L m : Nat) (hL : 1 ≤ L) (hm : 1 ≤ m) (f : Field) (a : Arr Tok)
    (hs : a.shape = expectedShape L m f) (hd : a.data.length = prod a.shape) :
    npArray (tolist a.shape a.data) = .ok a := by
  obtain ⟨s, d⟩ := a
  simp only at hs hd ⊢
  apply npArray_tolist s _ d hd
  subst hs
  cases f <;> simp [expectedShape] <;> omega

/-! ### statement lists of save / load -/

section io
variable {Loc : Type} [DecidableEq Loc]

theorem run_saveTxt (loc : Loc) (dp : DevParams Tok) (a : Field → Arr Tok) (lines : Field → List (List Tok))
    (ha : ∀ f, dp.arr f = some (a f)) (hl : ∀ f, savetxt (a f) = .ok (lines f))
    (fields : List Field) (rest : List (FS Loc Tok → FS Loc Tok × Option Err)) (fs : FS Loc Tok) :
    runSteps (fields.map (stepSaveTxt loc dp) ++ rest) fs =
      runSteps rest (fields.foldl (fun fs f => fs.write loc f.file (.txt (lines f))) fs) := by
  induction fields generalizing fs with
  | nil => rfl
  | cons f fields ih =>
    simp only [List.map_cons, List.cons_append, runSteps, stepSaveTxt, ha f, hl f, List.foldl_cons]
    exact ih _

omit [DecidableEq Loc] in
theorem run_loadTxt (fs : FS Loc Tok) (loc : Loc) (L : Nat) (a : Field → Arr Tok) (lines : Field → List (List Tok))
    (hf : ∀ f, fs loc f.file = some (.txt (lines f))) (hl : ∀ f, loadField L f (lines f) = .ok (a f))
    (fields : List Field) (rest : List (DevParams Tok → DevParams Tok × Option Err)) (dp : DevParams Tok)
    (hnq : dp.nq = L) :
    runSteps (fields.map (stepLoadTxt fs loc) ++ rest) dp =
      runSteps rest (fields.foldl (fun dp f => dp.set f (a f)) dp) := by
  induction fields generalizing dp with
  | nil => rfl
  | cons f fields ih =>
    simp only [List.map_cons, List.cons_append, runSteps, stepLoadTxt, hf f, hnq, hl f, List.foldl_cons]
    exact ih _ (by simpa [DevParams.set] using hnq)

theorem run_loadKey (doc : List (String × JVal Tok)) (a : Field → Arr Tok) (v : Field → JVal Tok)
    (hf : ∀ f, doc.lookup f.key = some (v f)) (hl : ∀ f, npArray (v f) = .ok (a f))
    (fields : List Field) (rest : List (DevParams Tok → DevParams Tok × Option Err)) (dp : DevParams Tok) :
    runSteps (fields.map (stepLoadKey doc) ++ rest) dp =
      runSteps rest (fields.foldl (fun dp f => dp.set f (a f)) dp) := by
  induction fields generalizing dp with
  | nil => rfl
  | cons f fields ih =>
    simp only [List.map_cons, List.cons_append, runSteps, stepLoadKey, hf f, hl f, List.foldl_cons]
    exact ih _

/-- assigning all eight attributes and the metadata gives the object made of them -/
theorem set_all (tgt : DevParams Tok) (a : Field → Arr Tok) (md : Tok) :
    { (loadOrder.foldl (fun dp f => dp.set f (a f)) tgt) with md := some md } = mkDP tgt.nq a md := by
  simp only [loadOrder, List.foldl_cons, List.foldl_nil, DevParams.set, mkDP]
  congr 1
  funext g
  cases g <;> simp

end io

/-! ### a whole save followed by a whole load -/

section roundtrip
variable {Loc : Type} [DecidableEq Loc] (canon : Tok → Tok)

/-- the arrays have the shapes of the property's domain and as many values as the shape says -/
def Shaped (L m : Nat) (a : Field → Arr Tok) : Prop :=
  ∀ f, (a f).shape = expectedShape L m f ∧ (a f).data.length = prod (a f).shape

theorem texts_roundtrip_mk (fs : FS Loc Tok) (loc : Loc) (L m : Nat) (hL : 1 ≤ L) (hm : 1 ≤ m)
    (hLm : L = 1 ∨ 2 ≤ m) (a : Field → Arr Tok) (ha : Shaped L m a) (md : Tok)
    (tgt : DevParams Tok) (htgt : tgt.nq = L) :
    ∃ fs', saveTexts canon fs loc (mkDP L a md) = (fs', none) ∧
      loadTexts fs' loc tgt = (mkDP L a (canon md), none) ∧
      (∀ l n, l ≠ loc → fs' l n = fs l n) ∧ (fs' loc .json = fs loc .json) := by
  have hex : ∀ f, ∃ lines, savetxt (a f) = .ok lines ∧ loadField L f lines = .ok (a f) :=
    fun f => loadField_savetxt L m hL hm hLm f (a f) (ha f).1 (ha f).2
  choose lines hsave hload using hex
  let fs1 : FS Loc Tok := saveOrder.foldl (fun fs f => fs.write loc f.file (.txt (lines f))) fs
  let fs' : FS Loc Tok := fs1.write loc .mdata (.mdata (canon md))
  have hS : saveTexts canon fs loc (mkDP L a md) = (fs', none) := by
    unfold saveTexts
    rw [mkDP_complete]
    simp only [Bool.not_true, Bool.false_eq_true, if_false]
    rw [run_saveTxt loc (mkDP L a md) a lines (fun f => rfl) hsave]
    simp [runSteps, stepSaveMeta, mkDP, fs', fs1]
  have hread : ∀ f : Field, fs' loc f.file = some (.txt (lines f)) := by
    intro f
    cases f <;> simp [fs', fs1, saveOrder, FS.write, Field.file]
  have hmeta : fs' loc .mdata = some (.mdata (canon md)) := by simp [fs', FS.write]
  refine ⟨fs', hS, ?_, ?_, ?_⟩
  · unfold loadTexts
    have hexist : stepExistTxt fs' loc tgt = (tgt, none) := by
      have : textFiles.all (fun n => (fs' loc n).isSome) = true := by
        simp only [textFiles, List.all_cons, List.all_nil, Bool.and_true, Bool.and_eq_true]
        have h := fun f => hread f
        refine ⟨?_, ?_, ?_, ?_, ?_, ?_, ?_, ?_, ?_⟩
        · simpa [Field.file] using congrArg Option.isSome (h .T1)
        · simpa [Field.file] using congrArg Option.isSome (h .T2)
        · simpa [Field.file] using congrArg Option.isSome (h .p)
        · simpa [Field.file] using congrArg Option.isSome (h .rout)
        · simpa [Field.file] using congrArg Option.isSome (h .pInt)
        · simpa [Field.file] using congrArg Option.isSome (h .tInt)
        · simpa [Field.file] using congrArg Option.isSome (h .tm)
        · simpa [Field.file] using congrArg Option.isSome (h .dt)
        · simp [hmeta]
      simp [stepExistTxt, this]
    simp only [runSteps, hexist]
    rw [run_loadTxt fs' loc L a lines hread hload loadOrder _ tgt htgt]
    simp only [runSteps, stepLoadMeta, hmeta]
    rw [set_all tgt a (canon md), htgt]
    simp [stepVerify, mkDP_complete]
  · intro l n hl
    simp [fs', fs1, saveOrder, FS.write, hl]
  · simp [fs', fs1, saveOrder, FS.write, Field.file]

theorem json_roundtrip_mk (fs : FS Loc Tok) (loc : Loc) (L m : Nat) (hL : 1 ≤ L) (hm : 1 ≤ m)
    (a : Field → Arr Tok) (ha : Shaped L m a) (md : Tok) (tgt : DevParams Tok) (htgt : tgt.nq = L) :
    ∃ fs', saveJson canon fs loc (mkDP L a md) = (fs', none) ∧
      loadJson fs' loc tgt = (mkDP L a (canon md), none) ∧
      (∀ l n, (l ≠ loc ∨ n ≠ .json) → fs' l n = fs l n) := by
  let v : Field → JVal Tok := fun f => tolist (a f).shape (a f).data
  let doc : List (String × JVal Tok) := dictOrder.map fun f => (f.key, v f)
  let fs' : FS Loc Tok := fs.write loc .json (.doc doc (some (canon md)))
  have hdoc : docOf (mkDP L a md) = doc := by
    simp [docOf, mkDP, doc, v, dictOrder]
  have hS : saveJson canon fs loc (mkDP L a md) = (fs', none) := by
    unfold saveJson
    rw [mkDP_complete, hdoc]
    simp [fs', mkDP]
  have hlook : ∀ f : Field, doc.lookup f.key = some (v f) := by
    intro f
    cases f <;> simp [doc, dictOrder, List.lookup, Field.key]
  have harr : ∀ f, npArray (v f) = .ok (a f) :=
    fun f => npArray_tolist_expected L m hL hm f (a f) (ha f).1 (ha f).2
  refine ⟨fs', hS, ?_, ?_⟩
  · have hread : fs' loc .json = some (.doc doc (some (canon md))) := by simp [fs', FS.write]
    have hkeys : dictOrder.all (fun f => (doc.lookup f.key).isSome) = true := by
      rw [List.all_eq_true]
      intro f _
      simp [hlook f]
    unfold loadJson
    simp only [hread, hkeys, if_true]
    rw [run_loadKey doc a v hlook harr dictOrder _ tgt]
    simp only [runSteps]
    have := set_all tgt a (canon md)
    simp only [loadOrder] at this
    simp only [dictOrder]
    rw [this, htgt]
    simp [stepVerify, mkDP_complete]
  · intro l n h
    simp only [fs', FS.write]
    rcases h with h | h
    · simp [h]
    · simp [h]

/-- `__str__` of the reloaded object is `__str__` of the original when `canon` is idempotent -/
theorem strOf_canon (hc : ∀ t, canon (canon t) = canon t) (L : Nat) (a : Field → Arr Tok) (md : Tok) :
    strOf canon (mkDP L a (canon md)) = strOf canon (mkDP L a md) := by
  simp [strOf, mkDP, hc]

end roundtrip

/-! ### a load that raises -/

section failing
variable {Loc : Type}

theorem isComplete_of_md_none (dp : DevParams Tok) (h : dp.md = none) : dp.isComplete = false := by
  simp [DevParams.isComplete, h]

theorem stepLoadTxt_md (fs : FS Loc Tok) (loc : Loc) (f : Field) (dp : DevParams Tok) :
    ((stepLoadTxt fs loc f dp).1).md = dp.md := by
  unfold stepLoadTxt
  split
  · split <;> simp [DevParams.set]
  · rfl
  · rfl

theorem stepLoadKey_md (doc : List (String × JVal Tok)) (f : Field) (dp : DevParams Tok) :
    ((stepLoadKey doc f dp).1).md = dp.md := by
  unfold stepLoadKey
  split
  · rfl
  · split <;> simp [DevParams.set]

/-- the tail `[assign metadata, verify]` of both loaders: if it raises, the object is not complete -/
theorem tail_fails_incomplete (setMd : DevParams Tok → DevParams Tok × Option Err)
    (hset : ∀ dp, (setMd dp).2 ≠ none → (setMd dp).1 = dp)
    (s dp' : DevParams Tok) (e : Err) (hs : s.md = none)
    (h : runSteps [setMd, stepVerify] s = (dp', some e)) : dp'.isComplete = false := by
  simp only [runSteps] at h
  rcases hm : setMd s with ⟨s1, _ | e1⟩
  · rw [hm] at h
    simp only [stepVerify] at h
    by_cases hc : s1.isComplete = true
    · simp [hc] at h
    · simp only [hc] at h
      simp only [Bool.false_eq_true, if_false, Prod.mk.injEq] at h
      rw [← h.1]; simpa using hc
  · rw [hm] at h
    simp only [Prod.mk.injEq] at h
    have := hset s (by simp [hm])
    rw [hm] at this
    simp only at this
    rw [← h.1, this]
    exact isComplete_of_md_none s hs

theorem loadTexts_fails_incomplete (fs : FS Loc Tok) (loc : Loc) (tgt dp' : DevParams Tok) (e : Err)
    (hmd : tgt.md = none) (h : loadTexts fs loc tgt = (dp', some e)) : dp'.isComplete = false := by
  unfold loadTexts at h
  rw [← List.cons_append, runSteps_append] at h
  have hinv := runSteps_inv (fun dp : DevParams Tok => dp.md = none)
    (stepExistTxt fs loc :: loadOrder.map (stepLoadTxt fs loc)) (by
      intro st hst s hs
      simp only [List.mem_cons, List.mem_map] at hst
      rcases hst with rfl | ⟨f, _, rfl⟩
      · unfold stepExistTxt; split <;> exact hs
      · rw [stepLoadTxt_md]; exact hs) tgt hmd
  rcases hr : runSteps (stepExistTxt fs loc :: loadOrder.map (stepLoadTxt fs loc)) tgt with ⟨s', _ | e1⟩
  · rw [hr] at h hinv
    simp only at h hinv
    refine tail_fails_incomplete (stepLoadMeta fs loc) ?_ s' dp' e hinv h
    intro dp hne
    unfold stepLoadMeta at hne ⊢
    split <;> simp_all
  · rw [hr] at h hinv
    simp only [Prod.mk.injEq] at h hinv
    rw [← h.1]
    exact isComplete_of_md_none s' hinv

theorem loadJson_fails_incomplete (fs : FS Loc Tok) (loc : Loc) (tgt dp' : DevParams Tok) (e : Err)
    (hmd : tgt.md = none) (h : loadJson fs loc tgt = (dp', some e)) : dp'.isComplete = false := by
  have h0 := isComplete_of_md_none tgt hmd
  unfold loadJson at h
  split at h
  · simp only [Prod.mk.injEq] at h; rw [← h.1]; exact h0
  · split at h
    · simp only [Prod.mk.injEq] at h; rw [← h.1]; exact h0
    · rename_i fields _ m _
      split at h
      · rw [runSteps_append] at h
        have hinv := runSteps_inv (fun dp : DevParams Tok => dp.md = none)
          (dictOrder.map (stepLoadKey fields)) (by
            intro st hst s hs
            simp only [List.mem_map] at hst
            rcases hst with ⟨f, _, rfl⟩
            rw [stepLoadKey_md]; exact hs) tgt hmd
        rcases hr : runSteps (dictOrder.map (stepLoadKey fields)) tgt with ⟨s', _ | e1⟩
        · rw [hr] at h hinv
          simp only at h hinv
          exact tail_fails_incomplete _ (by intro dp hne; simp at hne) s' dp' e hinv h
        · rw [hr] at h hinv
          simp only [Prod.mk.injEq] at h hinv
          rw [← h.1]
          exact isComplete_of_md_none s' hinv
      · simp only [Prod.mk.injEq] at h; rw [← h.1]; exact h0
  · simp only [Prod.mk.injEq] at h; rw [← h.1]; exact h0

end failing

/-! ### which exceptions can be raised -/

theorem runSteps_error {σ : Type} (steps : List (σ → σ × Option Err)) (s s' : σ) (e : Err)
    (h : runSteps steps s = (s', some e)) : ∃ st ∈ steps, ∃ s0, (st s0).2 = some e := by
  induction steps generalizing s with
  | nil => simp [runSteps] at h
  | cons f steps ih =>
    simp only [runSteps] at h
    rcases hf : f s with ⟨s1, _ | e1⟩
    · rw [hf] at h
      obtain ⟨st, hst, s0, hs0⟩ := ih s1 h
      exact ⟨st, by simp [hst], s0, hs0⟩
    · rw [hf] at h
      simp only [Prod.mk.injEq, Option.some.injEq] at h
      exact ⟨f, by simp, s, by rw [hf, ← h.2]⟩

/-- `np.array(nested)` raises nothing but `ValueError` -/
theorem npArray_error (v : JVal Tok) : ∀ e, npArray v = .error e → e = .value := by
  induction v using JVal.rec (motive_2 := fun l => ∀ e, npArrayList l = .error e → e = .value) with
  | num t => intro e h; simp [npArray] at h
  | arr l ih =>
    intro e h
    simp only [npArray] at h
    split at h
    · rename_i e' he
      simp only [Except.error.injEq] at h
      subst h
      exact ih _ he
    · simp at h
    · simp at h
  | nil => rename_i e h; simp [npArrayList] at h
  | cons x xs ihx ihxs =>
    rename_i e h
    simp only [npArrayList] at h
    split at h
    · rename_i e' he
      simp only [Except.error.injEq] at h
      subst h
      exact ihx _ he
    · split at h
      · rename_i e' he
        simp only [Except.error.injEq] at h
        subst h
        exact ihxs _ he
      · simp at h
      · split at h
        · simp at h
        · simp only [Except.error.injEq] at h
          exact h.symm

theorem loadtxt_error (ndmin : Nat) (lines : List (List Tok)) (e : Err) (h : loadtxt ndmin lines = .error e) :
    e = .value := by
  simp only [loadtxt] at h
  cases hr : List.filter (fun l => !l.isEmpty) lines with
  | nil => simp [hr] at h
  | cons r0 rest =>
    simp only [hr] at h
    split at h
    · simp at h
    · simp only [Except.error.injEq] at h
      exact h.symm

theorem loadField_error (nq : Nat) (f : Field) (lines : List (List Tok)) (e : Err)
    (h : loadField nq f lines = .error e) : e = .value := by
  unfold loadField at h
  have hmap : ∀ x : Except Err (Arr Tok), x.map wrap = .error e → x = .error e := by
    intro x hx
    cases x with
    | ok a => simp [Except.map] at hx
    | error e' => simpa [Except.map] using hx
  split at h
  · exact loadtxt_error _ _ _ (hmap _ h)
  · split at h
    · split at h
      · exact loadtxt_error _ _ _ h
      · exact loadtxt_error _ _ _ (hmap _ h)
    · exact loadtxt_error _ _ _ h

end QG.Lemmas.DevParamsIO
