import Mathlib.Data.List.Basic
import Mathlib.Data.List.Range
import Mathlib.Data.List.Perm.Basic
import Mathlib.Tactic
import QG.Model.FixCounts

/-! Helper lemmas for C16 (`fix_counts`).  Property theorems are in `QG/Props/C16.lean`. -/
namespace QG.Lemmas.FixCounts
open QG.Model.FixCounts

/-! ### `int(s, 2)` -/

@[simp] theorem toNat_nil : toNat [] = 0 := rfl

theorem toNat_foldl (bs : List Bool) (a : Nat) :
    bs.foldl (fun acc b => 2 * acc + (if b then 1 else 0)) a = a * 2 ^ bs.length + toNat bs := by
  induction bs generalizing a with
  | nil => simp [toNat]
  | cons b bs ih =>
    simp only [List.foldl_cons, toNat, List.length_cons]
    rw [ih, ih (2 * 0 + _)]
    ring

theorem toNat_cons (b : Bool) (bs : List Bool) :
    toNat (b :: bs) = (if b then 1 else 0) * 2 ^ bs.length + toNat bs := by
  simp only [toNat, List.foldl_cons]
  rw [toNat_foldl]
  simp [toNat]

theorem toNat_append_singleton (bs : List Bool) (b : Bool) :
    toNat (bs ++ [b]) = 2 * toNat bs + (if b then 1 else 0) := by
  simp [toNat, List.foldl_append]

theorem toNat_lt (bs : List Bool) : toNat bs < 2 ^ bs.length := by
  induction bs with
  | nil => simp
  | cons b bs ih =>
    rw [toNat_cons, List.length_cons, pow_succ]
    cases b <;> simp <;> omega

theorem toNat_inj : ∀ (a b : List Bool), a.length = b.length → toNat a = toNat b → a = b
  | [], [], _, _ => rfl
  | [], _ :: _, h, _ => by simp at h
  | _ :: _, [], h, _ => by simp at h
  | x :: a, y :: b, hl, h => by
    have hl' : a.length = b.length := by simpa using hl
    rw [toNat_cons, toNat_cons, hl'] at h
    have ha := toNat_lt a
    have hb := toNat_lt b
    rw [hl'] at ha
    cases x <;> cases y <;> simp at h ⊢
    · exact toNat_inj a b hl' h
    · omega
    · omega
    · exact toNat_inj a b hl' h

theorem toNat_replicate_false (m : Nat) : toNat (List.replicate m false) = 0 := by
  induction m with
  | zero => rfl
  | succ m ih => rw [List.replicate_succ, toNat_cons]; simp [ih]

theorem toNat_append (a b : List Bool) : toNat (a ++ b) = toNat a * 2 ^ b.length + toNat b := by
  simp only [toNat, List.foldl_append]
  rw [toNat_foldl]
  simp [toNat]

/-! ### `format(k,'b').zfill(n)` -/

theorem natBitsAux_spec (fuel : Nat) : ∀ (k : Nat) (acc : List Bool), k < 2 ^ fuel →
    ∃ pre, natBitsAux fuel k acc = pre ++ acc ∧ toNat pre = k ∧
      ∀ m, 1 ≤ m → k < 2 ^ m → pre.length ≤ m := by
  induction fuel with
  | zero =>
    intro k acc h
    refine ⟨[], by simp [natBitsAux], ?_, by simp⟩
    simp at h; simp [h]
  | succ fuel ih =>
    intro k acc h
    by_cases hk : k < 2
    · refine ⟨[k == 1], by simp [natBitsAux, hk], ?_, ?_⟩
      · interval_cases k <;> simp [toNat]
      · intro m hm _; simpa using hm
    · obtain ⟨pre, h1, h2, h3⟩ := ih (k / 2) ((k % 2 == 1) :: acc) (by
        rw [pow_succ] at h; omega)
      refine ⟨pre ++ [k % 2 == 1], by simp [natBitsAux, hk, h1], ?_, ?_⟩
      · rw [toNat_append_singleton, h2]
        rcases Nat.mod_two_eq_zero_or_one k with h0 | h0 <;> simp [h0] <;> omega
      · intro m hm hkm
        have hm2 : 2 ≤ m := by
          by_contra hc
          have : m = 1 := by omega
          subst this; simp at hkm; omega
        have := h3 (m - 1) (by omega) (by
          have : 2 ^ m = 2 ^ (m - 1) * 2 := by rw [← pow_succ]; congr 1; omega
          omega)
        simp; omega

theorem keyOf_spec (n k : Nat) (hn : 1 ≤ n) (hk : k < 2 ^ n) :
    (keyOf n k).length = n ∧ toNat (keyOf n k) = k := by
  obtain ⟨pre, h1, h2, h3⟩ := natBitsAux_spec (k + 1) k [] (Nat.lt_two_pow_self.trans (by
    exact Nat.pow_lt_pow_right (by norm_num) (Nat.lt_succ_self k)))
  have hl := h3 n hn hk
  simp only [List.append_nil] at h1
  unfold keyOf zfill natBits
  rw [h1]
  constructor
  · simp; omega
  · rw [toNat_append, toNat_replicate_false, h2]; simp

theorem keyOf_toNat (n : Nat) (l : List Bool) (hn : 1 ≤ n) (hl : l.length = n) :
    keyOf n (toNat l) = l := by
  have hlt : toNat l < 2 ^ n := hl ▸ toNat_lt l
  obtain ⟨h1, h2⟩ := keyOf_spec n (toNat l) hn hlt
  exact toNat_inj _ _ (by rw [h1, hl]) h2

/-! ### Python's string order on equal-length digit strings is the numeric order -/

theorem lexLe_iff : ∀ (a b : List Bool), a.length = b.length → (lexLe a b = true ↔ toNat a ≤ toNat b)
  | [], [], _ => by simp [lexLe]
  | [], _ :: _, h => by simp at h
  | _ :: _, [], h => by simp at h
  | x :: a, y :: b, hl => by
    have hl' : a.length = b.length := by simpa using hl
    have ha := toNat_lt a
    have hb := toNat_lt b
    rw [hl'] at ha
    rw [toNat_cons, toNat_cons, hl']
    cases x <;> cases y <;> simp [lexLe]
    · exact lexLe_iff a b hl'
    · omega
    · omega
    · exact lexLe_iff a b hl'

theorem lexLe_total : ∀ (a b : List Bool), (lexLe a b || lexLe b a) = true
  | [], _ => by simp [lexLe]
  | _ :: _, [] => by simp [lexLe]
  | x :: a, y :: b => by
    have := lexLe_total a b
    cases x <;> cases y <;> simp [lexLe] <;> simpa using this

theorem lexLe_trans : ∀ (a b c : List Bool), lexLe a b = true → lexLe b c = true → lexLe a c = true
  | [], _, _, _, _ => by simp [lexLe]
  | _ :: _, [], _, h, _ => by simp [lexLe] at h
  | _ :: _, _ :: _, [], _, h => by simp [lexLe] at h
  | x :: a, y :: b, z :: c, h1, h2 => by
    have := lexLe_trans a b c
    cases x <;> cases y <;> cases z <;> simp [lexLe] at h1 h2 ⊢ <;> exact this h1 h2

/-! ### numeric-key lookup with default -/

variable {α : Type}

/-- value stored under the key whose number is `k`, `zero` if there is none -/
def lookupD (zero : α) (l : List (List Bool × α)) (k : Nat) : α :=
  ((l.find? (fun p => toNat p.1 == k)).map (·.2)).getD zero

theorem lookupD_cons_eq (zero : α) (p : List Bool × α) (l) : lookupD zero (p :: l) (toNat p.1) = p.2 := by
  simp [lookupD, List.find?]

theorem lookupD_cons_ne (zero : α) (p : List Bool × α) (l) (k : Nat) (h : toNat p.1 ≠ k) :
    lookupD zero (p :: l) k = lookupD zero l k := by
  have hb : (toNat p.1 == k) = false := by simpa using h
  simp [lookupD, List.find?, hb]

theorem lookupD_absent (zero : α) (l : List (List Bool × α)) (k : Nat) (h : ∀ p ∈ l, toNat p.1 ≠ k) :
    lookupD zero l k = zero := by
  induction l with
  | nil => simp [lookupD]
  | cons p l ih =>
    rw [lookupD_cons_ne zero p l k (h p (by simp))]
    exact ih fun q hq => h q (by simp [hq])

/-- in a table with pairwise distinct key numbers, a member is what lookup returns -/
theorem lookupD_mem (zero : α) (l : List (List Bool × α)) (hnd : l.Pairwise (fun a b => toNat a.1 ≠ toNat b.1))
    (p : List Bool × α) (hp : p ∈ l) : lookupD zero l (toNat p.1) = p.2 := by
  induction l with
  | nil => simp at hp
  | cons q l ih =>
    rcases List.mem_cons.mp hp with rfl | hp'
    · exact lookupD_cons_eq zero _ _
    · have hne : toNat q.1 ≠ toNat p.1 := (List.pairwise_cons.mp hnd).1 p hp'
      rw [lookupD_cons_ne zero q l _ hne]
      exact ih (List.pairwise_cons.mp hnd).2 hp'

theorem lookupD_perm (zero : α) (l l' : List (List Bool × α)) (hp : l.Perm l')
    (hnd : l.Pairwise (fun a b => toNat a.1 ≠ toNat b.1)) (k : Nat) :
    lookupD zero l k = lookupD zero l' k := by
  have hnd' : l'.Pairwise (fun a b => toNat a.1 ≠ toNat b.1) :=
    hp.pairwise hnd (fun h => fun e => h e.symm)
  by_cases hex : ∃ p ∈ l, toNat p.1 = k
  · obtain ⟨p, hpl, rfl⟩ := hex
    rw [lookupD_mem zero l hnd p hpl, lookupD_mem zero l' hnd' p (hp.subset hpl)]
  · push Not at hex
    rw [lookupD_absent zero l k hex, lookupD_absent zero l' k (fun p hp' => hex p (hp.symm.subset hp'))]

abbrev Sorted (l : List (List Bool × α)) : Prop := l.Pairwise (fun a b => toNat a.1 < toNat b.1)

/-! ### the gap-filling loop -/

theorem fill_spec (zero : α) (n : Nat) (hn : 1 ≤ n) (k : Nat) :
    ∀ (done : List (List Bool × α)) (cur : List Bool × α) (rest : List (List Bool × α)),
    Sorted (cur :: rest) → (∀ p ∈ cur :: rest, p.1.length = n) →
    toNat ((cur :: rest).getLast (by simp)).1 = toNat cur.1 + k → toNat cur.1 + k < 2 ^ n →
    fill zero n k done cur rest = .ok (done.reverse ++
      (List.range (k+1)).map (fun i => (keyOf n (toNat cur.1 + i),
        if i = 0 then cur.2 else lookupD zero rest (toNat cur.1 + i)))) := by
  induction k with
  | zero =>
    intro done cur rest hs hlen hl _
    have hrest : rest = [] := by
      cases rest with
      | nil => rfl
      | cons nx r =>
        exfalso
        have hmem : (cur :: nx :: r).getLast (by simp) ∈ nx :: r := by
          rw [List.getLast_cons (by simp)]; exact List.getLast_mem _
        have := (List.pairwise_cons.mp hs).1 _ hmem
        omega
    subst hrest
    have : keyOf n (toNat cur.1) = cur.1 := keyOf_toNat n cur.1 hn (hlen cur (by simp))
    simp [fill, this]
  | succ k ih =>
    intro done cur rest hs hlen hl hlt2
    cases rest with
    | nil => simp at hl
    | cons nxt rest' =>
      have hlt : toNat cur.1 < toNat nxt.1 := (List.pairwise_cons.mp hs).1 nxt (by simp)
      have hs' : Sorted (nxt :: rest') := (List.pairwise_cons.mp hs).2
      have hgt : ∀ p ∈ rest', toNat nxt.1 < toNat p.1 := (List.pairwise_cons.mp hs').1
      have hl' : toNat ((nxt :: rest').getLast (by simp)).1 = toNat cur.1 + (k + 1) := by
        rw [List.getLast_cons (by simp)] at hl; exact hl
      have hcurkey : keyOf n (toNat cur.1) = cur.1 := keyOf_toNat n cur.1 hn (hlen cur (by simp))
      simp only [fill]
      rw [List.range_succ_eq_map, List.map_cons, List.map_map]
      by_cases hne : toNat nxt.1 ≠ toNat cur.1 + 1
      · -- a gap: insert (cur+1, 0)
        simp only [hne, if_true, ne_eq, not_false_eq_true]
        obtain ⟨hk1, hk2⟩ := keyOf_spec n (toNat cur.1 + 1) hn (by omega)
        have hsn : Sorted ((keyOf n (toNat cur.1 + 1), zero) :: nxt :: rest') := by
          refine List.pairwise_cons.mpr ⟨?_, hs'⟩
          intro p hp
          rcases List.mem_cons.mp hp with rfl | hp
          · simp only [hk2]; omega
          · have := hgt p hp; simp only [hk2]; omega
        have hlenn : ∀ p ∈ (keyOf n (toNat cur.1 + 1), zero) :: nxt :: rest', p.1.length = n := by
          intro p hp
          rcases List.mem_cons.mp hp with rfl | hp
          · exact hk1
          · exact hlen p (List.mem_cons_of_mem _ hp)
        have := ih (cur :: done) (keyOf n (toNat cur.1 + 1), zero) (nxt :: rest') hsn hlenn (by
          rw [List.getLast_cons (by simp)]; simp only [hk2]; omega) (by simp only [hk2]; omega)
        rw [this]
        refine congrArg Except.ok ?_
        rw [List.reverse_cons, List.append_assoc, List.singleton_append]
        congr 1
        refine congrArg₂ List.cons (by simp [hcurkey]) ?_
        apply List.map_congr_left
        intro i _
        simp only [Function.comp, Nat.succ_eq_add_one, hk2]
        by_cases hi : i = 0
        · subst hi
          have h0 : lookupD zero (nxt :: rest') (toNat cur.1 + (0+1)) = zero := by
            apply lookupD_absent
            intro p hp
            rcases List.mem_cons.mp hp with rfl | hp
            · omega
            · have := hgt p hp; omega
          simp [h0]
        · simp [hi, Nat.add_assoc, Nat.add_comm 1 i]
      · -- no gap
        have heq : toNat nxt.1 = toNat cur.1 + 1 := by omega
        simp only [heq, ne_eq, not_true_eq_false, if_false]
        have hlenn : ∀ p ∈ nxt :: rest', p.1.length = n := fun p hp => hlen p (List.mem_cons_of_mem _ hp)
        have := ih (cur :: done) nxt rest' hs' hlenn (by rw [hl']; omega) (by omega)
        rw [this]
        refine congrArg Except.ok ?_
        rw [List.reverse_cons, List.append_assoc, List.singleton_append]
        congr 1
        refine congrArg₂ List.cons (by simp [hcurkey]) ?_
        apply List.map_congr_left
        intro i _
        simp only [Function.comp, Nat.succ_eq_add_one]
        by_cases hi : i = 0
        · subst hi
          have h0 : lookupD zero (nxt :: rest') (toNat cur.1 + (0 + 1)) = nxt.2 := by
            rw [← heq]; exact lookupD_cons_eq zero nxt rest'
          simp [heq, h0]
        · have hk : toNat nxt.1 ≠ toNat cur.1 + (i + 1) := by omega
          simp only [hi, if_false]
          rw [lookupD_cons_ne zero nxt rest' _ hk]
          simp [heq, Nat.add_assoc, Nat.add_comm 1 i]

end QG.Lemmas.FixCounts
