import Mathlib.Tactic
import Mathlib.Algebra.Order.Field.Basic
import Mathlib.Algebra.BigOperators.Group.List.Basic
import QG.Model.RunValidate

/-!
Helper lemmas for C14 about the model `QG/Model/RunValidate.lean`: invariants of `_process_layout`, the bit strings of
`format(i,'0nb')`, the dictionary accumulation of `_measurament`, the normalisation.
-/
namespace QG.Lemmas.RunValidate
open QG.Model.RunValidate

/-! ### `_process_layout` -/

theorem mem_addUsed {u : List Nat} {q x : Nat} : x ∈ addUsed u q ↔ x ∈ u ∨ x = q := by
  unfold addUsed
  split
  · constructor
    · exact Or.inl
    · rintro (h | rfl) <;> assumption
  · simp

theorem addUsed_nodup {u : List Nat} (q : Nat) (h : u.Nodup) : (addUsed u q).Nodup := by
  unfold addUsed
  split
  · exact h
  · rename_i hq
    exact List.nodup_append.mpr ⟨h, List.nodup_singleton q, by
      intro a ha b hb
      simp only [List.mem_singleton] at hb
      subst hb
      exact fun e => hq (e ▸ ha)⟩

/-- invariant of the loop of `_process_layout` -/
def LayoutInv (st : List Nat × List (Nat × Nat)) : Prop := st.1.Nodup ∧ ∀ p ∈ st.2, p.1 ∈ st.1

theorem stepLayout_inv (st : List Nat × List (Nat × Nat)) (x : Instr) (h : LayoutInv st) :
    LayoutInv (stepLayout st x) := by
  obtain ⟨h1, h2⟩ := h
  cases x with
  | delay qs => exact ⟨h1, h2⟩
  | gate qs =>
    match qs with
    | [] => exact ⟨h1, h2⟩
    | [q] => exact ⟨addUsed_nodup q h1, fun p hp => mem_addUsed.mpr (Or.inl (h2 p hp))⟩
    | [q1, q2] =>
      exact ⟨addUsed_nodup q2 (addUsed_nodup q1 h1),
        fun p hp => mem_addUsed.mpr (Or.inl (mem_addUsed.mpr (Or.inl (h2 p hp))))⟩
    | _ :: _ :: _ :: _ => exact ⟨h1, h2⟩
  | measure q c =>
    refine ⟨addUsed_nodup q h1, ?_⟩
    intro p hp
    simp only [stepLayout, List.mem_append, List.mem_singleton] at hp
    rcases hp with hp | rfl
    · exact mem_addUsed.mpr (Or.inl (h2 p hp))
    · exact mem_addUsed.mpr (Or.inr rfl)

theorem foldl_stepLayout_inv (data : List Instr) (st : List Nat × List (Nat × Nat)) (h : LayoutInv st) :
    LayoutInv (data.foldl stepLayout st) := by
  induction data generalizing st with
  | nil => exact h
  | cons x xs ih => exact ih _ (stepLayout_inv st x h)

theorem layoutLoop_inv (data : List Instr) : LayoutInv (layoutLoop data) :=
  foldl_stepLayout_inv data _ ⟨List.nodup_nil, by simp⟩

theorem insertAsc_perm (q : Nat) (l : List Nat) : (insertAsc q l).Perm (q :: l) := by
  induction l with
  | nil => exact List.Perm.refl _
  | cons x xs ih =>
    unfold insertAsc
    split
    · exact List.Perm.refl _
    · exact (List.Perm.cons x ih).trans (List.Perm.swap q x xs)

/-- `used_q.sort()` only permutes the list … -/
theorem sortAsc_perm (l : List Nat) : (sortAsc l).Perm l := by
  induction l with
  | nil => exact List.Perm.refl _
  | cons x xs ih => exact (insertAsc_perm x (sortAsc xs)).trans (List.Perm.cons x ih)

theorem insertAsc_sorted (q : Nat) (l : List Nat) (h : l.Pairwise (· ≤ ·)) : (insertAsc q l).Pairwise (· ≤ ·) := by
  induction l with
  | nil => simp [insertAsc]
  | cons x xs ih =>
    unfold insertAsc
    have hx := List.pairwise_cons.mp h
    split
    · rename_i hq
      exact List.pairwise_cons.mpr ⟨fun y hy => by
        rcases List.mem_cons.mp hy with rfl | hy
        · exact hq
        · exact le_trans hq (hx.1 y hy), h⟩
    · rename_i hq
      refine List.pairwise_cons.mpr ⟨fun y hy => ?_, ih hx.2⟩
      rcases List.mem_cons.mp ((insertAsc_perm q xs).subset hy) with rfl | hy
      · omega
      · exact hx.1 y hy

/-- … and the result is ascending -/
theorem sortAsc_sorted (l : List Nat) : (sortAsc l).Pairwise (· ≤ ·) := by
  induction l with
  | nil => exact List.Pairwise.nil
  | cons x xs ih => exact insertAsc_sorted x _ ih

theorem processLayout_inv (data : List Instr) : LayoutInv (processLayout data) := by
  obtain ⟨h1, h2⟩ := layoutLoop_inv data
  have hp := sortAsc_perm (layoutLoop data).1
  exact ⟨hp.nodup_iff.mpr h1, fun p hp' => hp.mem_iff.mpr (h2 p hp')⟩

/-- the processed layout is strictly ascending -/
theorem processLayout_ascending (data : List Instr) : (processLayout data).1.Pairwise (· < ·) := by
  have hs : (processLayout data).1.Pairwise (· ≤ ·) := sortAsc_sorted _
  have hn : (processLayout data).1.Pairwise (· ≠ ·) := (processLayout_inv data).1
  exact (hs.and hn).imp (fun ⟨a, b⟩ => lt_of_le_of_ne a b)

/-- sorting changes neither which qubits are used nor how many -/
theorem processLayout_length (data : List Instr) : (processLayout data).1.length = (layoutLoop data).1.length :=
  (sortAsc_perm _).length_eq

theorem mem_processLayout (data : List Instr) (q : Nat) : q ∈ (processLayout data).1 ↔ q ∈ (layoutLoop data).1 :=
  (sortAsc_perm _).mem_iff

/-! ### bit strings -/

/-- all bit strings of length `n` in ascending binary order -/
def allBits : Nat → List (List Bool)
  | 0 => [[]]
  | n + 1 => (allBits n).map (false :: ·) ++ (allBits n).map (true :: ·)

theorem range_map_bits (n : Nat) : (List.range (2 ^ n)).map (bits n) = allBits n := by
  induction n with
  | zero => simp [allBits, bits]
  | succ n ih =>
    have h2 : 2 ^ (n + 1) = 2 ^ n + 2 ^ n := by ring
    have hpos : 0 < 2 ^ n := Nat.pos_of_ne_zero (by positivity)
    rw [h2, List.range_add, List.map_append, allBits, ← ih]
    congr 1
    · simp only [List.map_map]
      apply List.map_congr_left
      intro i hi
      have hi' : i < 2 ^ n := List.mem_range.mp hi
      simp [bits, Nat.div_eq_of_lt hi', Nat.mod_eq_of_lt hi']
    · simp only [List.map_map]
      apply List.map_congr_left
      intro i hi
      have hi' : i < 2 ^ n := List.mem_range.mp hi
      have e1 : (2 ^ n + i) / 2 ^ n = 1 := by
        rw [Nat.add_div_left _ hpos, Nat.div_eq_of_lt hi']
      have e2 : (2 ^ n + i) % 2 ^ n = i := by
        rw [Nat.add_mod_left, Nat.mod_eq_of_lt hi']
      simp [bits, e1, e2]

/-- for `n ≥ 1` the strings of `format(i,'0nb')`, `i < 2^n`, are all bit strings of length `n` in ascending order -/
theorem binaryVector_eq_allBits (n : Nat) (hn : n ≠ 0) : binaryVector n = allBits n := by
  rw [← range_map_bits]
  unfold binaryVector
  apply List.map_congr_left
  intro i _
  simp [formatBin, hn]

theorem mem_allBits {n : Nat} {s : List Bool} : s ∈ allBits n ↔ s.length = n := by
  induction n generalizing s with
  | zero => simp [allBits]
  | succ n ih =>
    simp only [allBits, List.mem_append, List.mem_map]
    constructor
    · rintro (⟨t, ht, rfl⟩ | ⟨t, ht, rfl⟩) <;> simp [ih.mp ht]
    · intro h
      match s, h with
      | b :: t, h =>
        have ht : t ∈ allBits n := ih.mpr (by simpa using h)
        cases b
        · exact Or.inl ⟨t, ht, rfl⟩
        · exact Or.inr ⟨t, ht, rfl⟩

theorem allBits_length (n : Nat) : (allBits n).length = 2 ^ n := by
  induction n with
  | zero => simp [allBits]
  | succ n ih => simp [allBits, ih]; ring

theorem allBits_nodup (n : Nat) : (allBits n).Nodup := by
  induction n with
  | zero => simp [allBits]
  | succ n ih =>
    rw [allBits]
    refine List.nodup_append.mpr ⟨?_, ?_, ?_⟩
    · exact ih.map (fun a b h => by simpa using h)
    · exact ih.map (fun a b h => by simpa using h)
    · intro a ha b hb
      simp only [List.mem_map] at ha hb
      obtain ⟨_, _, rfl⟩ := ha
      obtain ⟨_, _, rfl⟩ := hb
      simp

/-! ### loops that may raise -/

theorem mapE_ok {α β : Type} (f : α → Except Err β) (g : α → β) (l : List α) (h : ∀ a ∈ l, f a = .ok (g a)) :
    mapE f l = .ok (l.map g) := by
  induction l with
  | nil => rfl
  | cons a as ih =>
    have h1 := h a (by simp)
    have h2 := ih (fun b hb => h b (List.mem_cons_of_mem _ hb))
    simp [mapE, h1, h2]

theorem indexOf_of_mem {l : List Nat} {q : Nat} (h : q ∈ l) : indexOf l q = .ok (l.idxOf q) := by
  induction l with
  | nil => simp at h
  | cons x xs ih =>
    by_cases hx : x = q
    · simp [indexOf, hx]
    · have hq : q ∈ xs := by
        rcases List.mem_cons.mp h with rfl | h
        · exact absurd rfl hx
        · exact h
      simp [indexOf, hx, ih hq]

theorem indexOf_of_not_mem {l : List Nat} {q : Nat} (h : q ∉ l) : indexOf l q = .error .valueError := by
  induction l with
  | nil => rfl
  | cons x xs ih =>
    have hx : x ≠ q := fun e => h (e ▸ List.mem_cons_self)
    have hq : q ∉ xs := fun e => h (List.mem_cons_of_mem _ e)
    simp [indexOf, hx, ih hq]

theorem charAt_ok {s : List Bool} {i : Nat} (h : i < s.length) : charAt s i = .ok (s.getD i false) := by
  simp [charAt, List.getD, List.getElem?_eq_getElem h]

/-- the key of basis string `s` : its characters at the positions `qidx`, in the order of `qidx` -/
def proj (qidx : List Nat) (s : List Bool) : List Bool := qidx.map fun i => s.getD i false

/-- string positions of the measured qubits, in the order of the measure instructions: `qubits_layout.index(q)` -/
def positions (layout : List Nat) (meas : List (Nat × Nat)) : List Nat := meas.map fun t => layout.idxOf t.1

/-- the width-0 quirk of `format` is invisible when nothing is projected -/
theorem binaryVector_map_proj (n : Nat) (qidx : List Nat) (h : n = 0 → qidx = []) :
    (binaryVector n).map (proj qidx) = (allBits n).map (proj qidx) := by
  by_cases hn : n = 0
  · subst hn
    simp [h rfl, binaryVector, allBits, proj]
  · rw [binaryVector_eq_allBits n hn]

/-- `_measurament` never raises when every measured qubit is in the layout and `n_qubit = len(layout)`;
its result is the accumulation over the projected basis strings. -/
theorem measurement_eq {α : Type} (num : Num α) (prob : List α) (meas : List (Nat × Nat)) (layout : List Nat)
    (hmem : ∀ t ∈ meas, t.1 ∈ layout) :
    measurement num prob meas layout.length layout =
      .ok (accumulate num (prob.zip ((allBits layout.length).map (proj (positions layout meas))))) := by
  have h0 : layout.length = 0 → positions layout meas = [] := by
    intro h
    have hl : layout = [] := List.length_eq_zero_iff.mp h
    cases meas with
    | nil => rfl
    | cons t ts => have := hmem t (by simp); simp [hl] at this
  have h1 : mapE (fun t : Nat × Nat => indexOf layout t.1) meas = .ok (positions layout meas) :=
    mapE_ok _ _ _ (fun t ht => indexOf_of_mem (hmem t ht))
  have h2 : mapE (fun s => mapE (charAt s) (positions layout meas)) (binaryVector layout.length) =
      .ok ((binaryVector layout.length).map (proj (positions layout meas))) := by
    apply mapE_ok
    intro s hs
    by_cases hn : layout.length = 0
    · rw [h0 hn]; rfl
    · rw [binaryVector_eq_allBits _ hn] at hs
      have hl : s.length = layout.length := mem_allBits.mp hs
      apply mapE_ok
      intro i hi
      simp only [positions, List.mem_map] at hi
      obtain ⟨t, ht, rfl⟩ := hi
      exact charAt_ok (hl ▸ List.idxOf_lt_length_of_mem (hmem t ht))
  unfold measurement
  rw [h1]
  dsimp only
  rw [h2, binaryVector_map_proj _ _ h0]

/-! ### the dictionary -/

/-- a `Num` dictionary that is the arithmetic of an additive monoid -/
structure Lawful {α : Type} [AddCommMonoid α] (num : Num α) : Prop where
  zero : num.zero = 0
  add : ∀ a b, num.add a b = a + b

section dict
variable {α : Type} [AddCommMonoid α] (num : Num α)

/-- `sums.get(k, 0)` on the item list -/
def getV : List (List Bool × α) → List Bool → α
  | [], _ => 0
  | (k', s) :: r, k => if k' = k then s else getV r k

/-- keys in order of first appearance -/
def firstOcc (l : List (List Bool)) : List (List Bool) :=
  l.foldl (fun acc k => if k ∈ acc then acc else acc ++ [k]) []

omit [AddCommMonoid α] in
theorem upsert_keys (sums : List (List Bool × α)) (k : List Bool) (v : α) :
    (upsert num sums k v).map Prod.fst =
      if k ∈ sums.map Prod.fst then sums.map Prod.fst else sums.map Prod.fst ++ [k] := by
  induction sums with
  | nil => simp [upsert]
  | cons p r ih =>
    obtain ⟨k', s⟩ := p
    by_cases h : k' = k
    · simp [upsert, h]
    · have h' : ¬ k = k' := fun e => h e.symm
      simp only [upsert, h, if_false, List.map_cons, ih, List.mem_cons, h', false_or]
      split <;> simp

variable (hl : Lawful num)
include hl

theorem upsert_getV (sums : List (List Bool × α)) (k k' : List Bool) (v : α) :
    getV (upsert num sums k v) k' = if k' = k then getV sums k' + v else getV sums k' := by
  induction sums with
  | nil =>
    by_cases h : k' = k
    · simp [upsert, getV, h, hl.zero, hl.add]
    · have h' : ¬ k = k' := fun e => h e.symm
      simp [upsert, getV, h, h']
  | cons p r ih =>
    obtain ⟨k0, s⟩ := p
    by_cases h0 : k0 = k
    · subst h0
      by_cases h : k' = k0
      · simp [upsert, getV, h, hl.add]
      · have h' : ¬ k0 = k' := fun e => h e.symm
        simp [upsert, getV, h, h']
    · by_cases h : k0 = k'
      · subst h
        have : ¬ k0 = k := h0
        simp [upsert, getV, h0]
      · simp [upsert, getV, h0, h, ih]

theorem upsert_sum (sums : List (List Bool × α)) (k : List Bool) (v : α) :
    ((upsert num sums k v).map Prod.snd).sum = (sums.map Prod.snd).sum + v := by
  induction sums with
  | nil => simp [upsert, hl.zero, hl.add]
  | cons p r ih =>
    obtain ⟨k0, s⟩ := p
    by_cases h0 : k0 = k
    · simp [upsert, h0, hl.add]; abel
    · simp [upsert, h0, ih]; abel

omit [AddCommMonoid α] hl in
theorem fold_keys (pairs : List (α × List Bool)) (sums : List (List Bool × α)) :
    (pairs.foldl (fun sums p => upsert num sums p.2 p.1) sums).map Prod.fst =
      (pairs.map Prod.snd).foldl (fun acc k => if k ∈ acc then acc else acc ++ [k]) (sums.map Prod.fst) := by
  induction pairs generalizing sums with
  | nil => rfl
  | cons p ps ih => simp only [List.foldl_cons, List.map_cons, ih, upsert_keys]

theorem fold_getV (pairs : List (α × List Bool)) (sums : List (List Bool × α)) (k : List Bool) :
    getV (pairs.foldl (fun sums p => upsert num sums p.2 p.1) sums) k =
      getV sums k + ((pairs.filter fun p => p.2 = k).map Prod.fst).sum := by
  induction pairs generalizing sums with
  | nil => simp
  | cons p ps ih =>
    obtain ⟨v, k0⟩ := p
    rw [List.foldl_cons, ih, upsert_getV num hl]
    by_cases h : k0 = k
    · subst h
      simp [add_assoc]
    · have h' : ¬ k = k0 := fun e => h e.symm
      simp [h, h']

theorem fold_sum (pairs : List (α × List Bool)) (sums : List (List Bool × α)) :
    ((pairs.foldl (fun sums p => upsert num sums p.2 p.1) sums).map Prod.snd).sum =
      (sums.map Prod.snd).sum + (pairs.map Prod.fst).sum := by
  induction pairs generalizing sums with
  | nil => simp
  | cons p ps ih => rw [List.foldl_cons, ih, upsert_sum num hl]; simp [add_assoc]

omit hl in
theorem getV_of_mem (sums : List (List Bool × α)) (hnd : (sums.map Prod.fst).Nodup) (k : List Bool) (v : α)
    (h : (k, v) ∈ sums) : getV sums k = v := by
  induction sums with
  | nil => simp at h
  | cons p r ih =>
    obtain ⟨k0, s⟩ := p
    simp only [List.map_cons, List.nodup_cons] at hnd
    rcases List.mem_cons.mp h with e | h
    · cases e; simp [getV]
    · have : k0 ≠ k := by
        intro e; subst e
        exact hnd.1 (List.mem_map.mpr ⟨(k0, v), h, rfl⟩)
      simp [getV, this, ih hnd.2 h]

end dict

/-! ### first-appearance key list -/

theorem firstOcc_step_nodup (l acc : List (List Bool)) (h : acc.Nodup) :
    (l.foldl (fun acc k => if k ∈ acc then acc else acc ++ [k]) acc).Nodup := by
  induction l generalizing acc with
  | nil => exact h
  | cons k ks ih =>
    rw [List.foldl_cons]
    apply ih
    by_cases hk : k ∈ acc
    · simpa only [hk, if_true] using h
    · simp only [hk, if_false]
      exact List.nodup_append.mpr ⟨h, List.nodup_singleton k, by
        intro a ha b hb
        simp only [List.mem_singleton] at hb
        subst hb
        exact fun e => hk (e ▸ ha)⟩

theorem firstOcc_step_mem (l acc : List (List Bool)) (x : List Bool) :
    x ∈ l.foldl (fun acc k => if k ∈ acc then acc else acc ++ [k]) acc ↔ x ∈ acc ∨ x ∈ l := by
  induction l generalizing acc with
  | nil => simp
  | cons k ks ih =>
    rw [List.foldl_cons, ih]
    by_cases hk : k ∈ acc
    · simp only [hk, if_true, List.mem_cons]
      constructor
      · rintro (h | h)
        · exact Or.inl h
        · exact Or.inr (Or.inr h)
      · rintro (h | rfl | h)
        · exact Or.inl h
        · exact Or.inl hk
        · exact Or.inr h
    · simp only [hk, if_false, List.mem_append, List.mem_cons]
      tauto

theorem firstOcc_nodup (l : List (List Bool)) : (firstOcc l).Nodup :=
  firstOcc_step_nodup l [] List.nodup_nil

theorem mem_firstOcc (l : List (List Bool)) (x : List Bool) : x ∈ firstOcc l ↔ x ∈ l := by
  simp [firstOcc, firstOcc_step_mem]

/-! ### projections hit every key exactly when the measured positions are distinct -/

theorem proj_length (qidx : List Nat) (s : List Bool) : (proj qidx s).length = qidx.length := by
  simp [proj]

theorem proj_surj (n : Nat) (qidx : List Nat) (hnd : qidx.Nodup) (hlt : ∀ i ∈ qidx, i < n) (k : List Bool)
    (hk : k.length = qidx.length) : ∃ s, s.length = n ∧ proj qidx s = k := by
  refine ⟨(List.range n).map (fun p => k.getD (qidx.idxOf p) false), by simp, ?_⟩
  apply List.ext_getElem
  · simp [proj, hk]
  · intro j h1 h2
    have hj : j < qidx.length := by simpa [proj] using h1
    have hq : qidx[j] < n := hlt _ (List.getElem_mem hj)
    simp only [proj, List.getElem_map]
    rw [List.getD_eq_getElem?_getD, List.getElem?_map, List.getElem?_range hq]
    simp only [Option.map_some, Option.getD_some]
    rw [hnd.idxOf_getElem j hj, List.getD_eq_getElem?_getD, List.getElem?_eq_getElem h2]
    rfl

/-! ### normalisation over an ordered field -/

section field
variable {K : Type} [Field K] [LinearOrder K] [IsStrictOrderedRing K]

/-- the dictionary of exact arithmetic in a linearly ordered field (ℚ, ℝ) -/
def fieldNum (K : Type) [Field K] [LinearOrder K] [IsStrictOrderedRing K] : Num K :=
  ⟨0, (· + ·), (· / ·), fun x => decide (0 < x)⟩

theorem fieldNum_lawful : Lawful (fieldNum K) := ⟨rfl, fun _ _ => rfl⟩

theorem foldl_add_eq (l : List K) (a : K) : l.foldl (fieldNum K).add a = a + l.sum := by
  induction l generalizing a with
  | nil => simp
  | cons x xs ih =>
    rw [List.foldl_cons, ih]
    simp [fieldNum, add_assoc]

theorem total_eq_sum (r : List K) : total (fieldNum K) r = r.sum := by
  unfold total
  rw [foldl_add_eq]
  simp [fieldNum]

theorem fieldNum_pos (x : K) : (fieldNum K).pos x = decide (0 < x) := rfl
theorem fieldNum_div (x y : K) : (fieldNum K).div x y = x / y := rfl

theorem normalise_of_pos (r : List K) (h : 0 < r.sum) :
    normalise (fieldNum K) r = .ok (r.map fun x => x / r.sum) := by
  unfold normalise
  rw [total_eq_sum]
  simp [fieldNum_pos, fieldNum_div, h]

theorem normalise_of_not_pos (r : List K) (h : ¬ 0 < r.sum) :
    normalise (fieldNum K) r = .error .assertionError := by
  unfold normalise
  rw [total_eq_sum]
  simp only [fieldNum_pos, decide_eq_true_eq, h, if_false]

omit [LinearOrder K] [IsStrictOrderedRing K] in
theorem sum_map_div (r : List K) (t : K) : (r.map fun x => x / t).sum = r.sum / t := by
  simp only [div_eq_mul_inv]
  exact List.sum_map_mul_right r (fun x => x) t⁻¹ |>.trans (by simp)

/-! ### accumulation over the shots -/

theorem addVec_eq (a b : List K) : addVec (fieldNum K) a b = List.zipWith (· + ·) a b := rfl

theorem addVec_length (a b : List K) (h : b.length = a.length) : (addVec (fieldNum K) a b).length = a.length := by
  simp [addVec_eq, h]

theorem addVec_sum (a b : List K) (h : b.length = a.length) : (addVec (fieldNum K) a b).sum = a.sum + b.sum := by
  rw [addVec_eq]
  induction a generalizing b with
  | nil => cases b <;> simp_all
  | cons x xs ih =>
    cases b with
    | nil => simp at h
    | cons y ys =>
      simp only [List.zipWith_cons_cons, List.sum_cons, ih ys (by simpa using h)]
      ring

theorem addVec_nonneg (a b : List K) (ha : ∀ x ∈ a, 0 ≤ x) (hb : ∀ x ∈ b, 0 ≤ x) :
    ∀ x ∈ addVec (fieldNum K) a b, 0 ≤ x := by
  rw [addVec_eq]
  induction a generalizing b with
  | nil => simp
  | cons x xs ih =>
    cases b with
    | nil => simp
    | cons y ys =>
      intro z hz
      simp only [List.zipWith_cons_cons, List.mem_cons] at hz
      rcases hz with rfl | hz
      · exact add_nonneg (ha _ (by simp)) (hb _ (by simp))
      · exact ih ys (fun w hw => ha w (List.mem_cons_of_mem _ hw)) (fun w hw => hb w (List.mem_cons_of_mem _ hw)) z hz

theorem foldl_addVec (results : List (List K)) (acc : List K) (hlen : ∀ r ∈ results, r.length = acc.length)
    (hacc : ∀ x ∈ acc, 0 ≤ x) (hnn : ∀ r ∈ results, ∀ x ∈ r, 0 ≤ x) :
    (results.foldl (addVec (fieldNum K)) acc).length = acc.length ∧
    (∀ x ∈ results.foldl (addVec (fieldNum K)) acc, 0 ≤ x) ∧
    (results.foldl (addVec (fieldNum K)) acc).sum = acc.sum + (results.map List.sum).sum := by
  induction results generalizing acc with
  | nil => exact ⟨rfl, hacc, by simp⟩
  | cons r rs ih =>
    have hr : r.length = acc.length := hlen r (by simp)
    have hl := addVec_length acc r hr
    obtain ⟨h1, h2, h3⟩ := ih (addVec (fieldNum K) acc r)
      (fun r' hr' => by rw [hl]; exact hlen r' (List.mem_cons_of_mem _ hr'))
      (addVec_nonneg acc r hacc (hnn r (by simp)))
      (fun r' hr' => hnn r' (List.mem_cons_of_mem _ hr'))
    refine ⟨by rw [List.foldl_cons, h1, hl], by simpa [List.foldl_cons] using h2, ?_⟩
    rw [List.foldl_cons, h3, addVec_sum acc r hr]
    simp [add_assoc]

/-- the mean over `shotsVal > 0` shots of non-negative vectors of length `len` -/
theorem meanOfShots_spec (len : Nat) (shotsVal : K) (hs : 0 < shotsVal) (results : List (List K))
    (hlen : ∀ r ∈ results, r.length = len) (hnn : ∀ r ∈ results, ∀ x ∈ r, 0 ≤ x) :
    (meanOfShots (fieldNum K) len shotsVal results).length = len ∧
    (∀ x ∈ meanOfShots (fieldNum K) len shotsVal results, 0 ≤ x) ∧
    (meanOfShots (fieldNum K) len shotsVal results).sum = (results.map List.sum).sum / shotsVal := by
  have hz : (fieldNum K).zero = 0 := rfl
  obtain ⟨h1, h2, h3⟩ := foldl_addVec results (List.replicate len (fieldNum K).zero)
    (fun r hr => by simpa using hlen r hr) (fun x hx => by simp [hz] at hx; simp [hx.2])
    hnn
  unfold meanOfShots
  refine ⟨by simpa using h1, ?_, ?_⟩
  · intro x hx
    obtain ⟨y, hy, rfl⟩ := List.mem_map.mp hx
    exact div_nonneg (h2 y hy) hs.le
  · change (List.map (fun x => x / shotsVal) _).sum = _
    rw [sum_map_div, h3]
    simp [hz]

end field

end QG.Lemmas.RunValidate
