/-
Lemmas for C11: a circuit object whose gate-call log is `log` and whose grid / layers hold tokens shifted by
`log.length` behaves, step for step, like the object without that log ("rebase").  `reset()` is the rebase of a
newly constructed object on the log so far.
-/
import QG.Model.Reuse
namespace QG.Lemmas.Reuse
open QG.Model.Wiring QG.Model.Reuse

variable {Φ : Type}

def shiftE (k : Nat) : Entry → Entry
  | .tok t => .tok (t + k)
  | e => e

@[simp] theorem shiftE_one (k : Nat) : shiftE k .one = .one := rfl
@[simp] theorem shiftE_ident (k : Nat) : shiftE k .ident = .ident := rfl
@[simp] theorem shiftE_tok (k t : Nat) : shiftE k (.tok t) = .tok (t + k) := rfl

theorem map_ok {α β ε : Type} (f : α → β) (a : α) : Except.map f (.ok a : Except ε α) = .ok (f a) := rfl
theorem map_error {α β ε : Type} (f : α → β) (e : ε) : Except.map f (.error e : Except ε α) = .error e := rfl

theorem getAt_map {α β : Type} (f : α → β) (l : List α) (i : Nat) :
    getAt (l.map f) i = (getAt l i).map f := by
  unfold getAt
  simp only [List.getElem?_map]
  cases l[i]? <;> rfl

theorem setAt_map {α β : Type} (f : α → β) (l : List α) (i : Nat) (v : α) :
    setAt (l.map f) i (f v) = (setAt l i v).map (List.map f) := by
  unfold setAt
  by_cases h : i < l.length
  · simp [h, Except.map, List.map_set]
  · simp [h, Except.map]

theorem gridWrite_map (f : Entry → Entry) (g : List (List Entry)) (i j : Nat) (e : Entry) :
    gridWrite (g.map (List.map f)) i j (f e) = (gridWrite g i j e).map (List.map (List.map f)) := by
  unfold gridWrite
  rw [getAt_map]
  cases h : getAt g i with
  | error x => rfl
  | ok row =>
    simp only [map_ok, bind, Except.bind]
    rw [setAt_map]
    cases h2 : setAt row j e with
    | error x => rfl
    | ok row' =>
      simp only [map_ok]
      have := setAt_map (List.map f) g i row'
      simpa using this

/-! ### grid class -/

def rebaseG (log : List (GateCall Φ)) (st : GridState Φ) : GridState Φ :=
  { st with grid := st.grid.map (List.map (shiftE log.length)), calls := st.calls ++ log }

theorem apply1_rebase (log : List (GateCall Φ)) (st : GridState Φ) (i : Nat) (e : Entry) :
    (rebaseG log st).apply1 i (shiftE log.length e) = (st.apply1 i e).map (rebaseG log) := by
  unfold GridState.apply1 rebaseG
  simp only
  split
  · rw [gridWrite_map]
    cases gridWrite st.grid i st.j e <;> rfl
  · split
    · rw [gridWrite_map]
      cases gridWrite st.grid i (st.j + 1) e <;> rfl
    · rfl

theorem apply2_rebase (log : List (GateCall Φ)) (st : GridState Φ) (i : Nat) (e : Entry) (phi : List Φ) :
    (rebaseG log st).apply2 i (shiftE log.length e) phi = (st.apply2 i e phi).map (rebaseG log) := by
  unfold GridState.apply2 rebaseG
  simp only
  split
  · rw [gridWrite_map]
    cases gridWrite st.grid i st.j e <;> rfl
  · split
    · rw [gridWrite_map]
      cases gridWrite st.grid i (st.j + 1) e <;> rfl
    · rfl

theorem rebaseG_push (log : List (GateCall Φ)) (st : GridState Φ) (c : GateCall Φ) :
    ({ rebaseG log st with calls := c :: (rebaseG log st).calls } : GridState Φ)
      = rebaseG log { st with calls := c :: st.calls } := rfl

theorem rebaseG_tok (log : List (GateCall Φ)) (st : GridState Φ) :
    Entry.tok (rebaseG log st).calls.length = shiftE log.length (.tok st.calls.length) := by
  simp [rebaseG]

theorem grid_step_rebase (P : PhaseOps Φ) (log : List (GateCall Φ)) (st : GridState Φ) (c : CircCall Φ) :
    (rebaseG log st).step P c = (st.step P c).map (rebaseG log) := by
  cases c with
  | Rz i th =>
    simp only [GridState.step]
    show (do let p ← getAt st.phi i; let phi ← setAt st.phi i (P.add p th); pure { rebaseG log st with phi := phi }) = _
    cases getAt st.phi i with
    | error x => rfl
    | ok p =>
      simp only [bind, Except.bind]
      cases setAt st.phi i (P.add p th) <;> rfl
  | I i =>
    simp only [GridState.step]
    exact apply1_rebase log st i .ident
  | X i pars =>
    simp only [GridState.step]
    show (do let c ← oneQCall P "X" st.phi i pars true; _) = _
    cases oneQCall P "X" st.phi i pars true with
    | error x => rfl
    | ok c =>
      simp only [bind, Except.bind]
      rw [rebaseG_push, rebaseG_tok]
      exact apply1_rebase log _ i _
  | SX i pars =>
    simp only [GridState.step]
    show (do let c ← oneQCall P "SX" st.phi i pars true; _) = _
    cases oneQCall P "SX" st.phi i pars true with
    | error x => rfl
    | ok c =>
      simp only [bind, Except.bind]
      rw [rebaseG_push, rebaseG_tok]
      exact apply1_rebase log _ i _
  | relaxation i pars =>
    simp only [GridState.step]
    show (do let c ← oneQCall P "relaxation" st.phi i pars false; _) = _
    cases oneQCall P "relaxation" st.phi i pars false with
    | error x => rfl
    | ok c =>
      simp only [bind, Except.bind]
      rw [rebaseG_push, rebaseG_tok]
      exact apply1_rebase log _ i _
  | bitflip i pars =>
    simp only [GridState.step]
    show (do let c ← oneQCall P "bitflip" st.phi i pars false; _) = _
    cases oneQCall P "bitflip" st.phi i pars false with
    | error x => rfl
    | ok c =>
      simp only [bind, Except.bind]
      rw [rebaseG_push, rebaseG_tok]
      exact apply1_rebase log _ i _
  | CNOT i k pars =>
    simp only [GridState.step]
    split
    · rfl
    · show (if st.s < st.nqubit ∨ st.s = st.nqubit then _ else _) = _
      split
      · show (do let t ← twoQCNOT P st.phi i k pars; _) = _
        cases twoQCNOT P st.phi i k pars with
        | error x => rfl
        | ok t =>
          simp only [bind, Except.bind]
          rw [rebaseG_push, rebaseG_tok]
          exact apply2_rebase log _ i _ _
      · rfl
  | ECR i k pars =>
    simp only [GridState.step]
    split
    · rfl
    · show (if st.s < st.nqubit ∨ st.s = st.nqubit then _ else _) = _
      split
      · show (do let t ← twoQECR st.phi i k pars; _) = _
        cases twoQECR st.phi i k pars with
        | error x => rfl
        | ok t =>
          simp only [bind, Except.bind]
          rw [rebaseG_push, rebaseG_tok]
          exact apply2_rebase log _ i _ _
      · rfl

theorem grid_reset_rebase (P : PhaseOps Φ) (st : GridState Φ) :
    st.reset P = rebaseG st.calls (GridState.init P st.nqubit st.depth) := by
  simp [GridState.reset, rebaseG, GridState.init]

theorem rebaseG_rebaseG (l1 l2 : List (GateCall Φ)) (st : GridState Φ) :
    rebaseG l1 (rebaseG l2 st) = rebaseG (l2 ++ l1) st := by
  have h : ∀ e, shiftE l1.length (shiftE l2.length e) = shiftE (l2 ++ l1).length e := by
    intro e; cases e <;> simp [Nat.add_assoc]
  simp [rebaseG, Function.comp_def, h]

theorem grid_reset_of_rebase (P : PhaseOps Φ) (log : List (GateCall Φ)) (st : GridState Φ) :
    (rebaseG log st).reset P = rebaseG log (st.reset P) := by
  rw [grid_reset_rebase, grid_reset_rebase, rebaseG_rebaseG]
  rfl

theorem gridH_rebase (P : PhaseOps Φ) (log : List (GateCall Φ)) (st : GridState Φ) (op : HOp Φ) :
    gridH P (rebaseG log st) op = (gridH P st op).map (rebaseG log) := by
  cases op with
  | call c => exact grid_step_rebase P log st c
  | eval => rfl
  | reset => simp only [gridH, map_ok, grid_reset_of_rebase]

theorem foldE_map {σ α : Type} (f : σ → α → Except Err σ) (r : σ → σ)
    (h : ∀ s a, f (r s) a = (f s a).map r) (s : σ) (l : List α) :
    foldE f (r s) l = (foldE f s l).map r := by
  induction l generalizing s with
  | nil => rfl
  | cons a as ih =>
    simp only [foldE, h]
    cases f s a with
    | error x => rfl
    | ok s' => exact ih s'

/-! ### layered classes -/

def rebaseL (log : List (GateCall Φ)) (st : LayerState Φ) : LayerState Φ :=
  { st with mp := st.mp.map (shiftE log.length), mpList := st.mpList.map (List.map (shiftE log.length)),
            calls := st.calls ++ log }

theorem flush_rebase (log : List (GateCall Φ)) (st : LayerState Φ) :
    (rebaseL log st).flush = rebaseL log st.flush := by
  unfold LayerState.flush rebaseL
  simp only
  split <;> simp

theorem lapply1_rebase (log : List (GateCall Φ)) (st : LayerState Φ) (i : Nat) (e : Entry) :
    (rebaseL log st).apply1 i (shiftE log.length e) = (st.apply1 i e).map (rebaseL log) := by
  unfold LayerState.apply1
  show (do let mp ← setAt (st.mp.map (shiftE log.length)) i (shiftE log.length e); _) = _
  rw [setAt_map]
  cases setAt st.mp i e with
  | error x => rfl
  | ok mp =>
    simp only [map_ok, bind, Except.bind, pure, Except.pure]
    exact congrArg Except.ok (flush_rebase log { st with mp := mp, s := st.s + 1 })

theorem lapply2_rebase (log : List (GateCall Φ)) (st : LayerState Φ) (i : Nat) (e : Entry) (phi : List Φ) :
    (rebaseL log st).apply2 i (shiftE log.length e) phi = (st.apply2 i e phi).map (rebaseL log) := by
  unfold LayerState.apply2
  show (do let mp ← setAt (st.mp.map (shiftE log.length)) i (shiftE log.length e); _) = _
  rw [setAt_map]
  cases setAt st.mp i e with
  | error x => rfl
  | ok mp =>
    simp only [map_ok, bind, Except.bind, pure, Except.pure]
    exact congrArg Except.ok (flush_rebase log { st with mp := mp, s := st.s + 2, phi := phi })

theorem rebaseL_push (log : List (GateCall Φ)) (st : LayerState Φ) (c : GateCall Φ) :
    ({ rebaseL log st with calls := c :: (rebaseL log st).calls } : LayerState Φ)
      = rebaseL log { st with calls := c :: st.calls } := rfl

theorem rebaseL_tok (log : List (GateCall Φ)) (st : LayerState Φ) :
    Entry.tok (rebaseL log st).calls.length = shiftE log.length (.tok st.calls.length) := by
  simp [rebaseL]

theorem layer_step_rebase (P : PhaseOps Φ) (log : List (GateCall Φ)) (st : LayerState Φ) (c : CircCall Φ) :
    (rebaseL log st).step P c = (st.step P c).map (rebaseL log) := by
  cases c with
  | Rz i th =>
    simp only [LayerState.step]
    show (do let p ← getAt st.phi i; let phi ← setAt st.phi i (P.add p th); pure { rebaseL log st with phi := phi }) = _
    cases getAt st.phi i with
    | error x => rfl
    | ok p =>
      simp only [bind, Except.bind]
      cases setAt st.phi i (P.add p th) <;> rfl
  | I i =>
    simp only [LayerState.step]
    exact lapply1_rebase log st i .ident
  | X i pars =>
    simp only [LayerState.step]
    show (do let c ← oneQCall P "X" st.phi i pars true; _) = _
    cases oneQCall P "X" st.phi i pars true with
    | error x => rfl
    | ok c =>
      simp only [bind, Except.bind]
      rw [rebaseL_push, rebaseL_tok]
      exact lapply1_rebase log _ i _
  | SX i pars =>
    simp only [LayerState.step]
    show (do let c ← oneQCall P "SX" st.phi i pars true; _) = _
    cases oneQCall P "SX" st.phi i pars true with
    | error x => rfl
    | ok c =>
      simp only [bind, Except.bind]
      rw [rebaseL_push, rebaseL_tok]
      exact lapply1_rebase log _ i _
  | relaxation i pars =>
    simp only [LayerState.step]
    show (do let c ← oneQCall P "relaxation" st.phi i pars false; _) = _
    cases oneQCall P "relaxation" st.phi i pars false with
    | error x => rfl
    | ok c =>
      simp only [bind, Except.bind]
      rw [rebaseL_push, rebaseL_tok]
      exact lapply1_rebase log _ i _
  | bitflip i pars =>
    simp only [LayerState.step]
    show (do let c ← oneQCall P "bitflip" st.phi i pars false; _) = _
    cases oneQCall P "bitflip" st.phi i pars false with
    | error x => rfl
    | ok c =>
      simp only [bind, Except.bind]
      rw [rebaseL_push, rebaseL_tok]
      exact lapply1_rebase log _ i _
  | CNOT i k pars =>
    simp only [LayerState.step]
    show (do let t ← twoQCNOT P st.phi i k pars; _) = _
    cases twoQCNOT P st.phi i k pars with
    | error x => rfl
    | ok t =>
      simp only [bind, Except.bind]
      rw [rebaseL_push, rebaseL_tok]
      exact lapply2_rebase log _ i _ _
  | ECR i k pars =>
    simp only [LayerState.step]
    show (do let t ← twoQECR st.phi i k pars; _) = _
    cases twoQECR st.phi i k pars with
    | error x => rfl
    | ok t =>
      simp only [bind, Except.bind]
      rw [rebaseL_push, rebaseL_tok]
      exact lapply2_rebase log _ i _ _

theorem layer_reset_rebase (P : PhaseOps Φ) (st : LayerState Φ) :
    st.reset P = rebaseL st.calls (LayerState.init P st.nqubit) := by
  simp [LayerState.reset, rebaseL, LayerState.init]

theorem rebaseL_rebaseL (l1 l2 : List (GateCall Φ)) (st : LayerState Φ) :
    rebaseL l1 (rebaseL l2 st) = rebaseL (l2 ++ l1) st := by
  have h : ∀ e, shiftE l1.length (shiftE l2.length e) = shiftE (l2 ++ l1).length e := by
    intro e; cases e <;> simp [Nat.add_assoc]
  simp [rebaseL, Function.comp_def, h]

theorem layer_reset_of_rebase (P : PhaseOps Φ) (log : List (GateCall Φ)) (st : LayerState Φ) :
    (rebaseL log st).reset P = rebaseL log (st.reset P) := by
  rw [layer_reset_rebase, layer_reset_rebase, rebaseL_rebaseL]
  rfl

theorem layerH_rebase (P : PhaseOps Φ) (log : List (GateCall Φ)) (st : LayerState Φ) (op : HOp Φ) :
    layerH P (rebaseL log st) op = (layerH P st op).map (rebaseL log) := by
  cases op with
  | call c => exact layer_step_rebase P log st c
  | eval => rfl
  | reset => simp only [layerH, map_ok, layer_reset_of_rebase]

/-! ### index-based class -/

theorem QL.norm_idem (q : QL) : q.norm.norm = q.norm := by cases q <;> rfl

/-- a build call only ever prepends items (nothing already registered is touched) and keeps the register size -/
theorem bin_step_items (P : PhaseOps Φ) (st st' : BinState Φ) (c : CircCall Φ) (h : st.step P c = .ok st') :
    (∃ l, st'.items = l ++ st.items) ∧ st'.nqubit = st.nqubit := by
  cases c with
  | Rz i th =>
    simp only [BinState.step, bind, Except.bind] at h
    split at h
    · cases h
    · split at h
      · cases h
      · cases h; exact ⟨⟨[], rfl⟩, rfl⟩
  | I i => cases h; exact ⟨⟨[_], rfl⟩, rfl⟩
  | X i pars =>
    simp only [BinState.step, bind, Except.bind] at h
    split at h
    · cases h
    · cases h; exact ⟨⟨[_], rfl⟩, rfl⟩
  | SX i pars =>
    simp only [BinState.step, bind, Except.bind] at h
    split at h
    · cases h
    · cases h; exact ⟨⟨[_], rfl⟩, rfl⟩
  | relaxation i pars =>
    simp only [BinState.step, bind, Except.bind] at h
    split at h
    · cases h
    · cases h; exact ⟨⟨[_], rfl⟩, rfl⟩
  | bitflip i pars =>
    simp only [BinState.step, bind, Except.bind] at h
    split at h
    · cases h
    · cases h; exact ⟨⟨[_], rfl⟩, rfl⟩
  | CNOT i k pars =>
    simp only [BinState.step, bind, Except.bind] at h
    split at h
    · cases h
    · cases h; exact ⟨⟨[_], rfl⟩, rfl⟩
  | ECR i k pars =>
    simp only [BinState.step, bind, Except.bind] at h
    split at h
    · cases h
    · cases h; exact ⟨⟨[_], rfl⟩, rfl⟩

/-- the stored qubit lists are, up to normalisation, the fresh ones of the registered items -/
def BinInv (o : BinObj Φ) : Prop := o.qls.map QL.norm = o.st.items.map fun it => (freshQL it).norm

theorem binInv_init (P : PhaseOps Φ) (n : Nat) : BinInv (BinObj.init P n) := rfl

theorem binInv_reset (P : PhaseOps Φ) (o : BinObj Φ) : BinInv (o.reset P) := rfl

theorem binInv_eval (o : BinObj Φ) (h : BinInv o) : BinInv o.eval := by
  unfold BinInv BinObj.eval at *
  simp only [List.map_map]
  rw [← h]
  simp [Function.comp_def, QL.norm_idem]

theorem bin_step_ok (P : PhaseOps Φ) (o o' : BinObj Φ) (c : CircCall Φ) (h : o.step P c = .ok o') :
    ∃ l, o.st.step P c = .ok o'.st ∧ o'.st.items = l ++ o.st.items ∧ o'.qls = l.map freshQL ++ o.qls := by
  unfold BinObj.step at h
  cases hs : o.st.step P c with
  | error e => rw [hs] at h; cases h
  | ok st' =>
    rw [hs] at h
    simp only [bind, Except.bind, pure, Except.pure] at h
    cases h
    obtain ⟨⟨l, hl⟩, _⟩ := bin_step_items P o.st st' c hs
    refine ⟨l, rfl, hl, ?_⟩
    simp [hl]

theorem binInv_step (P : PhaseOps Φ) (o o' : BinObj Φ) (c : CircCall Φ) (hi : BinInv o) (h : o.step P c = .ok o') :
    BinInv o' := by
  obtain ⟨l, _, h1, h2⟩ := bin_step_ok P o o' c h
  unfold BinInv at *
  rw [h1, h2]
  simp [hi]

theorem binInv_H (P : PhaseOps Φ) (o o' : BinObj Φ) (op : HOp Φ) (hi : BinInv o) (h : binH P o op = .ok o') :
    BinInv o' := by
  cases op with
  | call c => exact binInv_step P o o' c hi h
  | eval => cases h; exact binInv_eval o hi
  | reset => cases h; exact binInv_reset P o

theorem foldE_inv {σ α : Type} (f : σ → α → Except Err σ) (I : σ → Prop)
    (hstep : ∀ s a s', I s → f s a = .ok s' → I s') (s s' : σ) (l : List α) (hs : I s) (h : foldE f s l = .ok s') :
    I s' := by
  induction l generalizing s with
  | nil => cases h; exact hs
  | cons a as ih =>
    simp only [foldE] at h
    cases hf : f s a with
    | error e => rw [hf] at h; cases h
    | ok s1 => rw [hf] at h; exact ih s1 (hstep s a s1 hs hf) h

/-- what the backend is handed, as a function of the wiring state alone -/
def seenOf (st : BinState Φ) : List (Option (GateCall Φ) × QL) :=
  (st.items.map (·.gate)).reverse.zip (st.items.map fun it => (freshQL it).norm).reverse

theorem seen_of_inv (o : BinObj Φ) (h : BinInv o) : o.seen = seenOf o.st := by
  unfold BinObj.seen seenOf
  rw [h]

/-- history on the wiring state alone (evaluation is the identity) -/
def stH (P : PhaseOps Φ) (st : BinState Φ) : HOp Φ → Except Err (BinState Φ)
  | .call c => st.step P c
  | .eval => .ok st
  | .reset => .ok (st.reset P)

theorem binH_st (P : PhaseOps Φ) (o : BinObj Φ) (op : HOp Φ) :
    (binH P o op).map (·.st) = stH P o.st op := by
  cases op with
  | call c =>
    simp only [binH, stH, BinObj.step]
    cases o.st.step P c <;> rfl
  | eval => rfl
  | reset => rfl

theorem foldE_proj {σ τ α : Type} (f : σ → α → Except Err σ) (g : τ → α → Except Err τ) (π : σ → τ)
    (h : ∀ s a, (f s a).map π = g (π s) a) (s : σ) (l : List α) :
    (foldE f s l).map π = foldE g (π s) l := by
  induction l generalizing s with
  | nil => rfl
  | cons a as ih =>
    simp only [foldE]
    have := h s a
    cases hf : f s a with
    | error e => rw [hf] at this; rw [← this]; rfl
    | ok s1 => rw [hf] at this; rw [← this]; exact ih s1

theorem stH_filter (P : PhaseOps Φ) (st : BinState Φ) (h : List (HOp Φ)) :
    foldE (stH P) st (h.filter fun op => !op.isEval) = foldE (stH P) st h := by
  induction h generalizing st with
  | nil => rfl
  | cons op ops ih =>
    cases op with
    | call c =>
      simp only [List.filter, HOp.isEval, Bool.not_false, foldE]
      cases stH P st (.call c) with
      | error e => rfl
      | ok s1 => exact ih s1
    | eval =>
      simp only [List.filter, HOp.isEval, Bool.not_true, foldE]
      exact ih st
    | reset =>
      simp only [List.filter, HOp.isEval, Bool.not_false, foldE]
      exact ih _

end QG.Lemmas.Reuse
