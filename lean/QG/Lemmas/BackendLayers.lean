import Mathlib.Tactic
import QG.Lemmas.BackendBasic
/-!
# Layers, Kronecker folds, chunking and layer plans

* `pvLeg` / `blockLeg`: the leg (dimension, matrix) a run-time value / layer entry denotes (a scalar placeholder is the
  1x1 matrix `[[1]]`); `layerMat` = the Kronecker product of a layer; `specFn` = the property's right-hand side.
* `SemOp`: a binary operation that denotes `kron`; `foldl_sem` (`ft.reduce(np.kron, ·)`), `kroneckerG_sem`
  (`_kronecker`'s divide and conquer) compute `kronList`.
* `kronList_chunks`: cutting a list of legs into consecutive chunks and multiplying each chunk first does not change the
  Kronecker product (used by the chunked backend, the two-way split and the splitting of long runs).
* `WFI`: the grammar of well-formed layers as an inductive predicate, with the facts the backends need.
* `PlanOK` / `applyPlan_ok`: what it means for a layer plan to implement a layer, and that evaluating it then performs
  `ψ ↦ mulVec (layerMat l) ψ`; `foldlM_steps`: folding such steps over the layer list gives `specFn`.
-/
open Finset QG.Model.Backend
open QG.Spec.KronFlat hiding Leg

set_option linter.unusedSectionVars false

namespace QG.Lemmas.Backend

variable {R : Type} [CommSemiring R]

abbrev SLeg (R : Type) := QG.Spec.KronFlat.Leg R

/-! ### denotations -/

/-- the leg a matrix denotes -/
def matLeg (M : Mat R) : SLeg R := (M.dim, some (fn M))

/-- the leg a run-time value denotes (`1` ↦ the 1x1 matrix `[[1]]`) -/
def pvLeg : PyVal (Mat R) → SLeg R
  | .arr M => matLeg M
  | _ => (1, some (idMat 1))

/-- the leg a layer entry denotes -/
def blockLeg (b : Block (Mat R)) : SLeg R := pvLeg b.toPy

/-- the Kronecker product of a layer, `ft.reduce(np.kron, layer)` as a mathematical object -/
def layerMat (l : Layer (Mat R)) : FMat R := kronList (l.map blockLeg)

/-- `(kron of last layer) ⋯ (kron of first layer) ψ` on `n` qubits -/
def specFn (n : ℕ) (L : List (Layer (Mat R))) (v : ℕ → R) : ℕ → R :=
  L.foldl (fun v l => mulVec (2 ^ n) (layerMat l) v) v

/-- the property's right-hand side as an array -/
def specApply (n : ℕ) (L : List (Layer (Mat R))) (ψ : Array R) : Array R :=
  Array.ofFn (n := 2 ^ n) fun i => specFn n L (vfn ψ) i.val

theorem isCut_legMat_pvLeg (v : PyVal (Mat R)) : IsCut (pvLeg v).1 (legMat (pvLeg v)) := by
  cases v with
  | arr M => exact fn_isCut M
  | int1 => exact isCut_idMat 1
  | np0 => exact isCut_idMat 1

theorem good_pvLeg (v : PyVal (Mat R)) (h : 0 < (pvLeg v).1) : Leg.Good (pvLeg v) := ⟨h, isCut_legMat_pvLeg v⟩

theorem good_matLeg (M : Mat R) (h : 0 < M.dim) : Leg.Good (matLeg M) := ⟨h, fn_isCut M⟩

/-! ### operations that denote `kron` -/

/-- `op` denotes the Kronecker product under the denotation `leg` -/
structure SemOp {γ : Type} (op : γ → γ → γ) (leg : γ → SLeg R) : Prop where
  dim_op : ∀ a b, (leg (op a b)).1 = (leg a).1 * (leg b).1
  mat_op : ∀ a b, legMat (leg (op a b)) = kron (leg b).1 (legMat (leg a)) (legMat (leg b))

theorem semOp_kronM : SemOp (kronM (dictOf R)) (matLeg (R := R)) where
  dim_op _ _ := rfl
  mat_op A B := fn_kronM A B

theorem semOp_pyKron [DecidableEq R] : SemOp (pyKron (matOps (dictOf R))) (pvLeg (R := R)) where
  dim_op a b := by
    cases a <;> cases b <;> simp [pyKron, pvLeg, matLeg, matOps]
  mat_op a b := by
    cases a <;> cases b <;>
      simp only [pyKron, pvLeg, matLeg, matOps, legMat, kron_one_right, fn_kronM,
        kron_one_left (fn_isCut _)]

section Sem
variable {γ : Type} {op : γ → γ → γ} {leg : γ → SLeg R}

theorem kronList_cons (x : SLeg R) (rest : List (SLeg R)) :
    kronList (x :: rest) = kron (dims rest) (legMat x) (kronList rest) := rfl

theorem dims_cons (x : SLeg R) (rest : List (SLeg R)) : dims (x :: rest) = x.1 * dims rest := by
  obtain ⟨d, o⟩ := x; rfl

/-- `ft.reduce(np.kron, [acc] + xs)` -/
theorem foldl_sem (h : SemOp op leg) (xs : List γ) (acc : γ) :
    (leg (xs.foldl op acc)).1 = (leg acc).1 * dims (xs.map leg) ∧
    legMat (leg (xs.foldl op acc)) = kron (dims (xs.map leg)) (legMat (leg acc)) (kronList (xs.map leg)) := by
  induction xs generalizing acc with
  | nil => simp [dims, kronList, kron_one_right]
  | cons x xs ih =>
    obtain ⟨h1, h2⟩ := ih (op acc x)
    simp only [List.foldl_cons, List.map_cons, dims_cons, kronList_cons]
    refine ⟨by rw [h1, h.dim_op]; ring, ?_⟩
    rw [h2, h.mat_op, kron_assoc]

/-- for a non-empty first part no hypothesis on the legs is needed -/
theorem kronList_append_ne (l₁ l₂ : List (SLeg R)) (h : l₁ ≠ []) :
    kronList (l₁ ++ l₂) = kron (dims l₂) (kronList l₁) (kronList l₂) := by
  induction l₁ with
  | nil => exact absurd rfl h
  | cons x rest ih =>
    by_cases hr : rest = []
    · subst hr
      simp only [List.cons_append, List.nil_append, kronList_cons, kronList, dims, kron_one_right]
    · simp only [List.cons_append, kronList_cons, ih hr, dims_append]
      rw [kron_assoc]

/-- `_kronecker` (divide and conquer) computes the Kronecker product of the list -/
theorem kroneckerG_sem (h : SemOp op leg) (l : List γ) (hl : l ≠ []) :
    ∃ v, kroneckerG op l = .ok v ∧ (leg v).1 = dims (l.map leg) ∧ legMat (leg v) = kronList (l.map leg) := by
  induction hn : l.length using Nat.strong_induction_on generalizing l with
  | _ n ih =>
    rw [kroneckerG]
    split
    · -- length ≤ 3: the left fold
      cases l with
      | nil => exact absurd rfl hl
      | cons x xs =>
        obtain ⟨h1, h2⟩ := foldl_sem h xs x
        exact ⟨_, rfl, by simpa [dims_cons] using h1, by simpa [kronList_cons] using h2⟩
    · rename_i hlen
      have hlen' : 3 < l.length := by omega
      have ht : l.take (l.length / 2) ≠ [] := by
        intro hh; have := congrArg List.length hh
        rw [List.length_take, List.length_nil] at this; omega
      have hd : l.drop (l.length / 2) ≠ [] := by
        intro hh; have := congrArg List.length hh
        rw [List.length_drop, List.length_nil] at this; omega
      obtain ⟨a, ha, ha1, ha2⟩ := ih (l.take (l.length / 2)).length (by rw [List.length_take]; omega) _ ht rfl
      obtain ⟨b, hb, hb1, hb2⟩ := ih (l.drop (l.length / 2)).length (by rw [List.length_drop]; omega) _ hd rfl
      refine ⟨op a b, ?_, ?_, ?_⟩
      · rw [ha, hb]; rfl
      · rw [h.dim_op, ha1, hb1, ← dims_append, ← List.map_append, List.take_append_drop]
      · rw [h.mat_op, ha2, hb1, hb2, ← kronList_append_ne _ _ (by simpa using ht), ← List.map_append,
          List.take_append_drop]

end Sem

/-! ### chunks -/

/-- the leg of a chunk that has been multiplied out -/
def chunkLeg (c : List (SLeg R)) : SLeg R := (dims c, some (kronList c))

theorem dims_chunks (cs : List (List (SLeg R))) : dims (cs.map chunkLeg) = dims cs.flatten := by
  induction cs with
  | nil => rfl
  | cons c rest ih => simp only [List.map_cons, List.flatten_cons, dims_append, ← ih]; rfl

/-- multiplying consecutive chunks out first does not change the Kronecker product -/
theorem kronList_chunks (cs : List (List (SLeg R))) (hne : ∀ c ∈ cs, c ≠ []) :
    kronList (cs.map chunkLeg) = kronList cs.flatten := by
  induction cs with
  | nil => rfl
  | cons c rest ih =>
    have hrest := ih fun c' hc' => hne c' (by simp [hc'])
    simp only [List.map_cons, List.flatten_cons, kronList_cons]
    rw [kronList_append_ne _ _ (hne c (by simp)), hrest, dims_chunks]
    rfl

/-! ### scalar placeholders do not matter -/

theorem kronList_scalar_cons (rest : List (SLeg R)) (h : ∀ x ∈ rest, Leg.Good x) :
    kronList (((1, some (idMat 1)) : SLeg R) :: rest) = kronList rest := by
  rw [kronList_cons]
  exact kron_one_left (isCut_kronList rest h)

/-! ### well-formed layers -/

/-- the grammar of well-formed layers: `ε | M₂ layer | M₄ 1 layer | 1 M₄ layer` -/
inductive WFI : List (Block (Mat R)) → Prop
  | nil : WFI []
  | m2 (M : Mat R) (rest) : M.dim = 2 → WFI rest → WFI (.mat M :: rest)
  | m4after (M : Mat R) (rest) : M.dim = 4 → WFI rest → WFI (.mat M :: .scalar :: rest)
  | m4before (M : Mat R) (rest) : M.dim = 4 → WFI rest → WFI (.scalar :: .mat M :: rest)

theorem wfi_of_wfBlocks (l : List (Block (Mat R))) (h : wfBlocks Mat.dim l = true) : WFI l := by
  induction hn : l.length using Nat.strong_induction_on generalizing l with
  | _ n ih =>
    match l, h with
    | [], _ => exact .nil
    | .scalar :: .mat M :: rest, h =>
      simp only [wfBlocks, Bool.and_eq_true, beq_iff_eq] at h
      exact .m4before M rest h.1 (ih rest.length (by subst hn; simp only [List.length_cons]; omega) rest h.2 rfl)
    | [.scalar], h => cases h
    | .scalar :: .scalar :: rest, h => cases h
    | .mat M :: rest, h =>
      unfold wfBlocks at h
      split at h
      · rename_i h2
        exact .m2 M rest (by simpa using h2) (ih rest.length (by subst hn; simp) rest h rfl)
      · simp only [Bool.and_eq_true, beq_iff_eq] at h
        obtain ⟨h4, hr⟩ := h
        match rest, hr with
        | .scalar :: rest', hr =>
          exact .m4after M rest' h4 (ih rest'.length (by subst hn; simp only [List.length_cons]; omega) rest' hr rfl)

def isMat : Block (Mat R) → Bool
  | .mat _ => true
  | .scalar => false

theorem WFI.length_dims {l : List (Block (Mat R))} (h : WFI l) : dims (l.map blockLeg) = 2 ^ l.length := by
  induction h with
  | nil => rfl
  | m2 M rest hM _ ih =>
    simp only [List.map_cons, dims_cons, ih, List.length_cons, blockLeg, Block.toPy, pvLeg, matLeg, hM]; ring
  | m4after M rest hM _ ih =>
    simp only [List.map_cons, dims_cons, ih, List.length_cons, blockLeg, Block.toPy, pvLeg, matLeg, hM]; ring
  | m4before M rest hM _ ih =>
    simp only [List.map_cons, dims_cons, ih, List.length_cons, blockLeg, Block.toPy, pvLeg, matLeg, hM]; ring

theorem WFI.good {l : List (Block (Mat R))} (h : WFI l) : ∀ x ∈ l.map blockLeg, Leg.Good x := by
  induction h with
  | nil => simp
  | m2 M rest hM _ ih =>
    intro x hx
    simp only [List.map_cons, List.mem_cons] at hx
    rcases hx with rfl | hx
    · exact good_pvLeg _ (by simp [Block.toPy, pvLeg, matLeg, hM])
    · exact ih x hx
  | m4after M rest hM _ ih =>
    intro x hx
    simp only [List.map_cons, List.mem_cons] at hx
    rcases hx with rfl | rfl | hx
    · exact good_pvLeg _ (by simp [Block.toPy, pvLeg, matLeg, hM])
    · exact good_pvLeg _ (by simp [Block.toPy, pvLeg])
    · exact ih x hx
  | m4before M rest hM _ ih =>
    intro x hx
    simp only [List.map_cons, List.mem_cons] at hx
    rcases hx with rfl | rfl | hx
    · exact good_pvLeg _ (by simp [Block.toPy, pvLeg])
    · exact good_pvLeg _ (by simp [Block.toPy, pvLeg, matLeg, hM])
    · exact ih x hx

/-- a non-empty well-formed layer contains a matrix -/
theorem WFI.any_isMat {l : List (Block (Mat R))} (h : WFI l) (hl : l ≠ []) : l.any isMat = true := by
  cases h with
  | nil => exact absurd rfl hl
  | m2 => simp [isMat]
  | m4after => simp [isMat]
  | m4before => simp [isMat]

/-- every prefix of length ≥ 2 contains a matrix -/
theorem WFI.any_take {l : List (Block (Mat R))} (h : WFI l) (k : ℕ) (hk : 2 ≤ k) (hl : l ≠ []) :
    (l.take k).any isMat = true := by
  obtain ⟨k', rfl⟩ : ∃ k', k = k' + 2 := ⟨k - 2, by omega⟩
  cases h with
  | nil => exact absurd rfl hl
  | m2 => simp [isMat]
  | m4after => simp [isMat]
  | m4before => simp [isMat]

/-- every suffix of length ≥ 2 contains a matrix -/
theorem WFI.any_drop {l : List (Block (Mat R))} (h : WFI l) (k : ℕ) (hk : k + 2 ≤ l.length) :
    (l.drop k).any isMat = true := by
  induction h generalizing k with
  | nil => simp at hk
  | m2 M rest hM hr ih =>
    cases k with
    | zero => simp [isMat]
    | succ k => simpa using ih k (by simpa using hk)
  | m4after M rest hM hr ih =>
    cases k with
    | zero => simp [isMat]
    | succ k =>
      cases k with
      | zero =>
        have : rest ≠ [] := by intro hh; subst hh; simp at hk
        simpa [isMat] using hr.any_isMat this
      | succ k => simpa using ih k (by simp at hk; omega)
  | m4before M rest hM hr ih =>
    cases k with
    | zero => simp [isMat]
    | succ k =>
      cases k with
      | zero => simp [isMat]
      | succ k => simpa using ih k (by simp at hk; omega)

/-! ### `ft.reduce(np.kron, ·)` on lists of run-time values -/

theorem reduceKron_sem [DecidableEq R] (l : List (PyVal (Mat R))) (hl : l ≠ []) :
    ∃ v, reduceKron (matOps (dictOf R)) l = .ok v ∧ (pvLeg v).1 = dims (l.map pvLeg) ∧
      legMat (pvLeg v) = kronList (l.map pvLeg) := by
  cases l with
  | nil => exact absurd rfl hl
  | cons x xs =>
    obtain ⟨h1, h2⟩ := foldl_sem (semOp_pyKron (R := R)) xs x
    exact ⟨_, rfl, by simpa [dims_cons] using h1, by simpa [kronList_cons] using h2⟩

def isArr {β : Type} : PyVal β → Bool
  | .arr _ => true
  | _ => false

theorem foldl_pyKron_isArr [DecidableEq R] (xs : List (PyVal (Mat R))) (acc : PyVal (Mat R))
    (h : isArr acc = true ∨ xs.any isArr = true) :
    isArr (xs.foldl (pyKron (matOps (dictOf R))) acc) = true := by
  induction xs generalizing acc with
  | nil => simpa using h
  | cons x xs ih =>
    simp only [List.foldl_cons]
    apply ih
    simp only [List.any_cons, Bool.or_eq_true] at h
    rcases h with h | h | h
    · left; cases acc <;> cases x <;> simp_all [pyKron, isArr]
    · left; cases acc <;> cases x <;> simp_all [pyKron, isArr]
    · right; exact h

/-- a list that contains a matrix reduces to a matrix: its dimension and entries -/
theorem reduceKron_arr [DecidableEq R] (l : List (PyVal (Mat R))) (h : l.any isArr = true) :
    ∃ K : Mat R, reduceKron (matOps (dictOf R)) l = .ok (.arr K) ∧ K.dim = dims (l.map pvLeg) ∧
      fn K = kronList (l.map pvLeg) := by
  have hl : l ≠ [] := by intro hh; subst hh; simp at h
  obtain ⟨v, hv, h1, h2⟩ := reduceKron_sem l hl
  have harr : isArr v = true := by
    cases l with
    | nil => exact absurd rfl hl
    | cons x xs =>
      simp only [reduceKron, Except.ok.injEq] at hv
      subst hv
      apply foldl_pyKron_isArr
      simpa [Bool.or_eq_true] using h
  cases v with
  | arr K => exact ⟨K, hv, h1, h2⟩
  | int1 => simp [isArr] at harr
  | np0 => simp [isArr] at harr

theorem any_isArr_map_toPy (l : List (Block (Mat R))) :
    (l.map Block.toPy).any isArr = l.any isMat := by
  induction l with
  | nil => rfl
  | cons b rest ih => cases b <;> simp [Block.toPy, isArr, isMat, ih]

theorem map_pvLeg_toPy (l : List (Block (Mat R))) : (l.map Block.toPy).map pvLeg = l.map blockLeg := by
  simp [blockLeg]

/-! ### layer plans -/

/-- the plan `p` implements the layer `l` on `n` qubits -/
def PlanOK (n : ℕ) (l : Layer (Mat R)) : LayerPlan (Mat R) → Prop
  | .dense K => ∃ M, K = .arr M ∧ M.dim = 2 ^ n ∧ fn M = layerMat l
  | .einsum legs => (∀ x ∈ legs, 0 < x.1) ∧ legDims legs = 2 ^ n ∧ kronList (legs.map legSem) = layerMat l
  | .skip => layerMat l = idMat (2 ^ n)

theorem mulVec_idMat (d : ℕ) (v : ℕ → R) (i : ℕ) (hi : i < d) : mulVec d (idMat d) v i = v i := by
  unfold mulVec
  rw [sum_eq_single i]
  · simp [idMat, hi]
  · intro b _ hb; simp [idMat, Ne.symm hb]
  · intro h; exact absurd (mem_range.mpr hi) h

/-- evaluating a plan that implements `l` multiplies by the layer's Kronecker product -/
theorem applyPlan_ok {n : ℕ} {l : Layer (Mat R)} {p : LayerPlan (Mat R)} (hp : PlanOK n l p) (ψ : Array R)
    (hψ : ψ.size = 2 ^ n) :
    ∃ ψ', applyPlan (dictOf R) p ψ = .ok ψ' ∧ ψ'.size = 2 ^ n ∧
      ∀ i < 2 ^ n, vfn ψ' i = mulVec (2 ^ n) (layerMat l) (vfn ψ) i := by
  cases p with
  | dense K =>
    obtain ⟨M, rfl, hd, hM⟩ := hp
    refine ⟨Array.ofFn (n := M.dim) fun i => mulVec M.dim (fn M) (vfn ψ) i.val, ?_, ?_, ?_⟩
    · simp only [applyPlan, pyMatVec]
      exact matVec_eq M ψ (by rw [hd, hψ])
    · simp [hd]
    · intro i hi
      rw [vfn_ofFn _ _ (by rw [hd]; exact hi)]
      simp only [hd, hM]
  | skip =>
    refine ⟨ψ, rfl, hψ, fun i hi => ?_⟩
    have hp' : layerMat l = idMat (2 ^ n) := hp
    rw [hp', mulVec_idMat _ _ _ hi]
  | einsum legs =>
    obtain ⟨hpos, hd, hk⟩ := hp
    refine ⟨Array.ofFn (n := legDims legs) fun i => contractAt (dictOf R) ψ legs 0 i.val, ?_, ?_, ?_⟩
    · simp only [applyPlan]
      rw [if_neg (by rw [hd, hψ]; simp)]
    · simp [hd]
    · intro i hi
      rw [vfn_ofFn _ _ (by rw [hd]; exact hi)]
      rw [contractAt_eq ψ legs hpos 0 i (by rw [hd]; exact hi)]
      have hpos' : ∀ x ∈ legs.map legSem, 0 < x.1 := fun y hy => by
        obtain ⟨x, hx, rfl⟩ := List.mem_map.mp hy
        exact hpos x hx
      rw [einsumList_eq _ hpos' _ _ (by rw [← legDims_eq, hd]; exact hi), ← legDims_eq, hd, hk]
      exact mulVec_congr (fun _ _ => rfl) (fun j _ => by simp)

/-- folding layer steps that each multiply by the layer's Kronecker product yields `specApply` -/
theorem foldlM_steps {n : ℕ} (step : Layer (Mat R) → Array R → Except Err (Array R)) (L : List (Layer (Mat R)))
    (hstep : ∀ l ∈ L, ∀ ψ : Array R, ψ.size = 2 ^ n → ∃ ψ', step l ψ = .ok ψ' ∧ ψ'.size = 2 ^ n ∧
      ∀ i < 2 ^ n, vfn ψ' i = mulVec (2 ^ n) (layerMat l) (vfn ψ) i)
    (ψ : Array R) (hψ : ψ.size = 2 ^ n) :
    L.foldlM (fun ψ l => step l ψ) ψ = .ok (specApply n L ψ) := by
  suffices H : ∀ (L : List (Layer (Mat R))) (ψ : Array R), ψ.size = 2 ^ n →
      (∀ l ∈ L, ∀ ψ : Array R, ψ.size = 2 ^ n → ∃ ψ', step l ψ = .ok ψ' ∧ ψ'.size = 2 ^ n ∧
        ∀ i < 2 ^ n, vfn ψ' i = mulVec (2 ^ n) (layerMat l) (vfn ψ) i) →
      ∃ out, L.foldlM (fun ψ l => step l ψ) ψ = .ok out ∧ out.size = 2 ^ n ∧
        ∀ i < 2 ^ n, vfn out i = specFn n L (vfn ψ) i by
    obtain ⟨out, h1, h2, h3⟩ := H L ψ hψ hstep
    rw [h1]
    congr 1
    apply Array.ext
    · simp [specApply, h2]
    · intro i hi1 hi2
      have hi : i < 2 ^ n := by rw [← h2]; exact hi1
      have := h3 i hi
      unfold vfn at this
      rw [Array.getD_eq_getD_getElem?, Array.getElem?_eq_getElem hi1] at this
      simp only [Option.getD_some] at this
      rw [this]
      simp only [specApply, Array.getElem_ofFn]
      rfl
  intro L
  induction L with
  | nil =>
    intro ψ hψ _
    exact ⟨ψ, rfl, hψ, fun i _ => rfl⟩
  | cons l rest ih =>
    intro ψ hψ hstep
    obtain ⟨ψ', h1, h2, h3⟩ := hstep l (by simp) ψ hψ
    obtain ⟨out, g1, g2, g3⟩ := ih ψ' h2 fun l' hl' => hstep l' (by simp [hl'])
    refine ⟨out, ?_, g2, fun i hi => ?_⟩
    · simp only [List.foldlM_cons, h1]
      exact g1
    · rw [g3 i hi]
      simp only [specFn, List.foldl_cons]
      -- the fold only looks at the values below 2^n
      have key : ∀ (Ls : List (Layer (Mat R))) (v w : ℕ → R), (∀ j < 2 ^ n, v j = w j) →
          ∀ j < 2 ^ n, Ls.foldl (fun v l => mulVec (2 ^ n) (layerMat l) v) v j =
            Ls.foldl (fun v l => mulVec (2 ^ n) (layerMat l) v) w j := by
        intro Ls
        induction Ls with
        | nil => intro v w h j hj; exact h j hj
        | cons l' Ls ih' =>
          intro v w h j hj
          simp only [List.foldl_cons]
          exact ih' _ _ (fun j' _ => mulVec_congr (fun _ _ => rfl) h) j hj
      exact key rest _ _ h3 i hi

end QG.Lemmas.Backend
