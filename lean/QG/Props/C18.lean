import QG.Lemmas.AlgorithmsQFT

/-!
# C18 — bundled benchmark circuits have their documented ideal outcome

Property theorems only.  Model (the functions the driver executable `drv_c18` prints and the
harness compares with the real generators' `circuit.data` on every run):
`QG/Model/Algorithms.lean` — `hadamardReverseQft`, `ghz` (`ghzCirc`), `qft : ℕ → List Gate`.
Meaning of an instruction list: `QG/Spec/Ket.lean` — `run : List Gate → St →ₗ[ℂ] St` with
`St = (ℕ → Bool) →₀ ℂ`, at the real values `r = 1/√2`, `w k = exp(iπ/2^k)`; barriers and the terminal
measurements act as the identity, `prob ψ b = |⟨b|ψ⟩|²` is the probability of reading `b`, and
`measure_identity_map` / `measures_terminal` say which classical bit receives which qubit and that the
measurements come last.  Helper lemmas (for abstract `r`, `w` with `2r² = 1`, `w k · w' k = 1`,
`w 0 = −1`, `(w (k+1))² = w k`): `QG/Lemmas/Algorithms.lean`, `QG/Lemmas/AlgorithmsQFT.lean`.

Integers are read little-endian as Qiskit does: `val n b = Σ_{q<n} b_q 2^q`;
`revVal n b = Σ_{q<n} b_q 2^{n−1−q}` is the value of the bit-reversed pattern
(`revVal_is_bit_reversal`).
-/
namespace QG.C18
open QG.Model.Algorithms QG.Spec.Ket QG.Lemmas.Algorithms

/-! ## GHZ -/

/-- `ghz_circ(n)` exists for every `n ≥ 1` (and raises qiskit's `CircuitError` for `n = 0`: `h(0)` on
an empty register) -/
theorem ghz_circ_total (n : ℕ) : ghzCirc n = if n = 0 then .error .circuitError else .ok (ghz n) := rfl

/-- **GHZ.**  For every `n ≥ 1` the circuit maps `|0…0⟩` to `(|0…0⟩ + |1…1⟩)/√2`. -/
theorem ghz_state (n : ℕ) (hn : 1 ≤ n) :
    run (ghz n) (ket zero) = rHalf • (ket zero + ket (ones n)) := by
  unfold run ghz
  rw [runP_append_apply, runP_measureAll, ghzBody_state _ _ _ n hn]
  rfl

/-- … hence all-zeros and all-ones are read with probability ½ each and nothing else is read. -/
theorem ghz_probabilities (n : ℕ) (hn : 1 ≤ n) :
    prob (run (ghz n) (ket zero)) zero = 1 / 2 ∧
    prob (run (ghz n) (ket zero)) (ones n) = 1 / 2 ∧
    ∀ b, b ≠ zero → b ≠ ones n → prob (run (ghz n) (ket zero)) b = 0 := by
  rw [ghz_state n hn]
  have hne := zero_ne_ones n hn
  refine ⟨?_, ?_, ?_⟩
  · simp [prob, ket, hne.symm, normSq_rHalf]
  · simp [prob, ket, hne, normSq_rHalf]
  · intro b h0 h1
    simp [prob, ket, h0.symm, h1.symm]

example : ghz 3 = [.h 0, .cx 0 1, .cx 0 2, .barrier [0, 1, 2], .measure 0 0, .measure 1 1, .measure 2 2] := by
  decide
example : ghz 1 = [.h 0, .barrier [0], .measure 0 0] := by decide
example : ones 3 ≠ zero := fun h => (zero_ne_ones 3 (by decide)) h.symm

/-! ## Hadamard / inverse QFT -/

/-- **Hadamard / inverse QFT.**  For every `n` the circuit maps `|0…0⟩` back to `|0…0⟩`. -/
theorem hinvqft_zero (n : ℕ) : run (hadamardReverseQft n) (ket zero) = ket zero := by
  unfold run hadamardReverseQft
  rw [runP_append_apply, runP_measureAll,
    hinvqftBody_zero _ _ _ rHalf_sq wPhase_mul_wPhase' n]
  rfl

/-- … hence all-zeros is read with probability 1. -/
theorem hinvqft_probability (n : ℕ) :
    prob (run (hadamardReverseQft n) (ket zero)) zero = 1 ∧
    ∀ b, b ≠ zero → prob (run (hadamardReverseQft n) (ket zero)) b = 0 := by
  rw [hinvqft_zero n]
  refine ⟨by simp [prob, ket], fun b hb => ?_⟩
  simp [prob, ket, hb.symm]

example : hadamardReverseQft 3 =
    [.h 2, .h 1, .h 0, .swap 0 2, .h 0, .cp true 1 0 1, .h 1, .cp true 1 1 2, .cp true 2 0 2, .h 2,
     .barrier [0, 1, 2], .measure 0 0, .measure 1 1, .measure 2 2] := by decide

/-! ## QFT -/

/-- `revVal` is the little-endian value of the bit-reversed pattern -/
theorem revVal_is_bit_reversal (n : ℕ) (b : Bits) : revVal n b = val n (fun q => b (n - 1 - q)) :=
  revVal_eq_val_reflect n b

/-- the prefactor `(1/√2)^n` is `2^{−n/2}` -/
theorem rHalf_pow_sq (n : ℕ) : (rHalf ^ n) ^ 2 = 1 / 2 ^ n := by
  have h : rHalf ^ 2 = 1 / 2 := by
    have := rHalf_sq
    rw [pow_two]; linear_combination this / 2
  rw [← pow_mul, mul_comm, pow_mul, h, one_div, one_div, inv_pow]

/-- **QFT = DFT up to the documented missing final bit reversal.**  For every `n ≥ 1` and every basis
ket `|x⟩` (qubits `≥ n` are spectators and keep their value)
`run (qft n) |x⟩ = 2^{−n/2} Σ_{y ∈ {0,1}^n} ω^{x · rev y} |y⟩`, `ω = exp(2πi/2^n)`,
where `y` ranges over the subsets `t` of `{0,…,n−1}` (`y = ind t`), `x = val n x` and
`rev y = revVal n y`.  In matrix terms (Qiskit's little-endian indexing): `Operator(qft_circ(n)) = P·F`
with `F` the DFT matrix and `P` the bit-reversal permutation. -/
theorem qft_is_dft (n : ℕ) (hn : 1 ≤ n) (x : Bits) :
    run (qft n) (ket x)
      = rHalf ^ n • ∑ t ∈ (Finset.range n).powerset,
          Complex.exp (2 * Real.pi * Complex.I / 2 ^ n) ^ (val n x * revVal n (ind t))
            • ket (setLow n x t) := by
  unfold run qft
  rw [runP_append_apply, runP_measureAll, LinearMap.id_apply, rotations_ket]
  congr 1
  refine Finset.sum_congr rfl fun t ht => ?_
  rw [prod_ePh_eq_dft wPhase wPhase_zero wPhase_succ_sq n x t (Finset.mem_powerset.mp ht),
    wPhase_pred n hn]

/-- the same as a statement about matrix entries: for `n`-bit patterns `x = ind s`, `y = ind t` the
amplitude `⟨y| QFT |x⟩` is `2^{−n/2} ω^{x · rev y}` -/
theorem qft_matrix_entry (n : ℕ) (hn : 1 ≤ n) (s t : Finset ℕ)
    (hs : s ⊆ Finset.range n) (ht : t ⊆ Finset.range n) :
    run (qft n) (ket (ind s)) (ind t)
      = rHalf ^ n * Complex.exp (2 * Real.pi * Complex.I / 2 ^ n) ^ (val n (ind s) * revVal n (ind t)) := by
  rw [qft_is_dft n hn]
  have e : ∀ u ∈ (Finset.range n).powerset,
      Complex.exp (2 * Real.pi * Complex.I / 2 ^ n) ^ (val n (ind s) * revVal n (ind u))
          • ket (setLow n (ind s) u)
        = Complex.exp (2 * Real.pi * Complex.I / 2 ^ n) ^ (val n (ind s) * revVal n (ind u))
          • ket (ind u) := by
    intro u hu
    rw [setLow_ind n s u hs (Finset.mem_powerset.mp hu)]
  rw [Finset.sum_congr rfl e, Finsupp.smul_apply,
    sum_ket_ind_apply _ (fun u => Complex.exp (2 * Real.pi * Complex.I / 2 ^ n) ^ (val n (ind s) * revVal n (ind u)))
      t (Finset.mem_powerset.mpr ht)]
  rfl

example : (1 : ℕ) ≤ 3 ∧ ({0, 2} : Finset ℕ) ⊆ Finset.range 3 ∧ ({0} : Finset ℕ) ⊆ Finset.range 3 := by decide

/-- on `|0…0⟩` the QFT gives the uniform superposition -/
theorem qft_zero_uniform (n : ℕ) :
    run (qft n) (ket zero) = rHalf ^ n • ∑ t ∈ (Finset.range n).powerset, ket (ind t) := by
  unfold run qft
  rw [runP_append_apply, runP_measureAll, LinearMap.id_apply, rotations_zero]
  simp [unif]

example : qft 3 = [.h 2, .cp false 2 0 2, .cp false 1 1 2, .h 1, .cp false 1 0 1, .h 0,
    .barrier [0, 1, 2], .measure 0 0, .measure 1 1, .measure 2 2] := by decide
example : qft 1 = [.h 0, .barrier [0], .measure 0 0] := by decide
/-- the reversal is not the identity: `x = 5 = 101₂`, `y = 1 = 001₂`, `rev y = 4 = 100₂` -/
example : val 3 (ind {0, 2}) = 5 ∧ revVal 3 (ind {0}) = 4 ∧ val 3 (ind {0}) = 1 := by
  simp [val, revVal, ind, Finset.sum_range_succ]

/-! ## measurements -/

/-- **every generator measures qubit `q` into classical bit `q`**, `q = 0, …, n−1`, each exactly once
(the list of `(qubit, clbit)` pairs of the measurement instructions, in program order) -/
theorem measure_identity_map (n : ℕ) :
    ∀ g ∈ [hadamardReverseQft n, ghz n, qft n], measurePairs g = (List.range n).map fun q => (q, q) := by
  intro g hg
  simp only [List.mem_cons, List.not_mem_nil, or_false] at hg
  rcases hg with rfl | rfl | rfl
  · rw [hadamardReverseQft, measurePairs_append_of_unitary _ _
      (fun g hg => unitary_ne_measure (hadamardReverseQftBody_unitary n g hg)), measurePairs_measureAll]
  · rw [ghz, measurePairs_append_of_unitary _ _
      (fun g hg => unitary_ne_measure (ghzBody_unitary n g hg)), measurePairs_measureAll]
  · rw [qft, measurePairs_append_of_unitary _ _
      (fun g hg => unitary_ne_measure (qftRotations_unitary n g hg)), measurePairs_measureAll]

/-- spelled out: no pair occurs twice, and `(q, c)` is measured iff `q < n` and `c = q` -/
theorem measure_each_qubit_once (n : ℕ) :
    ∀ g ∈ [hadamardReverseQft n, ghz n, qft n],
      (measurePairs g).Nodup ∧ ∀ q c, (q, c) ∈ measurePairs g ↔ (q < n ∧ c = q) := by
  intro g hg
  rw [measure_identity_map n g hg]
  refine ⟨?_, ?_⟩
  · exact (List.nodup_range).map (fun a b h => by simpa using congrArg Prod.fst h)
  · intro q c
    simp only [List.mem_map, List.mem_range, Prod.mk.injEq]
    constructor
    · rintro ⟨a, ha, rfl, rfl⟩; exact ⟨ha, rfl⟩
    · rintro ⟨hq, rfl⟩; exact ⟨_, hq, rfl, rfl⟩

/-- the measurements are terminal: every generator is a list of unitary gates (`h`, `cp`, `swap`,
`cx` only) followed by one barrier and the `n` measurements — so `run` of the whole list is the state
that is measured -/
theorem measures_terminal (n : ℕ) :
    ∀ g ∈ [hadamardReverseQft n, ghz n, qft n],
      ∃ body, g = body ++ measureAll n ∧ ∀ x ∈ body, Gate.IsUnitary x := by
  intro g hg
  simp only [List.mem_cons, List.not_mem_nil, or_false] at hg
  rcases hg with rfl | rfl | rfl
  · exact ⟨_, rfl, hadamardReverseQftBody_unitary n⟩
  · exact ⟨_, rfl, ghzBody_unitary n⟩
  · exact ⟨_, rfl, qftRotations_unitary n⟩

end QG.C18
