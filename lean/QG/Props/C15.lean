import QG.Lemmas.DevParamsIO

/-!
# C15 — device parameters survive a save / load round trip unchanged

Property theorems only (model: `QG/Model/DevParamsIO.lean`, helper lemmas: `QG/Lemmas/DevParamsIO.lean`).

Vocabulary.  `L = len(qubits_layout) ≥ 1`, `m = max(qubits_layout) + 1 ≥ 1` (side of the two interaction tables),
`Valid L m dp`: `dp` passes `is_complete()` and its arrays have the shapes `load_from_backend` produces
(`T1, T2, p, rout, tm : (L,)`, `p_int, t_int : (m, m)`, `dt : (1,)`).  The values are arbitrary tokens (doubles
are opaque; the round trip of one double through `'%.18e'` / `repr` is the trusted assumption, see the model).
`canon md` is the metadata after `json.load ∘ json.dump(default=default_serializer)`; the only assumption on it
is idempotence.  `L = 1 ∨ 2 ≤ m` holds for every layout of pairwise different labels (`layout_side`): the text
format cannot represent a `(1, 1)` table next to vectors of length ≥ 2, which needs a repeated label.
An exception is the second component of the result (`some .fileNotFound` = `FileNotFoundError`), the first
component is the object / file system as it is when the call returns or raises.
-/
namespace QG.C15
open QG.Model.DevParamsIO QG.Lemmas.DevParamsIO

variable {Tok Loc : Type} [DecidableEq Loc] (canon : Tok → Tok)

/-- the shape of attribute `f` for `L` qubits and table side `m` -/
def shapeOf (L m : Nat) : Field → List Nat
  | .T1 | .T2 | .p | .rout | .tm => [L]
  | .pInt | .tInt => [m, m]
  | .dt => [1]

/-- the objects the property quantifies over -/
structure Valid (L m : Nat) (dp : DevParams Tok) : Prop where
  nq : dp.nq = L
  arrays : ∀ f, ∃ a, dp.arr f = some a ∧ a.shape = shapeOf L m f ∧ a.data.length = prod a.shape
  md : ∃ t, dp.md = some t

/-- what a round trip returns: the same object with canonicalised metadata -/
def reloaded (dp : DevParams Tok) : DevParams Tok := { dp with md := dp.md.map canon }

/-- side of the tables made by `load_from_backend`: `np.max(qubits_layout) + 1` -/
def tableSide (layout : List Nat) : Nat := layout.foldr max 0 + 1

/-- files a load needs -/
def required : Fmt → List FName
  | .texts => textFiles
  | .json => [.json]

/-- one cycle of a history: save the current object, then load into a new `DeviceParameters(layout)` -/
def cycle (fmt : Fmt) (loc : Loc) :
    FS Loc Tok × DevParams Tok → (FS Loc Tok × DevParams Tok) × Option Err := fun st =>
  match save canon fmt st.1 loc st.2 with
  | (fs', some e) => ((fs', st.2), some e)
  | (fs', none) =>
    match load fmt fs' loc (DevParams.fresh st.2.nq) with
    | (dp', e) => ((fs', dp'), e)

private theorem shapeOf_eq (L m : Nat) (f : Field) : shapeOf L m f = expectedShape L m f := by
  cases f <;> rfl

private theorem valid_mk {L m : Nat} {dp : DevParams Tok} (h : Valid L m dp) :
    ∃ a md, Shaped L m a ∧ dp = mkDP L a md := by
  obtain ⟨hnq, harr, md, hmd⟩ := h
  choose a ha using harr
  refine ⟨a, md, fun f => ⟨by rw [← shapeOf_eq]; exact (ha f).2.1, (ha f).2.2⟩, ?_⟩
  obtain ⟨nq, arr, md'⟩ := dp
  simp only [mkDP] at *
  subst hnq hmd
  congr 1
  funext f
  exact (ha f).1

private theorem reloaded_mk (L : Nat) (a : Field → Arr Tok) (md : Tok) :
    reloaded canon (mkDP L a md) = mkDP L a (canon md) := rfl

private theorem valid_reloaded {L m : Nat} {dp : DevParams Tok} (h : Valid L m dp) : Valid L m (reloaded canon dp) := by
  obtain ⟨hnq, harr, md, hmd⟩ := h
  exact ⟨hnq, harr, canon md, by simp [reloaded, hmd]⟩

/-! ## the round trip -/

/-- **Text format.**  Saving a valid object succeeds and loading the files into any object made for the same
layout (new or already filled) succeeds and gives the same `nr_of_qubits`, the same eight arrays — equal shapes,
identical values — and the canonicalised metadata, for every `L ≥ 1` and `m ≥ 1`, including the one-qubit layouts
(`L = 1`, any `m`).  Other locations and `device_parameters.json` are untouched. -/
theorem texts_roundtrip (fs : FS Loc Tok) (loc : Loc) (L m : Nat) (hL : 1 ≤ L) (hm : 1 ≤ m) (hLm : L = 1 ∨ 2 ≤ m)
    (dp : DevParams Tok) (hv : Valid L m dp) (tgt : DevParams Tok) (htgt : tgt.nq = L) :
    ∃ fs', saveTexts canon fs loc dp = (fs', none) ∧
      loadTexts fs' loc tgt = (reloaded canon dp, none) ∧
      (∀ l n, l ≠ loc → fs' l n = fs l n) ∧ fs' loc .json = fs loc .json := by
  obtain ⟨a, md, ha, rfl⟩ := valid_mk hv
  exact texts_roundtrip_mk canon fs loc L m hL hm hLm a ha md tgt htgt

/-- **JSON format.**  The same for `save_to_json` / `load_from_json`, for every `L ≥ 1`, `m ≥ 1`. -/
theorem json_roundtrip (fs : FS Loc Tok) (loc : Loc) (L m : Nat) (hL : 1 ≤ L) (hm : 1 ≤ m)
    (dp : DevParams Tok) (hv : Valid L m dp) (tgt : DevParams Tok) (htgt : tgt.nq = L) :
    ∃ fs', saveJson canon fs loc dp = (fs', none) ∧
      loadJson fs' loc tgt = (reloaded canon dp, none) ∧
      (∀ l n, (l ≠ loc ∨ n ≠ .json) → fs' l n = fs l n) := by
  obtain ⟨a, md, ha, rfl⟩ := valid_mk hv
  exact json_roundtrip_mk canon fs loc L m hL hm a ha md tgt htgt

/-- what "the same" means for the reloaded object: layout size, every array (shape and values) and the
completeness flag are those of the original -/
theorem reloaded_arrays (dp : DevParams Tok) :
    (reloaded canon dp).nq = dp.nq ∧ (∀ f, (reloaded canon dp).arr f = dp.arr f) ∧
      (reloaded canon dp).isComplete = dp.isComplete := by
  refine ⟨rfl, fun _ => rfl, ?_⟩
  simp [reloaded, DevParams.isComplete]

/-- the reloaded object compares equal to the original (`__eq__` compares the `__str__` forms) -/
theorem reloaded_eq [DecidableEq Tok] (hc : ∀ t, canon (canon t) = canon t) (L m : Nat)
    (dp : DevParams Tok) (hv : Valid L m dp) :
    dpEq canon (reloaded canon dp) dp = true := by
  obtain ⟨a, md, _, rfl⟩ := valid_mk hv
  simp [dpEq, reloaded_mk, strOf_canon canon hc]

/-- **Repeated cycles, any mixture of formats and locations, on any pre-existing file system**: every cycle
succeeds; after at least one cycle the object is `reloaded dp` (a fixed point), whatever the number of cycles. -/
theorem roundtrip_iter (hc : ∀ t, canon (canon t) = canon t) (L m : Nat) (hL : 1 ≤ L) (hm : 1 ≤ m)
    (hLm : L = 1 ∨ 2 ≤ m) (plan : List (Fmt × Loc)) (fs : FS Loc Tok) (dp : DevParams Tok) (hv : Valid L m dp) :
    ∃ fs', runSteps (plan.map fun x => cycle canon x.1 x.2) (fs, dp) =
      ((fs', if plan = [] then dp else reloaded canon dp), none) := by
  induction plan generalizing fs dp with
  | nil => exact ⟨fs, rfl⟩
  | cons x plan ih =>
    obtain ⟨fmt, loc⟩ := x
    have hfresh : (DevParams.fresh dp.nq : DevParams Tok).nq = L := hv.nq
    have hstep : ∃ fs1, cycle canon fmt loc (fs, dp) = ((fs1, reloaded canon dp), none) := by
      cases fmt with
      | texts =>
        obtain ⟨fs1, h1, h2, _⟩ := texts_roundtrip canon fs loc L m hL hm hLm dp hv _ hfresh
        exact ⟨fs1, by simp [cycle, save, load, h1, h2]⟩
      | json =>
        obtain ⟨fs1, h1, h2, _⟩ := json_roundtrip canon fs loc L m hL hm dp hv _ hfresh
        exact ⟨fs1, by simp [cycle, save, load, h1, h2]⟩
    obtain ⟨fs1, h1⟩ := hstep
    obtain ⟨fs2, h2⟩ := ih fs1 (reloaded canon dp) (valid_reloaded canon hv)
    refine ⟨fs2, ?_⟩
    simp only [List.map_cons, runSteps, h1, h2]
    have hidem : reloaded canon (reloaded canon dp) = reloaded canon dp := by
      obtain ⟨a, md, _, rfl⟩ := valid_mk hv
      simp [reloaded_mk, hc]
    by_cases hp : plan = []
    · simp [hp]
    · simp [hp, hidem]

/-- every layout of pairwise different labels is covered: one qubit, or tables of side at least two -/
theorem layout_side (layout : List Nat) (hnd : layout.Nodup) :
    layout.length = 1 ∨ layout = [] ∨ 2 ≤ tableSide layout := by
  match layout, hnd with
  | [], _ => exact Or.inr (Or.inl rfl)
  | [_], _ => exact Or.inl rfl
  | x :: y :: rest, hnd =>
    right; right
    have hxy : x ≠ y := by
      intro h
      simp [h] at hnd
    simp only [tableSide, List.foldr_cons]
    omega

/-- the text round trip stated for a layout -/
theorem texts_roundtrip_layout (fs : FS Loc Tok) (loc : Loc) (layout : List Nat) (hne : layout ≠ [])
    (hnd : layout.Nodup) (dp : DevParams Tok) (hv : Valid layout.length (tableSide layout) dp) :
    ∃ fs', saveTexts canon fs loc dp = (fs', none) ∧
      loadTexts fs' loc (DevParams.fresh layout.length) = (reloaded canon dp, none) := by
  have hL : 1 ≤ layout.length := List.length_pos_iff.2 hne
  have hm : 1 ≤ tableSide layout := by simp [tableSide]
  have hLm : layout.length = 1 ∨ 2 ≤ tableSide layout := by
    rcases layout_side layout hnd with h | h | h
    · exact Or.inl h
    · exact absurd h hne
    · exact Or.inr h
  obtain ⟨fs', h1, h2, _⟩ := texts_roundtrip canon fs loc _ _ hL hm hLm dp hv (DevParams.fresh layout.length) rfl
  exact ⟨fs', h1, h2⟩

/-! ## missing files -/

omit [DecidableEq Loc] in
/-- **Any missing file ⇒ `FileNotFoundError`, raised before any attribute is assigned**: the object is exactly
what it was (a new object stays empty, an already loaded one keeps its old values). -/
theorem missing_file_raises (fmt : Fmt) (fs : FS Loc Tok) (loc : Loc) (tgt : DevParams Tok)
    (hmiss : ∃ n ∈ required fmt, fs loc n = none) :
    load fmt fs loc tgt = (tgt, some .fileNotFound) := by
  obtain ⟨n, hn, hnone⟩ := hmiss
  cases fmt with
  | json =>
    simp only [required, List.mem_singleton] at hn
    subst hn
    simp [load, loadJson, hnone]
  | texts =>
    have hall : textFiles.all (fun n => (fs loc n).isSome) = false := by
      rw [List.all_eq_false]
      exact ⟨n, hn, by simp [hnone]⟩
    simp [load, loadTexts, runSteps, stepExistTxt, hall]

omit [DecidableEq Loc] in
/-- conversely `FileNotFoundError` is raised only when a required file is missing -/
theorem fileNotFound_only_if_missing (fmt : Fmt) (fs : FS Loc Tok) (loc : Loc) (tgt dp' : DevParams Tok)
    (h : load fmt fs loc tgt = (dp', some .fileNotFound)) : ∃ n ∈ required fmt, fs loc n = none := by
  by_contra hcon
  have hall : ∀ n ∈ required fmt, ∃ f, fs loc n = some f := by
    intro n hn
    cases hf : fs loc n with
    | none => exact absurd ⟨n, hn, hf⟩ hcon
    | some f => exact ⟨f, rfl⟩
  cases fmt with
  | json =>
    obtain ⟨f, hf⟩ := hall .json (by simp [required])
    simp only [load, loadJson, hf] at h
    cases f with
    | txt _ => simp at h
    | mdata _ => simp at h
    | doc fields md =>
      cases md with
      | none => simp at h
      | some mdv =>
        simp only at h
        split at h
        · obtain ⟨st, hst, s0, hs0⟩ := runSteps_error _ _ _ _ h
          simp only [List.mem_append, List.mem_map, List.mem_cons, List.not_mem_nil, or_false] at hst
          rcases hst with ⟨g, _, rfl⟩ | rfl | rfl
          · unfold stepLoadKey at hs0
            cases hl : List.lookup g.key fields with
            | none => simp [hl] at hs0
            | some v =>
              simp only [hl] at hs0
              cases hv : npArray v with
              | ok a => simp [hv] at hs0
              | error e =>
                simp only [hv] at hs0
                -- `np.array` raises `ValueError` only
                have : e = .value := npArray_error v e hv
                subst this
                simp at hs0
          · simp at hs0
          · unfold stepVerify at hs0
            split at hs0 <;> simp at hs0
        · simp at h
  | texts =>
    have hall' : textFiles.all (fun n => (fs loc n).isSome) = true := by
      rw [List.all_eq_true]
      intro n hn
      obtain ⟨f, hf⟩ := hall n hn
      simp [hf]
    simp only [load, loadTexts] at h
    obtain ⟨st, hst, s0, hs0⟩ := runSteps_error _ _ _ _ h
    simp only [List.mem_cons, List.mem_append, List.mem_map, List.not_mem_nil, or_false] at hst
    rcases hst with rfl | ⟨g, _, rfl⟩ | rfl | rfl
    · simp [stepExistTxt, hall'] at hs0
    · obtain ⟨f, hf⟩ := hall g.file (by cases g <;> simp [required, textFiles, Field.file])
      unfold stepLoadTxt at hs0
      rw [hf] at hs0
      cases f with
      | txt lines =>
        simp only at hs0
        cases hl : loadField s0.nq g lines with
        | ok a => simp [hl] at hs0
        | error e =>
          have : e = .value := loadField_error _ _ _ e hl
          subst this
          simp [hl] at hs0
      | doc _ _ => simp at hs0
      | mdata _ => simp at hs0
    · obtain ⟨f, hf⟩ := hall .mdata (by simp [required, textFiles])
      unfold stepLoadMeta at hs0
      rw [hf] at hs0
      cases f <;> simp at hs0
    · unfold stepVerify at hs0
      split at hs0 <;> simp at hs0

omit [DecidableEq Loc] in
/-- **No partially filled object reports itself complete**: whenever a load into an object without metadata
(in particular a new `DeviceParameters(layout)`) raises — whatever the exception, whatever the files contain —
`is_complete()` is `False` afterwards. -/
theorem failed_load_incomplete (fmt : Fmt) (fs : FS Loc Tok) (loc : Loc) (tgt dp' : DevParams Tok) (e : Err)
    (hmd : tgt.md = none) (h : load fmt fs loc tgt = (dp', some e)) : dp'.isComplete = false := by
  cases fmt with
  | texts => exact loadTexts_fails_incomplete fs loc tgt dp' e hmd h
  | json => exact loadJson_fails_incomplete fs loc tgt dp' e hmd h

/-- saving an object that does not pass the completeness check raises and writes nothing -/
theorem save_incomplete_raises (fmt : Fmt) (fs : FS Loc Tok) (loc : Loc) (dp : DevParams Tok)
    (h : dp.isComplete = false) : save canon fmt fs loc dp = (fs, some .exception) := by
  cases fmt <;> simp [save, saveTexts, saveJson, h]

/-! ## the hypotheses are satisfiable; the statements are not vacuous -/

section examples

/-- one qubit with label 2 (`L = 1`, `m = 3`); tokens are numbers -/
def dp1 : DevParams Nat :=
  ⟨1, fun f => some (match f with
      | .pInt => ⟨[3, 3], [10, 11, 12, 13, 14, 15, 16, 17, 18]⟩
      | .tInt => ⟨[3, 3], [20, 21, 22, 23, 24, 25, 26, 27, 28]⟩
      | .T1 => ⟨[1], [1]⟩ | .T2 => ⟨[1], [2]⟩ | .p => ⟨[1], [3]⟩ | .rout => ⟨[1], [4]⟩
      | .tm => ⟨[1], [5]⟩ | .dt => ⟨[1], [6]⟩), some 99⟩

/-- two qubits with labels 0 and 1 (`L = 2`, `m = 2`) -/
def dp2 : DevParams Nat :=
  ⟨2, fun f => some (match f with
      | .pInt => ⟨[2, 2], [10, 11, 12, 13]⟩
      | .tInt => ⟨[2, 2], [20, 21, 22, 23]⟩
      | .T1 => ⟨[2], [1, 7]⟩ | .T2 => ⟨[2], [2, 7]⟩ | .p => ⟨[2], [3, 7]⟩ | .rout => ⟨[2], [4, 7]⟩
      | .tm => ⟨[2], [5, 7]⟩ | .dt => ⟨[1], [6]⟩), some 99⟩

example : Valid 1 3 dp1 :=
  ⟨rfl, fun f => by cases f <;> exact ⟨_, rfl, rfl, rfl⟩, 99, rfl⟩
example : Valid 2 2 dp2 :=
  ⟨rfl, fun f => by cases f <;> exact ⟨_, rfl, rfl, rfl⟩, 99, rfl⟩
example : (1 : Nat) = 1 ∨ 2 ≤ 3 := Or.inl rfl
example : tableSide [2] = 3 ∧ tableSide [0, 1] = 2 ∧ [0, 1].Nodup := by decide
-- idempotent canonicalisations exist: the identity (metadata that is plain JSON) and a non-trivial one
example : ∀ t : Nat, id (id t) = id t := fun _ => rfl
example : ∀ t : Nat, (fun t => t % 10) ((fun t => t % 10) t) = (fun t => t % 10) t := fun t => Nat.mod_mod t 10

/-- the empty file system -/
def noFiles : FS Unit Nat := fun _ _ => none

-- the model, executed: the one-qubit text round trip returns the `(3,3)` tables and the `(1,)` vectors
example : ((loadTexts (saveTexts id noFiles () dp1).1 () (DevParams.fresh 1)).1.arr .pInt) = dp1.arr .pInt := by
  decide
example : ((loadTexts (saveTexts id noFiles () dp1).1 () (DevParams.fresh 1)).1.arr .T1) = dp1.arr .T1 := by
  decide
example : (loadTexts (saveTexts id noFiles () dp1).1 () (DevParams.fresh 1)).2 = none := by decide
example : ((loadJson (saveJson id noFiles () dp2).1 () (DevParams.fresh 2)).1.arr .tInt) = dp2.arr .tInt := by
  decide
-- D15: the unrepaired one-qubit rule `np.array([np.loadtxt(f)])` turns the `(3,3)` table into `(1,3,3)` and a
-- `(1,1)` table into `(1,)`
example : ((savetxt (⟨[3, 3], [10, 11, 12, 13, 14, 15, 16, 17, 18]⟩ : Arr Nat)).bind (loadtxt 0)).map wrap
    = .ok ⟨[1, 3, 3], [10, 11, 12, 13, 14, 15, 16, 17, 18]⟩ := by decide
example : ((savetxt (⟨[1, 1], [10]⟩ : Arr Nat)).bind (loadtxt 0)).map wrap = .ok ⟨[1], [10]⟩ := by decide
-- a missing file: `FileNotFoundError`, and the new object is not complete
example : (loadTexts ((saveTexts id noFiles () dp2).1.delete () .tm) () (DevParams.fresh 2)).2
    = some .fileNotFound := by decide
example : (loadTexts ((saveTexts id noFiles () dp2).1.delete () .tm) () (DevParams.fresh 2)).1.isComplete
    = false := by decide
-- `failed_load_incomplete` has instances with a half-filled object: a ragged `rout.txt` raises `ValueError`
-- after `T1`, `T2`, `p` have been assigned
example :
    let fs := (saveTexts id noFiles () dp2).1.write () .rout (.txt [[1, 2], [3]])
    let r := loadTexts fs () (DevParams.fresh 2)
    r.2 = some .value ∧ r.1.arr .T1 = dp2.arr .T1 ∧ r.1.arr .rout = none ∧ r.1.isComplete = false := by
  decide

end examples

end QG.C15
