import Mathlib.Tactic
import QG.Lemmas.GatesDet
import QG.Lemmas.GatesUnitary

/-!
# C05 — each sampled gate contracts volume by exactly its qubits' T1 decay

`QG.Gen.*` is regenerated from `factories.py` on every run.  The statements hold for **all** sample
records `w` (no sample-to-sample fluctuation), all pulse shapes `F` (continuous), all phases, angles
and durations; `p`, `T2` and the two-qubit error do not occur on the right-hand sides.
`decay tau T1 = tau / T1` (`0` when `T1 = 0`, "off").  With `d = dim / 2`: a 2x2 gate has
`det = exp(-(1/2) tau/T1)`, a 4x4 gate `det = exp(-(tau_c/T1_c + tau_t/T1_t))`; the ideal gates all
have determinant one (`det U = 1`, `det (-i X ⊗ 1) = 1`, `i⁴ = 1`).
-/
namespace QG.C05
open QG.Gen QG.Lemmas.Gates Matrix
open scoped Matrix.Norms.Operator

/-! ## elementary gates -/

theorem single_qubit_det (F : ℝ → ℝ) (hF : Continuous F) (theta phi p T1 T2 : ℝ) (hT1 : 0 ≤ T1)
    (w : SingleQubit.Samples) :
    (SingleQubit.construct F theta phi p T1 T2 w).det
      = Complex.exp ((-(decay SingleQubit.tg T1) / 2 : ℝ) : ℂ) := by
  obtain ⟨h0, h1, h2⟩ := sq_env_rel F theta phi p T1 T2 w
  unfold SingleQubit.construct SingleQubit.gate
  rw [det_gate_form, sq_det_U _ h0 h1 h2, sq_trace_noise, sq_trace_drift, one_mul, add_zero]
  congr 1
  have e : (SingleQubit.envOf F theta phi p T1 T2 w).e1 = ((SingleQubit.e1 T1 : ℝ) : ℂ) := rfl
  have d1 : (SingleQubit.envOf F theta phi p T1 T2 w).det1 = ((SingleQubit.det1 F theta : ℝ) : ℂ) := rfl
  have d3 : (SingleQubit.envOf F theta phi p T1 T2 w).det3 = ((SingleQubit.det3 F theta : ℝ) : ℂ) := rfl
  rw [e, d1, d3, ← Complex.ofReal_add, sq_det1_add_det3 F hF, ← Complex.ofReal_pow, sq_e1_sq T1 hT1]
  push_cast; ring

theorem x_det (F : ℝ → ℝ) (hF : Continuous F) (phi p T1 T2 : ℝ) (hT1 : 0 ≤ T1) (w : X.Samples) :
    (X.construct F phi p T1 T2 w).det = Complex.exp ((-(decay SingleQubit.tg T1) / 2 : ℝ) : ℂ) := by
  unfold X.construct; exact single_qubit_det F hF _ _ _ _ _ hT1 _

theorem sx_det (F : ℝ → ℝ) (hF : Continuous F) (phi p T1 T2 : ℝ) (hT1 : 0 ≤ T1) (w : SX.Samples) :
    (SX.construct F phi p T1 T2 w).det = Complex.exp ((-(decay SingleQubit.tg T1) / 2 : ℝ) : ℂ) := by
  unfold SX.construct; exact single_qubit_det F hF _ _ _ _ _ hT1 _

private theorem a_mul_decay (t_cr T1 : ℝ) : CR.a t_cr * decay CR.tg T1 = decay t_cr T1 := by
  unfold CR.a decay CR.tg
  split_ifs with h
  · simp
  · field_simp

theorem cr_det (F : ℝ → ℝ) (hF : Continuous F) (theta phi t_cr p_cr T1c T2c T1t T2t : ℝ)
    (hc : 0 ≤ T1c) (ht : 0 ≤ T1t) (w : CR.Samples) :
    (CR.construct F theta phi t_cr p_cr T1c T2c T1t T2t w).det
      = Complex.exp ((-(decay t_cr T1c + decay t_cr T1t) : ℝ) : ℂ) := by
  obtain ⟨h0, h1, h2⟩ := cr_env_rel F theta phi t_cr p_cr T1c T2c T1t T2t w
  have hU := cr_det_U _ h0 h1 h2
  unfold CR.construct CR.gate
  rw [det_gate_form, hU, cr_trace_noise, cr_trace_drift, one_mul, add_zero]
  congr 1
  have e1 : (CR.envOf F theta phi t_cr p_cr T1c T2c T1t T2t w).e1_ctr = ((CR.e1_ctr T1c : ℝ) : ℂ) := rfl
  have e2 : (CR.envOf F theta phi t_cr p_cr T1c T2c T1t T2t w).e1_trg = ((CR.e1_trg T1t : ℝ) : ℂ) := rfl
  have ea : (CR.envOf F theta phi t_cr p_cr T1c T2c T1t T2t w).a = ((CR.a t_cr : ℝ) : ℂ) := rfl
  have d1 : (CR.envOf F theta phi t_cr p_cr T1c T2c T1t T2t w).det1 = ((CR.det1 F theta t_cr : ℝ) : ℂ) := rfl
  have d3 : (CR.envOf F theta phi t_cr p_cr T1c T2c T1t T2t w).det3 = ((CR.det3 F theta t_cr : ℝ) : ℂ) := rfl
  rw [e1, e2, ea, d1, d3, ← Complex.ofReal_add, cr_det1_add_det3 F hF theta t_cr, ← Complex.ofReal_pow,
    ← Complex.ofReal_pow, cr_e1c_sq T1c hc, cr_e1t_sq T1t ht, ← a_mul_decay t_cr T1c, ← a_mul_decay t_cr T1t]
  push_cast; ring


theorem relaxation_det (Dt T1 T2 : ℝ) (hT1 : 0 ≤ T1) (w : Relaxation.Samples) :
    (Relaxation.construct Dt T1 T2 w).det = Complex.exp ((-(decay Dt T1) / 2 : ℝ) : ℂ) := by
  have hd : (Relaxation.e1 T1) ^ 2 * Relaxation.Dt_1 Dt = decay Dt T1 := by
    rw [relax_e1_sq T1 hT1]; unfold decay Relaxation.Dt_1 Relaxation.tg
    split_ifs with h
    · simp
    · field_simp
  simp only [Relaxation.construct, Relaxation.resultMat, Matrix.det_fin_two_of, mul_zero, sub_zero]
  rw [← Complex.exp_add, ← Complex.exp_add]
  congr 1
  rw [← hd]; push_cast; ring

theorem bitflip_det (tm rout : ℝ) (w : Bitflip.Samples) : (Bitflip.construct tm rout w).det = 1 := by
  simp only [Bitflip.construct, Bitflip.resultMat, Matrix.det_fin_two_of]
  have := Complex.cos_sq_add_sin_sq ((Bitflip.e rout tm : ℂ) * (w.W : ℂ))
  linear_combination this - (Complex.sin ((Bitflip.e rout tm : ℂ) * (w.W : ℂ))) ^ 2 * Complex.I_sq

theorem depolarizing_det (Dt p : ℝ) (w : Depolarizing.Samples) : (Depolarizing.construct Dt p w).det = 1 := by
  unfold Depolarizing.construct
  rw [QG.Spec.det_exp]
  have : (Depolarizing.noiseArg Dt p w).trace = 0 := by
    simp [Matrix.trace, Fin.sum_univ_two, Depolarizing.noiseArg, Depolarizing.I1Mat, Depolarizing.I2Mat,
      Depolarizing.I3Mat, Depolarizing.XMat, Depolarizing.YMat, Depolarizing.ZMat]
  rw [this, Complex.exp_zero]

/-! ## composite gates: `det` is multiplicative over the product tree read off the source; every constituent
contributes the decay of the qubit whose `T1` it was handed -/

theorem decay_add (a b T : ℝ) : decay (a + b) T = decay a T + decay b T := by
  unfold decay; split_ifs <;> ring
theorem decay_mul (k a T : ℝ) : decay (k * a) T = k * decay a T := by
  unfold decay; split_ifs <;> ring

theorem cnot_det (F : ℝ → ℝ) (hF : Continuous F) (phi_ctr phi_trg t_cnot p_cnot p_c p_t T1c T2c T1t T2t : ℝ)
    (hc : 0 ≤ T1c) (ht : 0 ≤ T1t) (w : CNOT.Samples) :
    (CNOT.construct F phi_ctr phi_trg t_cnot p_cnot p_c p_t T1c T2c T1t T2t w).det
      = Complex.exp ((-(decay t_cnot T1c + decay t_cnot T1t) : ℝ) : ℂ) := by
  have hq : Real.pi / 4 ≠ 0 := by positivity
  have hq' : -Real.pi / 4 ≠ 0 := by
    have := Real.pi_pos; intro h; linarith
  unfold CNOT.construct
  simp only [Matrix.det_mul, det_kron2, cr_det F hF _ _ _ _ _ _ _ _ hc ht,
    x_det F hF _ _ _ _ hc, sx_det F hF _ _ _ _ ht, single_qubit_det F hF _ _ _ _ _ hc, relaxation_det _ _ _ ht]
  simp only [← Complex.exp_add, ← Complex.exp_nat_mul]
  congr 1
  have e1 : decay t_cnot T1c = 2 * decay (CNOT.t_cr t_cnot) T1c + 2 * decay SingleQubit.tg T1c := by
    rw [← decay_mul, ← decay_mul, ← decay_add]; congr 1; unfold CNOT.t_cr CNOT.tg SingleQubit.tg; ring
  have e2 : decay t_cnot T1t = 2 * decay (CNOT.t_cr t_cnot) T1t + decay SingleQubit.tg T1t + decay CNOT.tg T1t := by
    rw [← decay_mul, ← decay_add, ← decay_add]; congr 1; unfold CNOT.t_cr CNOT.tg SingleQubit.tg; ring
  rw [e1, e2]
  push_cast; ring

theorem cnot_inv_det (F : ℝ → ℝ) (hF : Continuous F) (phi_ctr phi_trg t_cnot p_cnot p_c p_t T1c T2c T1t T2t : ℝ)
    (hc : 0 ≤ T1c) (ht : 0 ≤ T1t) (w : CNOTInv.Samples) :
    (CNOTInv.construct F phi_ctr phi_trg t_cnot p_cnot p_c p_t T1c T2c T1t T2t w).det
      = Complex.exp ((-(decay t_cnot T1c + decay t_cnot T1t) : ℝ) : ℂ) := by
  have hq : Real.pi / 4 ≠ 0 := by positivity
  have hq' : -Real.pi / 4 ≠ 0 := by
    have := Real.pi_pos; intro h; linarith
  unfold CNOTInv.construct
  simp only [Matrix.det_mul, det_kron2, cr_det F hF _ _ _ _ _ _ _ _ ht hc,
    x_det F hF _ _ _ _ ht, sx_det F hF _ _ _ _ ht, sx_det F hF _ _ _ _ hc, single_qubit_det F hF _ _ _ _ _ hc,
    single_qubit_det F hF _ _ _ _ _ ht, relaxation_det _ _ _ hc]
  simp only [← Complex.exp_add, ← Complex.exp_nat_mul]
  congr 1
  have e1 : decay t_cnot T1c = 2 * decay (CNOTInv.t_cr t_cnot) T1c + 2 * decay SingleQubit.tg T1c + decay CNOTInv.tg T1c := by
    rw [← decay_mul, ← decay_mul, ← decay_add, ← decay_add]; congr 1; unfold CNOTInv.t_cr CNOTInv.tg SingleQubit.tg; ring
  have e2 : decay t_cnot T1t = 2 * decay (CNOTInv.t_cr t_cnot) T1t + 3 * decay SingleQubit.tg T1t := by
    rw [← decay_mul, ← decay_mul, ← decay_add]; congr 1; unfold CNOTInv.t_cr CNOTInv.tg SingleQubit.tg; ring
  rw [e1, e2]
  push_cast; ring

/-- ECR: both qubits are driven / idle for `t_ecr - tg` (two CR pulses of `t_ecr/2 - tg` and one pulse of `tg`) -/
theorem ecr_det (F : ℝ → ℝ) (hF : Continuous F) (phi_ctr phi_trg t_ecr p_ecr p_c p_t T1c T2c T1t T2t : ℝ)
    (hc : 0 ≤ T1c) (ht : 0 ≤ T1t) (w : ECR.Samples) :
    (ECR.construct F phi_ctr phi_trg t_ecr p_ecr p_c p_t T1c T2c T1t T2t w).det
      = Complex.exp ((-(decay (t_ecr - ECR.tg) T1c + decay (t_ecr - ECR.tg) T1t) : ℝ) : ℂ) := by
  have hq : Real.pi / 4 ≠ 0 := by positivity
  have hq' : -Real.pi / 4 ≠ 0 := by
    have := Real.pi_pos; intro h; linarith
  unfold ECR.construct
  simp only [Matrix.det_mul, det_kron2, Matrix.det_smul, Fintype.card_fin, cr_det F hF _ _ _ _ _ _ _ _ hc ht, x_det F hF _ _ _ _ hc, relaxation_det _ _ _ ht]
  have hI : ((-Complex.I) ^ 2) ^ 2 = 1 := by
    rw [neg_sq, Complex.I_sq]; norm_num
  rw [mul_pow, hI, one_mul]
  simp only [← Complex.exp_add, ← Complex.exp_nat_mul]
  congr 1
  have e1 : decay (t_ecr - ECR.tg) T1c = 2 * decay (ECR.t_cr t_ecr) T1c + decay SingleQubit.tg T1c := by
    rw [← decay_mul, ← decay_add]; congr 1; unfold ECR.t_cr ECR.tg SingleQubit.tg; ring
  have e2 : decay (t_ecr - ECR.tg) T1t = 2 * decay (ECR.t_cr t_ecr) T1t + decay ECR.tg T1t := by
    rw [← decay_mul, ← decay_add]; congr 1; unfold ECR.t_cr ECR.tg; ring
  rw [e1, e2]
  push_cast; ring

/-- reversed ECR: two more `sx` pulses on each qubit, `t_ecr + tg` in total -/
theorem ecr_inv_det (F : ℝ → ℝ) (hF : Continuous F) (phi_ctr phi_trg t_ecr p_ecr p_c p_t T1c T2c T1t T2t : ℝ)
    (hc : 0 ≤ T1c) (ht : 0 ≤ T1t) (w : ECRInv.Samples) :
    (ECRInv.construct F phi_ctr phi_trg t_ecr p_ecr p_c p_t T1c T2c T1t T2t w).det
      = Complex.exp ((-(decay (t_ecr + ECRInv.tg) T1c + decay (t_ecr + ECRInv.tg) T1t) : ℝ) : ℂ) := by
  have hq : Real.pi / 4 ≠ 0 := by positivity
  have hq' : -Real.pi / 4 ≠ 0 := by
    have := Real.pi_pos; intro h; linarith
  unfold ECRInv.construct
  simp only [Matrix.det_mul, det_kron2, Matrix.det_smul, Fintype.card_fin, cr_det F hF _ _ _ _ _ _ _ _ hc ht, x_det F hF _ _ _ _ hc, sx_det F hF _ _ _ _ hc, sx_det F hF _ _ _ _ ht,
    relaxation_det _ _ _ ht]
  have hI : ((-Complex.I) ^ 2) ^ 2 = 1 := by
    rw [neg_sq, Complex.I_sq]; norm_num
  have hI4 : Complex.I ^ 4 = 1 := Complex.I_pow_four
  rw [mul_pow, hI, one_mul, hI4, one_mul]
  simp only [← Complex.exp_add, ← Complex.exp_nat_mul]
  congr 1
  have e1 : decay (t_ecr + ECRInv.tg) T1c = 2 * decay (ECRInv.t_cr t_ecr) T1c + 3 * decay SingleQubit.tg T1c := by
    rw [← decay_mul, ← decay_mul, ← decay_add]; congr 1; unfold ECRInv.t_cr ECRInv.tg SingleQubit.tg; ring
  have e2 : decay (t_ecr + ECRInv.tg) T1t = 2 * decay (ECRInv.t_cr t_ecr) T1t + 2 * decay SingleQubit.tg T1t + decay ECRInv.tg T1t := by
    rw [← decay_mul, ← decay_mul, ← decay_add, ← decay_add]; congr 1; unfold ECRInv.t_cr ECRInv.tg SingleQubit.tg; ring
  rw [e1, e2]
  push_cast; ring

end QG.C05
