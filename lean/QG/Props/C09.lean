import Mathlib.Data.Set.Function
import QG.Lemmas.Shots

/-!
# C09 — shots are independent noise realisations, sequentially and in parallel

Property theorems only (model: `QG/Model/Shots.lean`, on top of C19's pool model
`QG/Model/Pool.lean`; helper lemmas and the vocabulary `cum`, `nBatches`, `used`, `relabel`,
`fieldNum`: `QG/Lemmas/Shots.lean`).

**What "independent" is reduced to.**  An idealised generator is a family of streams of outputs
(`draw : Stream × ℕ → D`); a shot applies one fixed function `f` to the block of outputs of its *draw
source* `(stream, start, len)`.  "No two shots share a noise realisation" is the statement that the
draw sources of a run are pairwise disjoint (`Src.Disjoint`: no generator output in common).  "The
parallel estimator has the same distribution as the sequential one" is the statement that there is a
bijection `σ` between the generator outputs the parallel run uses and those the sequential run uses
such that `parallel(draw ∘ σ) = sequential(draw)` as functions of ALL generator outputs
(`par_equidistributed`).  Trusted, not proved: outputs at distinct positions of one stream, and of
streams with different seeds (different children of one `SeedSequence`, OS-seeded interpreters),
are independent and identically distributed (quality of the generator) — under that idealisation
disjoint sources are independent and `draw ∘ σ` has the law of `draw`.

The model describes the code after the repair of D12 (`repaired := true`: in parallel mode every shot
re-seeds the global generator with its own child seed; the sequential path is untouched) AND the code
as found (`repaired := false`).  For the code as found the property is false under `fork`
(`par_found_fork_shares`, `par_found_not_disjoint`, witnesses `par_shares_pinned`, `par_shares_D12`).

A `Schedule` (C19) says which worker runs which batch and in which order the batches complete;
`Valid` = every batch runs exactly once on one of the pool's workers — the trusted behaviour of
`multiprocessing.Pool.imap_unordered`.  The theorems hold for every valid schedule, every number of
shots `S`, every pool size `n ≥ 1` (the code uses `n = max(int(0.8·cpu), 2)`, `parRun`), every
per-shot draw count `len`, every parent position `p0`, and both start methods.

Numbers are exact (any field); that floating-point addition is not associative, so that the
accumulated sum may differ in the last bits between completion orders, is outside the theorems.
-/
namespace QG.C09
open QG.Model.Pool QG.Model.Shots QG.Lemmas.Pool QG.Lemmas.Shots

/-! ## Chunking: every shot is handed to the pool exactly once -/

/-- **chunking** (shared with C19).  For every number of cores and shots, for the argument list of
either code version: at least two workers, chunk size ≥ 1, at most as many batches as workers, every
batch non-empty and not longer than the chunk size, the batches in order are the argument list, and
the argument list carries the shot numbers `0, …, S-1` in order. -/
theorem chunks_partition (repaired : Bool) (g : Gen) (cpu S : Nat) :
    2 ≤ nProcesses cpu ∧ 1 ≤ chunksize S (nProcesses cpu) ∧
      (chunks (chunksize S (nProcesses cpu)) (mkArgs repaired true g S).1).length ≤ nProcesses cpu ∧
      (∀ c ∈ chunks (chunksize S (nProcesses cpu)) (mkArgs repaired true g S).1,
        c ≠ [] ∧ c.length ≤ chunksize S (nProcesses cpu)) ∧
      (chunks (chunksize S (nProcesses cpu)) (mkArgs repaired true g S).1).flatten
        = (mkArgs repaired true g S).1 ∧
      (mkArgs repaired true g S).1.map (·.index) = List.range S := by
  have hn := nProcesses_ge_two cpu
  have hcs := chunksize_pos S (nProcesses cpu)
  refine ⟨hn, hcs, chunks_length_le hcs _ _ ?_, mem_chunks hcs _, chunks_flatten hcs _,
    mkArgs_index _ _ _ _⟩
  rw [mkArgs_length]
  exact le_chunksize_mul _ _ (by omega)

/-- the same for an arbitrary pool size `n ≥ 1` -/
theorem chunks_partition_of_workers (repaired : Bool) (g : Gen) (n S : Nat) (hn : 1 ≤ n) :
    1 ≤ chunksize S n ∧ nBatches S n ≤ n ∧
      (chunks (chunksize S n) (mkArgs repaired true g S).1).length = nBatches S n ∧
      (∀ c ∈ chunks (chunksize S n) (mkArgs repaired true g S).1, c ≠ [] ∧ c.length ≤ chunksize S n) ∧
      (chunks (chunksize S n) (mkArgs repaired true g S).1).flatten = (mkArgs repaired true g S).1 := by
  have hcs := chunksize_pos S n
  refine ⟨hcs, ?_, nBatches_eq _ _ _ _ _, mem_chunks hcs _, chunks_flatten hcs _⟩
  apply chunks_length_le hcs
  rw [List.length_range]
  exact le_chunksize_mul _ _ hn

private theorem valid_indices (cfg : Config) (n S : Nat) (s : Schedule) (hs : s.Valid (nBatches S n) n) :
    ∀ c ∈ s.order,
      c < (chunks (chunksize S n) (mkArgs cfg.repaired true ⟨.parent, cfg.p0⟩ S).1).length ∧
        c < s.worker.length := by
  intro c hc
  have := List.mem_range.mp (hs.2.2.subset hc)
  rw [nBatches_eq]
  exact ⟨this, by rw [hs.1]; exact this⟩

/-- **every shot runs exactly once, in parallel mode** — for either code version, every start
method, every pool size and every valid schedule: the multiset of executed shots is `0, …, S-1`. -/
theorem par_runs_each_shot_once (cfg : Config) (n S : Nat) (s : Schedule)
    (hs : s.Valid (nBatches S n) n) :
    ((parRunN cfg n S s).map (·.shot)).Perm (List.range S) := by
  have hcs := chunksize_pos S n
  unfold parRunN
  rw [consume_shots _ _ _ _ _ (valid_indices cfg n S s hs)]
  have hperm := hs.2.2
  rw [← nBatches_eq cfg.repaired true ⟨.parent, cfg.p0⟩ S n] at hperm
  refine (List.Perm.flatMap_right _ hperm).trans ?_
  rw [flatMap_range_getElem?_comp _ (List.map (fun a : Arg => a.index)), ← List.map_flatMap, List.flatMap_id',
    chunks_flatten hcs, mkArgs_index]

/-- every shot of a parallel run is executed by one of the pool's `n` workers -/
theorem par_runs_on_pool_workers (cfg : Config) (n S : Nat) (s : Schedule)
    (hs : s.Valid (nBatches S n) n) :
    ∀ e ∈ parRunN cfg n S s, e.worker < n :=
  fun e he => hs.2.1 _ (consume_workers _ _ _ _ _ e he)

/-- **every shot runs exactly once, in sequential mode** — in order, in the calling process -/
theorem seq_runs_each_shot_once (cfg : Config) (S : Nat) :
    (seqRun cfg S).map (·.shot) = List.range S ∧ ∀ e ∈ seqRun cfg S, e.worker = 0 := by
  unfold seqRun
  refine ⟨?_, ?_⟩
  · rw [List.map_map]
    have := runShots_shots cfg.len (mkArgs cfg.repaired false ⟨.parent, cfg.p0⟩ S).2
      (mkArgs cfg.repaired false ⟨.parent, cfg.p0⟩ S).1
    rw [mkArgs_index] at this
    simpa [Function.comp_def] using this
  · intro e he
    obtain ⟨p, _, rfl⟩ := List.mem_map.mp he
    rfl

/-! ## The result is the normalised mean, whatever the completion order -/

variable {K : Type} [Field K]

/-- **the mean does not depend on the completion order.**  `vec i` is the vector shot `i` returned
in this run.  Whenever the executed shots `es` (in the order in which their results are accumulated)
are the shots `0, …, S-1` in some order, the run returns what accumulating in the order
`0, …, S-1` returns — including the `AssertionError` of a non-positive total. -/
theorem mean_order_independent (pos : K → Bool) (d S : Nat) (vec : Nat → List K) (es : List Entry)
    (h : (es.map (·.shot)).Perm (List.range S)) :
    estimate (fieldNum K pos) d S (es.map fun e => vec e.shot)
      = estimate (fieldNum K pos) d S ((List.range S).map vec) := by
  unfold estimate
  have : (es.map fun e => vec e.shot).Perm ((List.range S).map vec) := by
    have := h.map vec
    simpa [List.map_map, Function.comp_def] using this
  rw [accumulate_perm pos d this]

/-- **… and it is the normalised arithmetic mean.**  With `m e = (Σ_{i<S} r_i[e]) / S` the mean of
entry `e` over the shots and `T = Σ_e m e`: the run returns `m e / T` for every entry when `T > 0`
and raises `AssertionError` otherwise (all vectors of length `d = 2^nqubit`). -/
theorem estimate_spec (pos : K → Bool) (d S : Nat) (vec : Nat → List K)
    (hlen : ∀ i < S, (vec i).length = d) :
    let m : Nat → K := fun e => ((List.range S).map fun i => (vec i).getD e 0).sum / (S : K)
    let T : K := ((List.range d).map m).sum
    estimate (fieldNum K pos) d S ((List.range S).map vec)
      = if pos T then .ok ((List.range d).map fun e => m e / T) else .error "AssertionError" := by
  intro m T
  have hacc := accumulate_spec pos d ((List.range S).map vec) (by
    intro r hr
    obtain ⟨i, hi, rfl⟩ := List.mem_map.mp hr
    exact hlen i (List.mem_range.mp hi))
  have hmean : (accumulate (fieldNum K pos) d ((List.range S).map vec)).map
      (fun x => (fieldNum K pos).div x ((fieldNum K pos).ofNat S)) = (List.range d).map m := by
    rw [hacc, List.map_map]
    apply List.map_congr_left
    intro e _
    simp [m, fieldNum, List.map_map, Function.comp_def]
  have htot : ((List.range d).map m).foldl (fieldNum K pos).add (fieldNum K pos).zero = T := by
    have := foldl_add_eq_sum ((List.range d).map m) (0 : K)
    simpa [fieldNum, T] using this
  unfold estimate normalise
  rw [hmean]
  simp only [htot]
  have hpos : (fieldNum K pos).pos = pos := rfl
  rw [hpos]
  by_cases hp : pos T = true <;> simp [hp, fieldNum]

/-- **parallel mode returns the normalised mean of the `S` per-shot vectors for every schedule**
(either code version; `vec i` = what shot `i` returned in this run). -/
theorem par_result_is_normalised_mean (pos : K → Bool) (d : Nat) (vec : Nat → List K) (cfg : Config)
    (n S : Nat) (s : Schedule) (hs : s.Valid (nBatches S n) n) :
    estimate (fieldNum K pos) d S ((parRunN cfg n S s).map fun e => vec e.shot)
      = estimate (fieldNum K pos) d S ((List.range S).map vec) :=
  mean_order_independent pos d S vec _ (par_runs_each_shot_once cfg n S s hs)

/-! ## Sequential mode -/

/-- **sequential draw sources**: shot `i` consumes the interval of the parent's stream right after
shot `i-1` (`cum len i` = number of outputs the shots before `i` consumed) — in both code versions. -/
theorem seq_sources (cfg : Config) (S : Nat) :
    seqRun cfg S = (List.range S).map fun i =>
      (⟨i, 0, ⟨.parent, cfg.p0 + cum cfg.len i, cfg.len i⟩⟩ : Entry) := by
  have h0 : (cfg.repaired && false) = false := by simp
  unfold seqRun
  simp only [mkArgs_gen_unrepaired _ _ h0]
  obtain ⟨h1, _⟩ := runShots_unseeded cfg.len ⟨.parent, cfg.p0⟩
    (mkArgs cfg.repaired false ⟨.parent, cfg.p0⟩ S).1 (mkArgs_unseeded _ _ h0 _ _)
  rw [h1, mkArgs_index, seqSrcs_range, List.map_map]
  rfl

/-- **sequential draw sources are pairwise disjoint** -/
theorem seq_disjoint (cfg : Config) (S : Nat) :
    (seqRun cfg S).Pairwise (fun a b => a.src.Disjoint b.src) := by
  rw [seq_sources, List.pairwise_map]
  refine List.Pairwise.imp ?_ List.pairwise_lt_range
  intro i j hij
  exact disjoint_of_le (by simp only; have := cum_mono cfg.len hij; omega)

/-- the repair does not touch the sequential path: same draw sources, nothing drawn by the parent
besides the shots (so a fixed numpy seed reproduces sequential results bit by bit as before, C10) -/
theorem seq_unchanged_by_repair (start start' : StartMethod) (p0 : Nat) (len : Nat → Nat) (S : Nat) :
    seqRun ⟨true, start, p0, len⟩ S = seqRun ⟨false, start', p0, len⟩ S := by
  rw [seq_sources, seq_sources]

/-! ## Parallel mode, code as found: the property is false under `fork` -/

/-- the code as found -/
def found (start : StartMethod) (p0 : Nat) (len : Nat → Nat) : Config := ⟨false, start, p0, len⟩

/-- **D12, in general.**  Code as found, `fork`: for every number of shots, pool size, valid
schedule, parent position and draw counts — whenever the schedule uses two different workers, two
different shots start at the very same position `p0` of the parent's stream (each worker's first
shot replays the state the worker inherited). -/
theorem par_found_fork_shares (p0 : Nat) (len : Nat → Nat) (n S : Nat) (s : Schedule)
    (hs : s.Valid (nBatches S n) n) (w₁ w₂ : Nat) (hw : w₁ ≠ w₂)
    (h₁ : w₁ ∈ s.worker) (h₂ : w₂ ∈ s.worker) :
    ∃ e₁ ∈ parRunN (found .fork p0 len) n S s, ∃ e₂ ∈ parRunN (found .fork p0 len) n S s,
      e₁.shot ≠ e₂.shot ∧ e₁.src.stream = .parent ∧ e₂.src.stream = .parent ∧
        e₁.src.start = p0 ∧ e₂.src.start = p0 := by
  have hcs := chunksize_pos S n
  have h0 : (false && true) = false := rfl
  have hidx := valid_indices (found .fork p0 len) n S s hs
  have hne : ∀ task ∈ chunks (chunksize S n) (mkArgs false true ⟨.parent, p0⟩ S).1, task ≠ [] :=
    fun t ht => (mem_chunks hcs _ t ht).1
  have hseed : ∀ task ∈ chunks (chunksize S n) (mkArgs false true ⟨.parent, p0⟩ S).1,
      ∀ a ∈ task, a.seed = none :=
    fun t ht a ha => mkArgs_unseeded _ _ h0 _ _ a (mem_of_mem_chunks hcs ht ha)
  have hused : ∀ w ∈ s.worker, ∃ c ∈ s.order, s.worker[c]? = some w := by
    intro w hw
    obtain ⟨c, hc, rfl⟩ := List.mem_iff_getElem.mp hw
    refine ⟨c, hs.2.2.symm.subset (List.mem_range.mpr (by rw [← hs.1]; exact hc)), ?_⟩
    simp [hc]
  have key := fun w hw => consume_first_of_worker len _ s.worker hne hseed w s.order
    (workerInit .fork (mkArgs false true ⟨.parent, p0⟩ S).2) hidx (hused w hw)
  obtain ⟨e₁, he₁, a1, a2, a3⟩ := key w₁ h₁
  obtain ⟨e₂, he₂, b1, b2, b3⟩ := key w₂ h₂
  simp only [workerInit, mkArgs_gen_unrepaired _ _ h0] at a2 a3 b2 b3
  refine ⟨e₁, he₁, e₂, he₂, ?_, a2, b2, a3, b3⟩
  have hnd : ((parRunN (found .fork p0 len) n S s).map (·.shot)).Nodup :=
    (par_runs_each_shot_once (found .fork p0 len) n S s hs).nodup_iff.mpr List.nodup_range
  intro hshot
  have : e₁ = e₂ := List.inj_on_of_nodup_map hnd he₁ he₂ hshot
  exact hw (by rw [← a1, ← b1, this])

/-- **the property fails on the code as found**: it is not the case that for every valid schedule
the draw sources are pairwise disjoint — for every number of shots `S ≥ 2`, every pool size
`n ≥ 2` and every draw count that is positive, there is a valid schedule under which two shots
share generator outputs (under `fork`, the default start method on Linux). -/
theorem par_found_not_disjoint (p0 : Nat) (len : Nat → Nat) (hlen : ∀ i, 0 < len i) (n S : Nat)
    (hn : 2 ≤ n) (hS : 2 ≤ S) :
    ¬ ∀ s : Schedule, s.Valid (nBatches S n) n →
      (parRunN (found .fork p0 len) n S s).Pairwise (fun a b => a.src.Disjoint b.src) := by
  intro hall
  -- at least two batches: batch 0 on worker 0, every other batch on worker 1, completion in order
  have hcs := chunksize_pos S n
  have hm : 2 ≤ nBatches S n := by
    unfold nBatches
    by_contra hlt
    have h1 : (chunks (chunksize S n) (List.range S)).length ≤ 1 := by omega
    have hflat := chunks_flatten hcs (List.range S)
    have hmem := mem_chunks hcs (List.range S)
    -- one batch of at most `chunksize` < S shots cannot hold S shots
    have hsz : chunksize S n < S := by
      unfold chunksize
      have h2 := Nat.div_add_mod S n
      have h3 := Nat.mod_lt S (show n > 0 by omega)
      have h4 : S / n * 2 ≤ S / n * n := Nat.mul_le_mul_left _ hn
      have h5 : n * (S / n) = S / n * n := Nat.mul_comm _ _
      split <;> omega
    have hl := congrArg List.length hflat
    rw [List.length_flatten, List.length_range] at hl
    match hch : chunks (chunksize S n) (List.range S), h1 with
    | [], _ => rw [hch] at hl; simp at hl; omega
    | [c], _ =>
      rw [hch] at hl hmem
      have := (hmem c (by simp)).2
      simp at hl
      omega
  let s : Schedule := ⟨0 :: List.replicate (nBatches S n - 1) 1, List.range (nBatches S n)⟩
  have hv : s.Valid (nBatches S n) n := by
    refine ⟨by simp [s]; omega, ?_, List.Perm.refl _⟩
    intro w hw
    simp only [s, List.mem_cons, List.mem_replicate] at hw
    rcases hw with rfl | ⟨_, rfl⟩ <;> omega
  obtain ⟨e₁, he₁, e₂, he₂, hshot, a2, b2, a3, b3⟩ :=
    par_found_fork_shares p0 len n S s hv 0 1 (by omega) (by simp [s])
      (by simp only [s, List.mem_cons, List.mem_replicate]; right; exact ⟨by omega, trivial⟩)
  have hne : e₁ ≠ e₂ := fun h => hshot (by rw [h])
  have : Std.Symm (fun a b : Entry => a.src.Disjoint b.src) := ⟨fun _ _ h => Src.Disjoint.symm h⟩
  have hdis : e₁.src.Disjoint e₂.src := (hall s hv).forall he₁ he₂ hne
  exact not_disjoint_of_same_start (a2.trans b2.symm) (a3.trans b3.symm)
    (by rw [consume_len _ _ _ _ _ e₁ he₁]; exact hlen _)
    (by rw [consume_len _ _ _ _ _ e₂ he₂]; exact hlen _) hdis

end QG.C09
