import Mathlib.Data.Set.Function
import QG.Lemmas.Shots

/-!
# C09 — shots are independent noise realisations, sequentially and in parallel

Property theorems only (model: `QG/Model/Shots.lean`, on top of C19's pool model
`QG/Model/Pool.lean`; helper lemmas and the vocabulary `cum`, `nBatches`, `used`, `relabel`,
`fieldNum`: `QG/Lemmas/Shots.lean`).

**What "independent" is reduced to.**  An idealised generator is a family of streams of outputs
(`draw : Stream × ℕ → D`); a shot applies one fixed function `f` to the block of outputs of its *draw
source* `(stream, start, len)`.  "No two shots share a noise realisation" is the statement that the
draw sources of a run are pairwise disjoint (`Src.Disjoint`: no generator output in common).  "The
parallel estimator has the same distribution as the sequential one" is the statement that there is a
bijection `σ` between the generator outputs the parallel run uses and those the sequential run uses
such that `parallel(draw ∘ σ) = sequential(draw)` as functions of ALL generator outputs
(`par_equidistributed`).  Trusted, not proved: outputs at distinct positions of one stream, and of
streams with different seeds (different children of one `SeedSequence`, OS-seeded interpreters),
are independent and identically distributed (quality of the generator) — under that idealisation
disjoint sources are independent and `draw ∘ σ` has the law of `draw`.

The model describes the code after the repair of D12 (`repaired := true`: in parallel mode every shot
re-seeds the global generator with its own child seed; the sequential path is untouched) AND the code
as found (`repaired := false`).  For the code as found the property is false under `fork`
(`par_found_fork_shares`, `par_found_not_disjoint`, witnesses `par_shares_pinned`, `par_shares_D12`).

A `Schedule` (C19) says which worker runs which batch and in which order the batches complete;
`Valid` = every batch runs exactly once on one of the pool's workers — the trusted behaviour of
`multiprocessing.Pool.imap_unordered`.  The theorems hold for every valid schedule, every number of
shots `S`, every pool size `n`, every chunk size `cs ≥ 1` (`parRunWith`; the code uses
`n = max(int(0.8·cpu), 2)` and `cs = chunksize S n`: `parRunN`, `parRun`, for which `1 ≤ cs` is
`chunks_partition`), every per-shot draw count `len`, every parent position `p0`, and both start
methods.  Valid schedules exist for all these parameters (`schedules_exist`).

Numbers are exact (any field); that floating-point addition is not associative, so that the
accumulated sum may differ in the last bits between completion orders, is outside the theorems.
-/
namespace QG.C09
open QG.Model.Pool QG.Model.Shots QG.Lemmas.Pool QG.Lemmas.Shots

/-! ## Chunking: every shot is handed to the pool exactly once -/

/-- **chunking** (shared with C19).  For every number of cores and shots, for the argument list of
either code version: at least two workers, chunk size ≥ 1, at most as many batches as workers, every
batch non-empty and not longer than the chunk size, the batches in order are the argument list, and
the argument list carries the shot numbers `0, …, S-1` in order. -/
theorem chunks_partition (repaired : Bool) (g : Gen) (cpu S : Nat) :
    2 ≤ nProcesses cpu ∧ 1 ≤ chunksize S (nProcesses cpu) ∧
      (chunks (chunksize S (nProcesses cpu)) (mkArgs repaired true g S).1).length ≤ nProcesses cpu ∧
      (∀ c ∈ chunks (chunksize S (nProcesses cpu)) (mkArgs repaired true g S).1,
        c ≠ [] ∧ c.length ≤ chunksize S (nProcesses cpu)) ∧
      (chunks (chunksize S (nProcesses cpu)) (mkArgs repaired true g S).1).flatten
        = (mkArgs repaired true g S).1 ∧
      (mkArgs repaired true g S).1.map (·.index) = List.range S := by
  have hn := nProcesses_ge_two cpu
  have hcs := chunksize_pos S (nProcesses cpu)
  refine ⟨hn, hcs, chunks_length_le hcs _ _ ?_, mem_chunks hcs _, chunks_flatten hcs _,
    mkArgs_index _ _ _ _⟩
  rw [mkArgs_length]
  exact le_chunksize_mul _ _ (by omega)

/-- the same for an arbitrary pool size `n ≥ 1` -/
theorem chunks_partition_of_workers (repaired : Bool) (g : Gen) (n S : Nat) (hn : 1 ≤ n) :
    1 ≤ chunksize S n ∧ nBatches (chunksize S n) S ≤ n ∧
      (chunks (chunksize S n) (mkArgs repaired true g S).1).length = nBatches (chunksize S n) S ∧
      (∀ c ∈ chunks (chunksize S n) (mkArgs repaired true g S).1, c ≠ [] ∧ c.length ≤ chunksize S n) ∧
      (chunks (chunksize S n) (mkArgs repaired true g S).1).flatten = (mkArgs repaired true g S).1 := by
  have hcs := chunksize_pos S n
  refine ⟨hcs, ?_, nBatches_eq _ _ _ _ hcs, mem_chunks hcs _, chunks_flatten hcs _⟩
  apply chunks_length_le hcs
  rw [List.length_range]
  exact le_chunksize_mul _ _ hn

/-- non-vacuity of "every valid schedule": for every chunk size, number of shots and pool size
`n ≥ 1` there is one (all batches on worker 0, completing in order) -/
theorem schedules_exist (cs n S : Nat) (hn : 1 ≤ n) : ∃ s : Schedule, s.Valid (nBatches cs S) n :=
  ⟨⟨List.replicate (nBatches cs S) 0, List.range (nBatches cs S)⟩, by simp,
    fun w hw => by rw [(List.mem_replicate.mp hw).2]; omega, List.Perm.refl _⟩

private theorem valid_indices (cfg : Config) (cs n S : Nat) (hcs : 1 ≤ cs) (s : Schedule)
    (hs : s.Valid (nBatches cs S) n) :
    ∀ c ∈ s.order,
      c < (chunks cs (mkArgs cfg.repaired true ⟨.parent, cfg.p0⟩ S).1).length ∧
        c < s.worker.length := by
  intro c hc
  have := List.mem_range.mp (hs.2.2.subset hc)
  rw [nBatches_eq _ _ _ _ hcs]
  exact ⟨this, by rw [hs.1]; exact this⟩

/-- **every shot runs exactly once, in parallel mode** — for either code version, every start
method, every pool size and every valid schedule: the multiset of executed shots is `0, …, S-1`. -/
theorem par_runs_each_shot_once (cfg : Config) (cs n S : Nat) (hcs : 1 ≤ cs) (s : Schedule)
    (hs : s.Valid (nBatches cs S) n) :
    ((parRunWith cfg cs S s).map (·.shot)).Perm (List.range S) := by
  unfold parRunWith
  rw [consume_shots _ _ _ _ _ (valid_indices cfg cs n S hcs s hs)]
  have hperm := hs.2.2
  rw [← nBatches_eq cfg.repaired true ⟨.parent, cfg.p0⟩ S hcs] at hperm
  refine (List.Perm.flatMap_right _ hperm).trans ?_
  rw [flatMap_range_getElem?_comp _ (List.map (fun a : Arg => a.index)), ← List.map_flatMap, List.flatMap_id',
    chunks_flatten hcs, mkArgs_index]

/-- every shot of a parallel run is executed by one of the pool's `n` workers -/
theorem par_runs_on_pool_workers (cfg : Config) (cs n S : Nat) (s : Schedule)
    (hs : s.Valid (nBatches cs S) n) :
    ∀ e ∈ parRunWith cfg cs S s, e.worker < n :=
  fun e he => hs.2.1 _ (consume_workers _ _ _ _ _ e he)

/-- **every shot runs exactly once, in sequential mode** — in order, in the calling process -/
theorem seq_runs_each_shot_once (cfg : Config) (S : Nat) :
    (seqRun cfg S).map (·.shot) = List.range S ∧ ∀ e ∈ seqRun cfg S, e.worker = 0 := by
  unfold seqRun
  refine ⟨?_, ?_⟩
  · rw [List.map_map]
    have := runShots_shots cfg.len (mkArgs cfg.repaired false ⟨.parent, cfg.p0⟩ S).2
      (mkArgs cfg.repaired false ⟨.parent, cfg.p0⟩ S).1
    rw [mkArgs_index] at this
    simpa [Function.comp_def] using this
  · intro e he
    obtain ⟨p, _, rfl⟩ := List.mem_map.mp he
    rfl

/-! ## The result is the normalised mean, whatever the completion order -/

variable {K : Type} [Field K]

/-- **the mean does not depend on the completion order.**  `vec i` is the vector shot `i` returned
in this run.  Whenever the executed shots `es` (in the order in which their results are accumulated)
are the shots `0, …, S-1` in some order, the run returns what accumulating in the order
`0, …, S-1` returns — including the `AssertionError` of a non-positive total. -/
theorem mean_order_independent (pos : K → Bool) (d S : Nat) (vec : Nat → List K) (es : List Entry)
    (h : (es.map (·.shot)).Perm (List.range S)) :
    estimate (fieldNum K pos) d S (es.map fun e => vec e.shot)
      = estimate (fieldNum K pos) d S ((List.range S).map vec) := by
  unfold estimate
  have : (es.map fun e => vec e.shot).Perm ((List.range S).map vec) := by
    have := h.map vec
    simpa [List.map_map, Function.comp_def] using this
  rw [accumulate_perm pos d this]

/-- **… and it is the normalised arithmetic mean.**  With `m e = (Σ_{i<S} r_i[e]) / S` the mean of
entry `e` over the shots and `T = Σ_e m e`: the run returns `m e / T` for every entry when `T > 0`
and raises `AssertionError` otherwise (all vectors of length `d = 2^nqubit`). -/
theorem estimate_spec (pos : K → Bool) (d S : Nat) (vec : Nat → List K)
    (hlen : ∀ i < S, (vec i).length = d) :
    let m : Nat → K := fun e => ((List.range S).map fun i => (vec i).getD e 0).sum / (S : K)
    let T : K := ((List.range d).map m).sum
    estimate (fieldNum K pos) d S ((List.range S).map vec)
      = if pos T then .ok ((List.range d).map fun e => m e / T) else .error "AssertionError" := by
  intro m T
  have hacc := accumulate_spec pos d ((List.range S).map vec) (by
    intro r hr
    obtain ⟨i, hi, rfl⟩ := List.mem_map.mp hr
    exact hlen i (List.mem_range.mp hi))
  have hmean : (accumulate (fieldNum K pos) d ((List.range S).map vec)).map
      (fun x => (fieldNum K pos).div x ((fieldNum K pos).ofNat S)) = (List.range d).map m := by
    rw [hacc, List.map_map]
    apply List.map_congr_left
    intro e _
    simp [m, fieldNum, List.map_map, Function.comp_def]
  have htot : ((List.range d).map m).foldl (fieldNum K pos).add (fieldNum K pos).zero = T := by
    have := foldl_add_eq_sum ((List.range d).map m) (0 : K)
    simpa [fieldNum, T] using this
  unfold estimate normalise
  rw [hmean]
  simp only [htot]
  have hpos : (fieldNum K pos).pos = pos := rfl
  rw [hpos]
  by_cases hp : pos T = true <;> simp [hp, fieldNum]

/-- **parallel mode returns the normalised mean of the `S` per-shot vectors for every schedule**
(either code version; `vec i` = what shot `i` returned in this run). -/
theorem par_result_is_normalised_mean (pos : K → Bool) (d : Nat) (vec : Nat → List K) (cfg : Config)
    (cs n S : Nat) (hcs : 1 ≤ cs) (s : Schedule) (hs : s.Valid (nBatches cs S) n) :
    estimate (fieldNum K pos) d S ((parRunWith cfg cs S s).map fun e => vec e.shot)
      = estimate (fieldNum K pos) d S ((List.range S).map vec) :=
  mean_order_independent pos d S vec _ (par_runs_each_shot_once cfg cs n S hcs s hs)

/-! ## Sequential mode -/

/-- **sequential draw sources**: shot `i` consumes the interval of the parent's stream right after
shot `i-1` (`cum len i` = number of outputs the shots before `i` consumed) — in both code versions. -/
theorem seq_sources (cfg : Config) (S : Nat) :
    seqRun cfg S = (List.range S).map fun i =>
      (⟨i, 0, ⟨.parent, cfg.p0 + cum cfg.len i, cfg.len i⟩⟩ : Entry) := by
  have h0 : (cfg.repaired && false) = false := by simp
  unfold seqRun
  simp only [mkArgs_gen_unrepaired _ _ h0]
  obtain ⟨h1, _⟩ := runShots_unseeded cfg.len ⟨.parent, cfg.p0⟩
    (mkArgs cfg.repaired false ⟨.parent, cfg.p0⟩ S).1 (mkArgs_unseeded _ _ h0 _ _)
  rw [h1, mkArgs_index, seqSrcs_range, List.map_map]
  rfl

/-- **sequential mode returns the normalised mean of the `S` per-shot vectors**, shot `i` computed
from the block of generator outputs right after shot `i-1`'s (any arithmetic `num`) -/
theorem seq_result_is_normalised_mean {α D : Type} (num : Num α) (d : Nat) (f : List D → List α)
    (draw : Stream × Nat → D) (cfg : Config) (S : Nat) :
    runResult num d S f draw (seqRun cfg S)
      = estimate num d S ((List.range S).map fun i =>
          f (block draw ⟨.parent, cfg.p0 + cum cfg.len i, cfg.len i⟩)) := by
  unfold runResult
  rw [seq_sources, List.map_map]
  rfl

/-- **sequential draw sources are pairwise disjoint** -/
theorem seq_disjoint (cfg : Config) (S : Nat) :
    (seqRun cfg S).Pairwise (fun a b => a.src.Disjoint b.src) := by
  rw [seq_sources, List.pairwise_map]
  refine List.Pairwise.imp ?_ List.pairwise_lt_range
  intro i j hij
  exact disjoint_of_le (by simp only; have := cum_mono cfg.len hij; omega)

/-- the repair does not touch the sequential path: same draw sources, nothing drawn by the parent
besides the shots (so a fixed numpy seed reproduces sequential results bit by bit as before, C10) -/
theorem seq_unchanged_by_repair (start start' : StartMethod) (p0 : Nat) (len : Nat → Nat) (S : Nat) :
    seqRun ⟨true, start, p0, len⟩ S = seqRun ⟨false, start', p0, len⟩ S := by
  rw [seq_sources, seq_sources]

/-! ## Parallel mode, code as found: the property is false under `fork` -/

/-- the code as found -/
def found (start : StartMethod) (p0 : Nat) (len : Nat → Nat) : Config := ⟨false, start, p0, len⟩

/-- **D12, in general.**  Code as found, `fork`: for every number of shots, pool size, valid
schedule, parent position and draw counts — whenever the schedule uses two different workers, two
different shots start at the very same position `p0` of the parent's stream (each worker's first
shot replays the state the worker inherited). -/
theorem par_found_fork_shares (p0 : Nat) (len : Nat → Nat) (cs n S : Nat) (hcs : 1 ≤ cs) (s : Schedule)
    (hs : s.Valid (nBatches cs S) n) (w₁ w₂ : Nat) (hw : w₁ ≠ w₂)
    (h₁ : w₁ ∈ s.worker) (h₂ : w₂ ∈ s.worker) :
    ∃ e₁ ∈ parRunWith (found .fork p0 len) cs S s, ∃ e₂ ∈ parRunWith (found .fork p0 len) cs S s,
      e₁.shot ≠ e₂.shot ∧ e₁.src.stream = .parent ∧ e₂.src.stream = .parent ∧
        e₁.src.start = p0 ∧ e₂.src.start = p0 := by
  have h0 : (false && true) = false := rfl
  have hidx := valid_indices (found .fork p0 len) cs n S hcs s hs
  have hne : ∀ task ∈ chunks cs (mkArgs false true ⟨.parent, p0⟩ S).1, task ≠ [] :=
    fun t ht => (mem_chunks hcs _ t ht).1
  have hseed : ∀ task ∈ chunks cs (mkArgs false true ⟨.parent, p0⟩ S).1,
      ∀ a ∈ task, a.seed = none :=
    fun t ht a ha => mkArgs_unseeded _ _ h0 _ _ a (mem_of_mem_chunks hcs ht ha)
  have hused : ∀ w ∈ s.worker, ∃ c ∈ s.order, s.worker[c]? = some w := by
    intro w hw
    obtain ⟨c, hc, rfl⟩ := List.mem_iff_getElem.mp hw
    refine ⟨c, hs.2.2.symm.subset (List.mem_range.mpr (by rw [← hs.1]; exact hc)), ?_⟩
    simp [hc]
  have key := fun w hw => consume_first_of_worker len _ s.worker hne hseed w s.order
    (workerInit .fork (mkArgs false true ⟨.parent, p0⟩ S).2) hidx (hused w hw)
  obtain ⟨e₁, he₁, a1, a2, a3⟩ := key w₁ h₁
  obtain ⟨e₂, he₂, b1, b2, b3⟩ := key w₂ h₂
  simp only [workerInit, mkArgs_gen_unrepaired _ _ h0] at a2 a3 b2 b3
  refine ⟨e₁, he₁, e₂, he₂, ?_, a2, b2, a3, b3⟩
  have hnd : ((parRunWith (found .fork p0 len) cs S s).map (·.shot)).Nodup :=
    (par_runs_each_shot_once (found .fork p0 len) cs n S hcs s hs).nodup_iff.mpr List.nodup_range
  intro hshot
  have : e₁ = e₂ := List.inj_on_of_nodup_map hnd he₁ he₂ hshot
  exact hw (by rw [← a1, ← b1, this])

/-- **the property fails on the code as found**: it is not the case that for every valid schedule
the draw sources are pairwise disjoint — for every number of shots `S ≥ 2`, every pool size
`n ≥ 2` and every draw count that is positive, there is a valid schedule under which two shots
share generator outputs (under `fork`, the default start method on Linux). -/
theorem par_found_not_disjoint (p0 : Nat) (len : Nat → Nat) (hlen : ∀ i, 0 < len i) (n S : Nat)
    (hn : 2 ≤ n) (hS : 2 ≤ S) :
    ¬ ∀ s : Schedule, s.Valid (nBatches (chunksize S n) S) n →
      (parRunN (found .fork p0 len) n S s).Pairwise (fun a b => a.src.Disjoint b.src) := by
  intro hall
  -- at least two batches: batch 0 on worker 0, every other batch on worker 1, completion in order
  have hcs := chunksize_pos S n
  have hm : 2 ≤ nBatches (chunksize S n) S := by
    unfold nBatches
    by_contra hlt
    have h1 : (chunks (chunksize S n) (List.range S)).length ≤ 1 := by omega
    have hflat := chunks_flatten hcs (List.range S)
    have hmem := mem_chunks hcs (List.range S)
    -- one batch of at most `chunksize` < S shots cannot hold S shots
    have hsz : chunksize S n < S := by
      unfold chunksize
      have h2 := Nat.div_add_mod S n
      have h3 := Nat.mod_lt S (show n > 0 by omega)
      have h4 : S / n * 2 ≤ S / n * n := Nat.mul_le_mul_left _ hn
      have h5 : n * (S / n) = S / n * n := Nat.mul_comm _ _
      split <;> omega
    have hl := congrArg List.length hflat
    rw [List.length_flatten, List.length_range] at hl
    match hch : chunks (chunksize S n) (List.range S), h1 with
    | [], _ => rw [hch] at hl; simp at hl; omega
    | [c], _ =>
      rw [hch] at hl hmem
      have := (hmem c (by simp)).2
      simp at hl
      omega
  let s : Schedule := ⟨0 :: List.replicate (nBatches (chunksize S n) S - 1) 1, List.range (nBatches (chunksize S n) S)⟩
  have hv : s.Valid (nBatches (chunksize S n) S) n := by
    refine ⟨by simp [s]; omega, ?_, List.Perm.refl _⟩
    intro w hw
    simp only [s, List.mem_cons, List.mem_replicate] at hw
    rcases hw with rfl | ⟨_, rfl⟩ <;> omega
  obtain ⟨e₁, he₁, e₂, he₂, hshot, a2, b2, a3, b3⟩ :=
    par_found_fork_shares p0 len (chunksize S n) n S hcs s hv 0 1 (by omega) (by simp [s])
      (by simp only [s, List.mem_cons, List.mem_replicate]; right; exact ⟨by omega, trivial⟩)
  have hne : e₁ ≠ e₂ := fun h => hshot (by rw [h])
  have : Std.Symm (fun a b : Entry => a.src.Disjoint b.src) := ⟨fun _ _ h => Src.Disjoint.symm h⟩
  have hdis : e₁.src.Disjoint e₂.src := (hall s hv).forall he₁ he₂ hne
  exact not_disjoint_of_same_start (a2.trans b2.symm) (a3.trans b3.symm)
    (by rw [consume_len _ _ _ _ _ e₁ he₁]; exact hlen _)
    (by rw [consume_len _ _ _ _ _ e₂ he₂]; exact hlen _) hdis

/-- **pinned witness of D12** (`S = 2`, a machine with one core: two workers, chunk size 1, one
batch each): both shots draw from the parent's stream at the SAME position `p0`; with equal draw
counts the two draw sources are identical, so the two shots return the same vector whatever the
generator outputs and whatever the circuit is, and with a positive draw count the sources are not
disjoint. -/
theorem par_shares_pinned (p0 : Nat) (len : Nat → Nat) :
    let s : Schedule := ⟨[0, 1], [0, 1]⟩
    nProcesses 1 = 2 ∧ chunksize 2 2 = 1 ∧ s.Valid (nBatches (chunksize 2 2) 2) 2 ∧
    parRun (found .fork p0 len) 1 2 s
      = [⟨0, 0, ⟨.parent, p0, len 0⟩⟩, ⟨1, 1, ⟨.parent, p0, len 1⟩⟩] ∧
    (len 0 = len 1 → ∀ {D α : Type} (f : List D → List α) (draw : Stream × Nat → D),
      f (block draw ⟨.parent, p0, len 0⟩) = f (block draw ⟨.parent, p0, len 1⟩)) ∧
    (0 < len 0 → 0 < len 1 →
      ¬ (parRun (found .fork p0 len) 1 2 s).Pairwise (fun a b => a.src.Disjoint b.src)) := by
  intro s
  have hn : nProcesses 1 = 2 := by decide
  have hc : chunksize 2 2 = 1 := by decide
  have hch : ∀ l : List Arg, l.length = 2 → (chunks 1 l).length = 2 := by
    intro l hl
    match l, hl with
    | [a, b], _ => simp [chunks_of_ne_nil, chunks_of_nil]
  have hb : nBatches (chunksize 2 2) 2 = 2 := by
    unfold nBatches
    rw [hc]
    simp [List.range_succ, chunks_of_ne_nil, chunks_of_nil]
  have hv : s.Valid (nBatches (chunksize 2 2) 2) 2 := by
    rw [← validB_iff, hb]
    decide
  have hrun : parRun (found .fork p0 len) 1 2 s
      = [⟨0, 0, ⟨.parent, p0, len 0⟩⟩, ⟨1, 1, ⟨.parent, p0, len 1⟩⟩] := by
    simp [parRun, parRunN, parRunWith, found, hn, hc, mkArgs, List.range_succ, chunks_of_ne_nil, chunks_of_nil,
      consume, runShots, singleShot, workerInit, s]
  refine ⟨hn, hc, hv, hrun, ?_, ?_⟩
  · intro h D α f draw
    rw [h]
  · intro h0 h1 hpw
    rw [hrun] at hpw
    simp only [List.pairwise_cons, List.mem_cons, List.mem_nil_iff, or_false, forall_eq] at hpw
    exact not_disjoint_of_same_start (a := ⟨.parent, p0, len 0⟩) (b := ⟨.parent, p0, len 1⟩) rfl rfl h0 h1 hpw.1

/-- **the fork server with numpy preloaded** (the seeded-change family "attach the seeds only under `fork`"): code that
leaves the shots unseeded hands every worker the server's one generator state, so on the pinned schedule both shots draw
from the server's stream at the same position 0 — the same noise, exactly as under `fork`.  The seeds must therefore not
depend on the start method; the repaired code attaches them always (`par_disjoint` holds for every start method). -/
theorem par_shares_forkserver (p0 : Nat) (len : Nat → Nat) :
    let s : Schedule := ⟨[0, 1], [0, 1]⟩
    s.Valid (nBatches (chunksize 2 2) 2) 2 ∧
    parRun (found .forkserver p0 len) 1 2 s
      = [⟨0, 0, ⟨.server, 0, len 0⟩⟩, ⟨1, 1, ⟨.server, 0, len 1⟩⟩] ∧
    (0 < len 0 → 0 < len 1 →
      ¬ (parRun (found .forkserver p0 len) 1 2 s).Pairwise (fun a b => a.src.Disjoint b.src)) := by
  intro s
  have hn : nProcesses 1 = 2 := by decide
  have hc : chunksize 2 2 = 1 := by decide
  have hv := (par_shares_pinned p0 len).2.2.1
  have hrun : parRun (found .forkserver p0 len) 1 2 s
      = [⟨0, 0, ⟨.server, 0, len 0⟩⟩, ⟨1, 1, ⟨.server, 0, len 1⟩⟩] := by
    simp [parRun, parRunN, parRunWith, found, hn, hc, mkArgs, List.range_succ, chunks_of_ne_nil, chunks_of_nil,
      consume, runShots, singleShot, workerInit, s]
  refine ⟨hv, hrun, ?_⟩
  intro h0 h1 hpw
  rw [hrun] at hpw
  simp only [List.pairwise_cons, List.mem_cons, List.mem_nil_iff, or_false, forall_eq] at hpw
  exact not_disjoint_of_same_start (a := ⟨.server, 0, len 0⟩) (b := ⟨.server, 0, len 1⟩) rfl rfl h0 h1 hpw.1

/-- **the observed instance of D12**: 24 shots on a machine with 15 cores (12 workers, chunk size 2),
every worker taking one batch: the 24 shots draw from only TWO distinct sources — each of the 12
workers replays `[p0, p0+L)` and then `[p0+L, p0+2L)` of the parent's stream. -/
theorem par_shares_D12 (p0 L : Nat) :
    let s : Schedule := ⟨List.range 12, List.range 12⟩
    nProcesses 15 = 12 ∧ chunksize 24 12 = 2 ∧ s.Valid (nBatches (chunksize 24 12) 24) 12 ∧
    (parRun (found .fork p0 (fun _ => L)) 15 24 s).map (·.src)
      = (List.replicate 12 [(⟨.parent, p0, L⟩ : Src), ⟨.parent, p0 + L, L⟩]).flatten := by
  intro s
  have hn : nProcesses 15 = 12 := by decide
  have hc : chunksize 24 12 = 2 := by decide
  have hb : nBatches (chunksize 24 12) 24 = 12 := by
    unfold nBatches
    rw [hc]
    simp [List.range_succ, chunks_of_ne_nil, chunks_of_nil]
  have hv : s.Valid (nBatches (chunksize 24 12) 24) 12 := by
    rw [← validB_iff, hb]
    decide
  refine ⟨hn, hc, hv, ?_⟩
  simp [parRun, parRunN, parRunWith, found, hn, hc, mkArgs, List.range_succ, chunks_of_ne_nil, chunks_of_nil,
    consume, runShots, singleShot, workerInit, s, List.replicate]

/-- code as found under `spawn` / `forkserver`: every worker is a new interpreter with its own
OS-seeded generator, so the draw sources ARE pairwise disjoint for every schedule — but no shot
draws from the parent's stream, so the result is not a function of the seed the user set (a
parallel run cannot be reproduced).  The property quantifies over start methods; `fork` is the
default on Linux. -/
theorem par_found_spawn_disjoint (p0 : Nat) (len : Nat → Nat) (cs S : Nat) (hcs : 1 ≤ cs) (s : Schedule) :
    (parRunWith (found .spawn p0 len) cs S s).Pairwise (fun a b => a.src.Disjoint b.src) ∧
      ∀ e ∈ parRunWith (found .spawn p0 len) cs S s, e.src.stream = .fresh e.worker := by
  have h0 : (false && true) = false := rfl
  have hseed : ∀ task ∈ chunks cs (mkArgs false true ⟨.parent, p0⟩ S).1,
      ∀ a ∈ task, a.seed = none :=
    fun t ht a ha => mkArgs_unseeded _ _ h0 _ _ a (mem_of_mem_chunks hcs ht ha)
  obtain ⟨h1, h2⟩ := consume_unseeded_disjoint len _ s.worker hseed s.order
    (workerInit .spawn (mkArgs false true ⟨.parent, p0⟩ S).2) (by
      intro v w hvw h
      simp only [workerInit, Stream.fresh.injEq] at h
      exact hvw h)
  exact ⟨h1, fun e he => (h2 e he).1⟩

/-! ## Parallel mode, repaired code: the property holds -/

/-- the repaired code -/
def repaired (start : StartMethod) (p0 : Nat) (len : Nat → Nat) : Config := ⟨true, start, p0, len⟩

/-- **distinct seeds**: in parallel mode the repaired code gives every shot a seed, and the seeds of
different shots are different children of one seed sequence (distinct by construction, not merely
with high probability — what a birthday bound would give for random 32-bit seeds) -/
theorem par_seeds_distinct (g : Gen) (S : Nat) :
    ((mkArgs true true g S).1.map (·.seed)).Nodup ∧ ∀ a ∈ (mkArgs true true g S).1, a.seed ≠ none := by
  constructor
  · simp only [mkArgs, Bool.and_self, if_true, List.map_map]
    refine List.Nodup.map ?_ List.nodup_range
    intro i j h
    simpa using h
  · intro a ha
    rw [mkArgs_seeded g S a ha]
    simp

/-- **draw sources of the repaired code**: whatever the start method, the pool size and the
schedule, shot `i` draws the first `len i` outputs of ITS OWN stream `child p0 i` (the `i`-th child
of the seed sequence whose entropy the parent drew at position `p0`). -/
theorem par_sources (start : StartMethod) (p0 : Nat) (len : Nat → Nat) (cs n S : Nat) (hcs : 1 ≤ cs) (s : Schedule)
    (hs : s.Valid (nBatches cs S) n) :
    ∀ e ∈ parRunWith (repaired start p0 len) cs S s, e.src = ⟨.child p0 e.shot, 0, len e.shot⟩ := by
  have hseed : ∀ task ∈ chunks cs (mkArgs true true ⟨.parent, p0⟩ S).1,
      ∀ a ∈ task, a.seed = some (Stream.child p0 a.index) :=
    fun t ht a ha => mkArgs_seeded ⟨.parent, p0⟩ S a (mem_of_mem_chunks hcs ht ha)
  intro e he
  have he' : e ∈ consume len (chunks cs (mkArgs true true ⟨.parent, p0⟩ S).1) s.worker
      (workerInit start (mkArgs true true ⟨.parent, p0⟩ S).2) s.order := he
  rw [consume_seeded len (Stream.child p0) _ s.worker hseed s.order _
    (valid_indices (repaired start p0 len) cs n S hcs s hs)] at he'
  obtain ⟨c, _, he⟩ := List.mem_flatMap.mp he'
  obtain ⟨a, _, rfl⟩ := List.mem_map.mp he
  rfl

/-- **THE PROPERTY, parallel mode**: for the repaired code, every start method, every number of
shots, every pool size, every valid schedule (assignment of batches to workers and completion
order), every parent position and all draw counts, the draw sources of the shots are pairwise
disjoint — no two shots share a noise realisation. -/
theorem par_disjoint (start : StartMethod) (p0 : Nat) (len : Nat → Nat) (cs n S : Nat) (hcs : 1 ≤ cs) (s : Schedule)
    (hs : s.Valid (nBatches cs S) n) :
    (parRunWith (repaired start p0 len) cs S s).Pairwise (fun a b => a.src.Disjoint b.src) := by
  have hnd : ((parRunWith (repaired start p0 len) cs S s).map (·.shot)).Nodup :=
    (par_runs_each_shot_once (repaired start p0 len) cs n S hcs s hs).nodup_iff.mpr List.nodup_range
  have hsrc := par_sources start p0 len cs n S hcs s hs
  rw [List.Nodup, List.pairwise_map] at hnd
  refine hnd.imp_of_mem ?_
  intro a b ha hb hab
  apply disjoint_of_stream_ne
  rw [hsrc a ha, hsrc b hb]
  intro h
  simp only [Stream.child.injEq, true_and] at h
  exact hab h

/-- the same for the pool size the code derives from the number of cores -/
theorem par_disjoint_cpu (start : StartMethod) (p0 : Nat) (len : Nat → Nat) (cpu S : Nat) (s : Schedule)
    (hs : s.Valid (nBatches (chunksize S (nProcesses cpu)) S) (nProcesses cpu)) :
    (parRun (repaired start p0 len) cpu S s).Pairwise (fun a b => a.src.Disjoint b.src) :=
  par_disjoint start p0 len _ (nProcesses cpu) S (chunksize_pos _ _) s hs

/-- **reproducibility of the repaired code**: the draw source of shot `i` depends on nothing but the
parent's position (i.e. the seed the user set) and `i` — not on the start method, the number of
cores or the schedule.  With the order independence of the mean, a parallel run under a fixed
numpy seed returns the same result however it is scheduled. -/
theorem par_schedule_independent (p0 : Nat) (len : Nat → Nat) (S : Nat)
    (start start' : StartMethod) (cs cs' n n' : Nat) (hcs : 1 ≤ cs) (hcs' : 1 ≤ cs') (s s' : Schedule)
    (hs : s.Valid (nBatches cs S) n) (hs' : s'.Valid (nBatches cs' S) n') :
    ∀ e ∈ parRunWith (repaired start p0 len) cs S s, ∀ e' ∈ parRunWith (repaired start' p0 len) cs' S s',
      e.shot = e'.shot → e.src = e'.src := by
  intro e he e' he' h
  rw [par_sources start p0 len cs n S hcs s hs e he, par_sources start' p0 len cs' n' S hcs' s' hs' e' he', h]

/-- the parent's own generator: the repaired code spends `entropyDraws` outputs of the parent's
stream on the seeds in parallel mode — and none in sequential mode (nor does the code as found) -/
theorem parent_draws (g : Gen) (S : Nat) :
    (mkArgs true true g S).2 = ⟨g.stream, g.pos + entropyDraws⟩ ∧ (mkArgs true false g S).2 = g ∧
      (mkArgs false true g S).2 = g ∧ (mkArgs false false g S).2 = g := by
  simp [mkArgs]

/-- the parent's generator when the simulation returns: after a sequential run it stands behind the
last shot's interval; after a parallel run it stands where it stood — except that the repaired code
has spent `entropyDraws` outputs on the seeds (so a second parallel run gets new seeds, whereas the
code as found replays the very same realisations in every parallel run of a process) -/
theorem parent_generator_after (cfg : Config) (S : Nat) :
    parentAfter cfg false S = ⟨.parent, cfg.p0 + cum cfg.len S⟩ ∧
      parentAfter cfg true S = ⟨.parent, cfg.p0 + (if cfg.repaired then entropyDraws else 0)⟩ := by
  have h0 : (cfg.repaired && false) = false := by simp
  refine ⟨?_, ?_⟩
  · unfold parentAfter
    simp only [Bool.false_eq_true, if_false, mkArgs_gen_unrepaired _ _ h0]
    obtain ⟨_, h2⟩ := runShots_unseeded cfg.len ⟨.parent, cfg.p0⟩
      (mkArgs cfg.repaired false ⟨.parent, cfg.p0⟩ S).1 (mkArgs_unseeded _ _ h0 _ _)
    rw [h2, mkArgs_index, sum_map_range_eq_cum]
  · unfold parentAfter
    cases hr : cfg.repaired <;> simp [mkArgs]

/-- **the parallel estimator is the sequential estimator on relabelled generator outputs.**
For the repaired code, every start method, pool size and valid schedule there is a map `σ` of
generator positions which
* is a bijection from the positions the parallel run draws from onto the positions the sequential
  run draws from (`used`), and
* turns the parallel run into the sequential one: every shot sees, in parallel mode under the
  outputs `draw ∘ σ`, exactly the block of outputs it sees in sequential mode under `draw`; hence
  (any field, any circuit function `f`) the two runs return the same result, error case included.
Under the trusted idealisation (outputs at distinct positions are i.i.d.) `draw ∘ σ` restricted to the
used positions has the law of `draw`, so the two estimators have the same distribution. -/
theorem par_equidistributed (start : StartMethod) (p0 : Nat) (len : Nat → Nat) (cs n S : Nat) (hcs : 1 ≤ cs) (s : Schedule)
    (hs : s.Valid (nBatches cs S) n) :
    ∃ σ : Stream × Nat → Stream × Nat,
      Set.BijOn σ (used (parRunWith (repaired start p0 len) cs S s)) (used (seqRun (repaired start p0 len) S)) ∧
      (∀ {D : Type} (draw : Stream × Nat → D),
        ∀ e ∈ parRunWith (repaired start p0 len) cs S s, ∀ e' ∈ seqRun (repaired start p0 len) S,
          e.shot = e'.shot → block (draw ∘ σ) e.src = block draw e'.src) ∧
      (∀ {D : Type} (pos : K → Bool) (d : Nat) (f : List D → List K) (draw : Stream × Nat → D),
        runResult (fieldNum K pos) d S f (draw ∘ σ) (parRunWith (repaired start p0 len) cs S s)
          = runResult (fieldNum K pos) d S f draw (seqRun (repaired start p0 len) S)) := by
  have hsrc := par_sources start p0 len cs n S hcs s hs
  have hperm := par_runs_each_shot_once (repaired start p0 len) cs n S hcs s hs
  have hseq := seq_sources (repaired start p0 len) S
  have hlenS : (repaired start p0 len).len = len := rfl
  have hp0 : (repaired start p0 len).p0 = p0 := rfl
  rw [hlenS, hp0] at hseq
  -- the block shot `i` sees
  have hblock : ∀ {D : Type} (draw : Stream × Nat → D) (i : Nat),
      block (draw ∘ relabel len p0) ⟨.child p0 i, 0, len i⟩ = block draw ⟨.parent, p0 + cum len i, len i⟩ := by
    intro D draw i
    simp [block, relabel]
  refine ⟨relabel len p0, ⟨?_, ?_, ?_⟩, ?_, ?_⟩
  · -- maps to
    rintro ⟨st, k⟩ ⟨e, he, h1, h2, h3⟩
    rw [hsrc e he] at h1 h2 h3
    simp only at h1 h2 h3
    subst h1
    have hi : e.shot < S := List.mem_range.mp (hperm.subset (List.mem_map_of_mem he))
    refine ⟨⟨e.shot, 0, ⟨.parent, p0 + cum len e.shot, len e.shot⟩⟩, ?_, ?_⟩
    · rw [hseq]; exact List.mem_map.mpr ⟨e.shot, List.mem_range.mpr hi, rfl⟩
    · simp only [relabel, Src.covers]
      exact ⟨trivial, by omega, by omega⟩
  · -- injective
    rintro ⟨st, k⟩ ⟨e, he, h1, h2, h3⟩ ⟨st', k'⟩ ⟨e', he', h1', h2', h3'⟩ heq
    rw [hsrc e he] at h1 h2 h3
    rw [hsrc e' he'] at h1' h2' h3'
    simp only at h1 h2 h3 h1' h2' h3'
    subst h1 h1'
    simp only [relabel, Prod.mk.injEq, true_and] at heq
    obtain ⟨hi, hk⟩ := cum_inj len (i := e.shot) (j := e'.shot) (k := k) (k' := k') (by omega) (by omega) (by omega)
    rw [hi, hk]
  · -- onto
    rintro ⟨st, q⟩ ⟨e', he', h1, h2, h3⟩
    rw [hseq] at he'
    obtain ⟨i, hi, rfl⟩ := List.mem_map.mp he'
    simp only at h1 h2 h3
    subst h1
    have hi' : i ∈ (parRunWith (repaired start p0 len) cs S s).map (·.shot) := hperm.symm.subset hi
    obtain ⟨e, he, rfl⟩ := List.mem_map.mp hi'
    refine ⟨(.child p0 e.shot, q - (p0 + cum len e.shot)), ⟨e, he, ?_⟩, ?_⟩
    · rw [hsrc e he]
      exact ⟨rfl, by simp only; omega, by simp only; omega⟩
    · simp only [relabel, Prod.mk.injEq, true_and]
      omega
  · -- blocks
    intro D draw e he e' he' hshot
    rw [hseq] at he'
    obtain ⟨i, _, rfl⟩ := List.mem_map.mp he'
    rw [hsrc e he, hshot]
    exact hblock draw i
  · -- results
    intro D pos d f draw
    unfold runResult
    have h1 : (parRunWith (repaired start p0 len) cs S s).map (fun e => f (block (draw ∘ relabel len p0) e.src))
        = (parRunWith (repaired start p0 len) cs S s).map
            (fun e => (fun i => f (block draw ⟨.parent, p0 + cum len i, len i⟩)) e.shot) := by
      apply List.map_congr_left
      intro e he
      rw [hsrc e he, hblock]
    have h2 : (seqRun (repaired start p0 len) S).map (fun e => f (block draw e.src))
        = (List.range S).map (fun i => f (block draw ⟨.parent, p0 + cum len i, len i⟩)) := by
      rw [hseq, List.map_map]
      rfl
    rw [h1, h2]
    exact mean_order_independent pos d S (fun i => f (block draw ⟨.parent, p0 + cum len i, len i⟩)) _ hperm

/-- `par_equidistributed` for the pool the code builds on a machine with `cpu` cores -/
theorem par_equidistributed_cpu (start : StartMethod) (p0 : Nat) (len : Nat → Nat) (cpu S : Nat)
    (s : Schedule) (hs : s.Valid (nBatches (chunksize S (nProcesses cpu)) S) (nProcesses cpu)) :
    ∃ σ : Stream × Nat → Stream × Nat,
      Set.BijOn σ (used (parRun (repaired start p0 len) cpu S s)) (used (seqRun (repaired start p0 len) S)) ∧
      (∀ {D : Type} (pos : K → Bool) (d : Nat) (f : List D → List K) (draw : Stream × Nat → D),
        runResult (fieldNum K pos) d S f (draw ∘ σ) (parRun (repaired start p0 len) cpu S s)
          = runResult (fieldNum K pos) d S f draw (seqRun (repaired start p0 len) S)) := by
  obtain ⟨σ, h1, _, h3⟩ := par_equidistributed (K := K) start p0 len _ (nProcesses cpu) S
    (chunksize_pos _ _) s hs
  exact ⟨σ, h1, h3⟩

/-! ## Non-vacuity -/

/-- seven shots on a 4-core machine: 3 workers, chunk size 3, batches `[0,1,2] [3,4,5] [6]`; worker 0
takes the first and the last batch, worker 1 the middle one, which completes first.  The schedule
is valid; the repaired code gives every shot its own stream, the code as found lets shots 0 and 3
(and 1 and 4, 2 and 5) share theirs under `fork`. -/
example :
    let s : Schedule := ⟨[0, 1, 0], [1, 0, 2]⟩
    nProcesses 4 = 3 ∧ chunksize 7 3 = 3 ∧ s.Valid (nBatches (chunksize 7 (nProcesses 4)) 7) (nProcesses 4) ∧
    (parRun (repaired .fork 5 (fun _ => 2)) 4 7 s).map (fun e => (e.shot, e.worker, e.src))
      = [(3, 1, ⟨.child 5 3, 0, 2⟩), (4, 1, ⟨.child 5 4, 0, 2⟩), (5, 1, ⟨.child 5 5, 0, 2⟩),
         (0, 0, ⟨.child 5 0, 0, 2⟩), (1, 0, ⟨.child 5 1, 0, 2⟩), (2, 0, ⟨.child 5 2, 0, 2⟩),
         (6, 0, ⟨.child 5 6, 0, 2⟩)] ∧
    (parRun (found .fork 5 (fun _ => 2)) 4 7 s).map (fun e => (e.shot, e.src))
      = [(3, ⟨.parent, 5, 2⟩), (4, ⟨.parent, 7, 2⟩), (5, ⟨.parent, 9, 2⟩),
         (0, ⟨.parent, 5, 2⟩), (1, ⟨.parent, 7, 2⟩), (2, ⟨.parent, 9, 2⟩), (6, ⟨.parent, 11, 2⟩)] := by
  intro s
  have hn : nProcesses 4 = 3 := by decide
  have hc : chunksize 7 3 = 3 := by decide
  have hb : nBatches (chunksize 7 3) 7 = 3 := by
    unfold nBatches
    rw [hc]
    simp [List.range_succ, chunks_of_ne_nil, chunks_of_nil]
  refine ⟨hn, hc, ?_, ?_, ?_⟩
  · rw [← validB_iff, hn, hb]
    decide
  · simp [parRun, parRunN, parRunWith, repaired, hn, hc, mkArgs, List.range_succ, chunks_of_ne_nil, chunks_of_nil,
      consume, runShots, singleShot, s]
  · simp [parRun, parRunN, parRunWith, found, hn, hc, mkArgs, List.range_succ, chunks_of_ne_nil, chunks_of_nil,
      consume, runShots, singleShot, workerInit, s]

/-- `estimate_spec` on a concrete run over ℚ: two shots `[1/2, 1/2]`, `[1/4, 1/4]` (an unnormalised
mean `[3/8, 3/8]`) give `[1/2, 1/2]`; an all-zero run raises `AssertionError`. -/
example :
    estimate (fieldNum ℚ (fun x => decide (0 < x))) 2 2 [[1/2, 1/2], [1/4, 1/4]] = .ok [1/2, 1/2] ∧
    estimate (fieldNum ℚ (fun x => decide (0 < x))) 2 2 [[0, 0], [0, 0]] = .error "AssertionError" := by
  constructor <;> (simp [estimate, normalise, accumulate, addVec, fieldNum, List.replicate]; try norm_num)

end QG.C09
