import QG.Lemmas.Calibration

/-!
# C20 — calibration import reproduces the backend's values for the requested qubits

Property theorems only (helper lemmas: `QG/Lemmas/Calibration.lean`; model: `QG/Model/Calibration.lean`).

`load zero L b` is the model of `DeviceParameters(L).load_from_backend(b)` as repaired by
`notes/fixes/D25-mixed-two-qubit-basis.diff`: `L` the qubit layout (any list of labels: any length, any order,
scattered, repeated), `b` the backend as the record of what the function reads from it, `zero` the `0.0` of
`np.zeros`.  Calibration values are of an arbitrary type.  A dict is its item list and `d[k]` is `List.lookup k d`.

Vocabulary of the statements:
* `maxLabel L = some M`  — `M` is the largest requested label (`max_label_spec`);
* `natives basis` — the supported two-qubit gates (`ecr`, `cx`) the basis lists, in basis order (`natives_spec`);
* `calib b (i, j)` — the backend's native two-qubit gate values `(gate_error, gate_length)` of the ordered pair `(i, j)`:
  the entry of the first supported gate of the basis whose calibration dict has the pair (`calib_eq_some_iff`);
  `none` iff no supported gate of the basis calibrates the pair (`calib_eq_none_iff`); for a basis with a single
  supported gate it is that gate's dict (`calib_single_gate`);
* `entry t i j` — `t[i][j]`; `HasShape t n` — `t.shape == (n, n)`.
-/
namespace QG.C20
open QG.Model.Calibration QG.Lemmas.Calibration

variable {Val : Type}

/-- `t[i][j]` -/
def entry (t : List (List Val)) (i j : Nat) : Option Val := t[i]? >>= fun row => row[j]?

/-- `t.shape == (n, n)` -/
def HasShape (t : List (List Val)) (n : Nat) : Prop := t.length = n ∧ ∀ row ∈ t, row.length = n

/-- the backend's native two-qubit gate values of an ordered pair: looked up in the calibration dicts of the supported
gates of the basis, in basis order -/
def calib (b : Backend Val) (k : Nat × Nat) : Option (Val × Val) :=
  (natives b.basis).findSome? fun g => (List.lookup g b.gate2).bind (List.lookup k)

/-- the calibration record of qubit `q` is incomplete as far as the four comprehensions before `dt` read it -/
def MissingEarly (b : Backend Val) (q : Nat) : Prop :=
  List.lookup q b.t1 = none ∨ List.lookup q b.t2 = none ∨ List.lookup q b.xerr = none ∨ List.lookup q b.rerr = none

/-- which exception `load_from_backend` ends in (`none`: it returns), in the order the statements run -/
noncomputable def verdict (L : List Nat) (b : Backend Val) : Option Err :=
  open Classical in
  if b.kind = .other then some .value                                   -- unsupported type: before anything is read
  else if natives b.basis = [] then some .value                          -- no supported two-qubit gate: before the lookups
  else if ∃ q ∈ L, MissingEarly b q then some .property                  -- T1, T2, p, rout comprehensions
  else if b.dt = none then some .attribute                               -- config.dt
  else if ∃ q ∈ L, List.lookup q b.rlen = none then some .property       -- tm comprehension
  else if L = [] then some .value                                        -- np.max([])
  else if ∃ g ∈ natives b.basis, List.lookup g b.gate2 = none then some .property   -- prop.gate_property(g)
  else none

/-! ### what a successful load looks like (helpers, private) -/

private theorem load_eq_core (zero : Val) (L : List Nat) (b : Backend Val) (hk : b.kind ≠ .other)
    (hn : natives b.basis ≠ []) : load zero L b = loadCore zero L b (natives b.basis) := by
  unfold load
  cases hkk : b.kind
  · cases hnn : natives b.basis with
    | nil => exact absurd hnn hn
    | cons g gs => rfl
  · cases hnn : natives b.basis with
    | nil => exact absurd hnn hn
    | cons g gs => rfl
  · exact absurd hkk hk

private theorem load_ok_inv (zero : Val) (L : List Nat) (b : Backend Val) (r : Params Val)
    (h : load zero L b = .ok r) :
    b.kind ≠ .other ∧ natives b.basis ≠ [] ∧
      perQubit b.t1 L = .ok r.T1 ∧ perQubit b.t2 L = .ok r.T2 ∧ perQubit b.xerr L = .ok r.p ∧
      perQubit b.rerr L = .ok r.rout ∧ perQubit b.rlen L = .ok r.tm ∧ (∃ d, b.dt = some d ∧ r.dt = [d]) ∧
      ∃ M Gs, maxLabel L = some M ∧ intInfos b.gate2 (natives b.basis) = .ok Gs ∧
        (r.p_int, r.t_int) = (if M + 1 > 1 then fillAll (M + 1) Gs.reverse (zeros zero (M + 1), zeros zero (M + 1))
                              else (zeros zero (M + 1), zeros zero (M + 1))) := by
  have hk : b.kind ≠ .other := by
    intro hk; unfold load at h; rw [hk] at h; cases h
  have hn : natives b.basis ≠ [] := by
    intro hn; unfold load at h; rw [hn] at h
    cases hkk : b.kind <;> rw [hkk] at h <;> cases h
  rw [load_eq_core zero L b hk hn] at h
  unfold loadCore at h
  cases h1 : perQubit b.t1 L with
  | error e => rw [h1] at h; cases h
  | ok T1 =>
  cases h2 : perQubit b.t2 L with
  | error e => rw [h1, h2] at h; cases h
  | ok T2 =>
  cases h3 : perQubit b.xerr L with
  | error e => rw [h1, h2, h3] at h; cases h
  | ok p =>
  cases h4 : perQubit b.rerr L with
  | error e => rw [h1, h2, h3, h4] at h; cases h
  | ok rout =>
  cases h5 : b.dt with
  | none => rw [h1, h2, h3, h4, h5] at h; cases h
  | some d =>
  cases h6 : perQubit b.rlen L with
  | error e => rw [h1, h2, h3, h4, h5, h6] at h; cases h
  | ok tm =>
  cases h7 : maxLabel L with
  | none => rw [h1, h2, h3, h4, h5, h6, h7] at h; cases h
  | some M =>
  cases h8 : intInfos b.gate2 (natives b.basis) with
  | error e => rw [h1, h2, h3, h4, h5, h6, h7] at h; simp [h8] at h
  | ok Gs =>
  rw [h1, h2, h3, h4, h5, h6, h7] at h
  simp only [h8, Except.ok.injEq] at h
  subst h
  exact ⟨hk, hn, rfl, rfl, rfl, rfl, rfl, ⟨d, rfl, rfl⟩, M, Gs, rfl, rfl, rfl⟩

/-! ### vocabulary lemmas -/

/-- `maxLabel L = some M` says: `M` is a requested label and no requested label is larger -/
theorem max_label_spec (L : List Nat) (M : Nat) : maxLabel L = some M ↔ M ∈ L ∧ ∀ q ∈ L, q ≤ M :=
  maxLabel_eq_some_iff L M

/-- the supported gates of a basis are its entries `ecr` / `cx` (kept in basis order: `natives` is a `filter`) -/
theorem natives_spec (basis : List String) (g : String) :
    g ∈ natives basis ↔ g ∈ basis ∧ (g = "ecr" ∨ g = "cx") :=
  mem_natives_iff basis g

/-- "zero elsewhere": `calib` has no value for a pair iff no supported gate of the basis calibrates it -/
theorem calib_eq_none_iff (b : Backend Val) (k : Nat × Nat) :
    calib b k = none ↔ ∀ g ∈ natives b.basis, ∀ G, List.lookup g b.gate2 = some G → List.lookup k G = none := by
  unfold calib
  rw [List.findSome?_eq_none_iff]
  constructor
  · intro h g hg G hG
    have := h g hg
    rwa [hG] at this
  · intro h g hg
    cases hG : List.lookup g b.gate2 with
    | none => rfl
    | some G => exact h g hg G hG

/-- `calib` has the value `v` for a pair iff some supported gate of the basis calibrates it with `v` and no supported
gate standing earlier in the basis calibrates the pair at all -/
theorem calib_eq_some_iff (b : Backend Val) (k : Nat × Nat) (v : Val × Val) :
    calib b k = some v ↔ ∃ pre g post G, natives b.basis = pre ++ g :: post ∧ List.lookup g b.gate2 = some G ∧
      List.lookup k G = some v ∧ ∀ g' ∈ pre, ∀ G', List.lookup g' b.gate2 = some G' → List.lookup k G' = none := by
  unfold calib
  rw [List.findSome?_eq_some_iff]
  constructor
  · rintro ⟨pre, g, post, hb, hv, hpre⟩
    cases hG : List.lookup g b.gate2 with
    | none => rw [hG] at hv; cases hv
    | some G =>
      rw [hG] at hv
      refine ⟨pre, g, post, G, hb, hG, hv, ?_⟩
      intro g' hg' G' hG'
      have := hpre g' hg'
      rwa [hG'] at this
  · rintro ⟨pre, g, post, G, hb, hG, hv, hpre⟩
    refine ⟨pre, g, post, hb, by rw [hG]; exact hv, ?_⟩
    intro g' hg'
    cases hG' : List.lookup g' b.gate2 with
    | none => rfl
    | some G' => exact hpre g' hg' G' hG'

/-- a basis with a single supported gate (every bundled device but FakeCairoV2): `calib` is that gate's dict -/
theorem calib_single_gate (b : Backend Val) (g : String) (G : List ((Nat × Nat) × (Val × Val)))
    (hb : natives b.basis = [g]) (hG : List.lookup g b.gate2 = some G) (k : Nat × Nat) :
    calib b k = List.lookup k G := by
  unfold calib
  rw [hb]
  simp only [List.findSome?_cons, hG, Option.bind_some, List.findSome?_nil]
  cases List.lookup k G <;> rfl

/-! ### the per-qubit values -/

/-- **C20, per-qubit clause.**  After a successful load the five per-qubit lists have the length of the layout and
hold, position by position, exactly the backend's value of the qubit the layout names there
(`xs.map some = L.map (lookup · m)` says both); `dt` is the one-element list of the backend's `dt`. -/
theorem per_qubit_spec (zero : Val) (L : List Nat) (b : Backend Val) (r : Params Val)
    (h : load zero L b = .ok r) :
    r.T1.map some = L.map (fun q => List.lookup q b.t1) ∧
    r.T2.map some = L.map (fun q => List.lookup q b.t2) ∧
    r.p.map some = L.map (fun q => List.lookup q b.xerr) ∧
    r.rout.map some = L.map (fun q => List.lookup q b.rerr) ∧
    r.tm.map some = L.map (fun q => List.lookup q b.rlen) ∧
    ∃ d, b.dt = some d ∧ r.dt = [d] := by
  obtain ⟨_, _, h1, h2, h3, h4, h5, hd, _⟩ := load_ok_inv zero L b r h
  exact ⟨(perQubit_ok_iff _ _ _).mp h1, (perQubit_ok_iff _ _ _).mp h2, (perQubit_ok_iff _ _ _).mp h3,
    (perQubit_ok_iff _ _ _).mp h4, (perQubit_ok_iff _ _ _).mp h5, hd⟩

/-- the same, read at a position: `T1[k]` is the backend's `t1(L[k])`, and so on -/
theorem per_qubit_at (zero : Val) (L : List Nat) (b : Backend Val) (r : Params Val)
    (h : load zero L b = .ok r) (k : Nat) (hk : k < L.length) :
    (r.T1[k]?, r.T2[k]?, r.p[k]?, r.rout[k]?, r.tm[k]?) =
      (List.lookup L[k] b.t1, List.lookup L[k] b.t2, List.lookup L[k] b.xerr, List.lookup L[k] b.rerr,
        List.lookup L[k] b.rlen) ∧
    (r.T1[k]?).isSome := by
  obtain ⟨h1, h2, h3, h4, h5, _⟩ := per_qubit_spec zero L b r h
  have key : ∀ (xs : List Val) (m : List (Nat × Val)),
      xs.map some = L.map (fun q => List.lookup q m) → xs[k]? = List.lookup L[k] m ∧ (xs[k]?).isSome := by
    intro xs m hx
    have hl : xs.length = L.length := by simpa using congrArg List.length hx
    have hkx : k < xs.length := by omega
    have := congrArg (fun l => l[k]?) hx
    simp only [List.getElem?_map, List.getElem?_eq_getElem hk, List.getElem?_eq_getElem hkx, Option.map_some,
      Option.some.injEq] at this
    rw [List.getElem?_eq_getElem hkx]
    exact ⟨this, rfl⟩
  obtain ⟨a1, a2⟩ := key _ _ h1
  rw [a1, (key _ _ h2).1, (key _ _ h3).1, (key _ _ h4).1, (key _ _ h5).1]
  exact ⟨rfl, a1 ▸ a2⟩

/-! ### the two-qubit tables -/

/-- both tables are square of side (largest requested label) + 1 -/
theorem table_shape (zero : Val) (L : List Nat) (b : Backend Val) (r : Params Val)
    (h : load zero L b = .ok r) :
    ∃ M, maxLabel L = some M ∧ HasShape r.p_int (M + 1) ∧ HasShape r.t_int (M + 1) := by
  obtain ⟨_, _, _, _, _, _, _, _, M, Gs, hM, _, hpt⟩ := load_ok_inv zero L b r h
  refine ⟨M, hM, ?_⟩
  have hz := square_zeros zero (M + 1)
  split at hpt
  · have := fillAll_square (M + 1) (M + 1) Gs.reverse _ _ hz hz
    rw [← hpt] at this
    exact this
  · simp only [Prod.mk.injEq] at hpt
    rw [hpt.1, hpt.2]
    exact ⟨hz, hz⟩

/-- **C20, table clause (exact form).**  Let `M` be the largest requested label.  For all `i, j ≤ M`: if `M ≥ 1`,
`p_int[i][j]` is the backend's native two-qubit gate error of the ordered pair `(i, j)` (`calib`: the value under the
first supported gate of the basis that calibrates the pair — on a mixed cx/ecr device every pair calibrated with either
gate is imported) and `zero` when no supported gate of the basis calibrates the pair; `t_int[i][j]` likewise the gate
length.  If `M = 0` (every requested label is 0) the guard `max_qubit > 1` skips the loop and the only cell holds
`zero`.  Pairs with an index above `M` are outside the tables (`table_shape`). -/
theorem table_spec (zero : Val) (L : List Nat) (b : Backend Val) (r : Params Val)
    (h : load zero L b = .ok r) (M : Nat) (hM : maxLabel L = some M) (i j : Nat) (hi : i ≤ M) (hj : j ≤ M) :
    entry r.p_int i j = some (if 1 ≤ M then ((calib b (i, j)).map (·.1)).getD zero else zero) ∧
    entry r.t_int i j = some (if 1 ≤ M then ((calib b (i, j)).map (·.2)).getD zero else zero) := by
  obtain ⟨_, _, _, _, _, _, _, _, M', Gs, hM', hGs, hpt⟩ := load_ok_inv zero L b r h
  rw [hM] at hM'; cases hM'
  have hcal : firstHit Gs (i, j) = calib b (i, j) :=
    firstHit_eq_findSome b.gate2 (natives b.basis) Gs ((intInfos_ok_iff _ _ _).mp hGs) (i, j)
  have hz := square_zeros zero (M + 1)
  have hcz := cell_zeros zero (M + 1) i j (by omega) (by omega)
  by_cases h1 : 1 ≤ M
  · have hgt : M + 1 > 1 := by omega
    simp only [hgt, if_true] at hpt
    obtain ⟨c1, c2⟩ := cell_fillAll_reverse (M + 1) (by omega) Gs _ _ hz hz i j (by omega) (by omega)
    have e1 : r.p_int = (fillAll (M + 1) Gs.reverse (zeros zero (M + 1), zeros zero (M + 1))).1 := by rw [← hpt]
    have e2 : r.t_int = (fillAll (M + 1) Gs.reverse (zeros zero (M + 1), zeros zero (M + 1))).2 := by rw [← hpt]
    simp only [h1, if_true]
    change cell r.p_int i j = _ ∧ cell r.t_int i j = _
    rw [e1, e2, c1, c2, hcz, hcal]
    cases calib b (i, j) <;> simp
  · have hgt : ¬ (M + 1 > 1) := by omega
    simp only [hgt, if_false, Prod.mk.injEq] at hpt
    simp only [h1, if_false]
    change cell r.p_int i j = _ ∧ cell r.t_int i j = _
    rw [hpt.1, hpt.2]
    exact ⟨hcz, hcz⟩

/-- **C20, table clause as the property words it**, for every layout including the single qubit labelled 0: when no
two-qubit gate record couples a qubit with itself (true of every device: a two-qubit gate acts on two qubits), the
guard is invisible and each cell inside the tables holds the backend's native two-qubit gate value of its ordered pair
if some supported gate of the basis calibrates the pair, and `zero` elsewhere. -/
theorem table_spec_no_self_pair (zero : Val) (L : List Nat) (b : Backend Val) (r : Params Val)
    (h : load zero L b = .ok r) (M : Nat) (hM : maxLabel L = some M)
    (hself : ∀ g ∈ natives b.basis, ∀ G, List.lookup g b.gate2 = some G → ∀ x ∈ G, x.1.1 ≠ x.1.2)
    (i j : Nat) (hi : i ≤ M) (hj : j ≤ M) :
    entry r.p_int i j = some (((calib b (i, j)).map (·.1)).getD zero) ∧
    entry r.t_int i j = some (((calib b (i, j)).map (·.2)).getD zero) := by
  have := table_spec zero L b r h M hM i j hi hj
  by_cases h1 : 1 ≤ M
  · simpa [h1] using this
  · have hi0 : i = 0 := by omega
    have hj0 : j = 0 := by omega
    subst hi0 hj0
    have hnone : calib b (0, 0) = none := by
      rw [calib_eq_none_iff]
      intro g hg G hG
      by_contra hne
      have hs : (List.lookup (0, 0) G).isSome := Option.isSome_iff_ne_none.mpr hne
      obtain ⟨x, hx, hx0⟩ := List.mem_map.mp ((mem_keys_iff_lookup_isSome G (0, 0)).mpr hs)
      have := hself g hg G hG x hx
      rw [hx0] at this
      exact this rfl
    simpa [h1, hnone] using this

/-- the single-qubit case with label 0 spelled out: the tables are the 1×1 zero table whatever the backend holds -/
theorem table_single_label_zero (zero : Val) (L : List Nat) (b : Backend Val) (r : Params Val)
    (h : load zero L b = .ok r) (hM : maxLabel L = some 0) : r.p_int = [[zero]] ∧ r.t_int = [[zero]] := by
  obtain ⟨_, _, _, _, _, _, _, _, M', Gs, hM', _, hpt⟩ := load_ok_inv zero L b r h
  rw [hM] at hM'; cases hM'
  simp only [Nat.zero_add, gt_iff_lt, Nat.lt_irrefl, if_false, Prod.mk.injEq] at hpt
  rw [hpt.1, hpt.2]
  exact ⟨rfl, rfl⟩

/-! ### rejection and the order of the checks -/

/-- **which outcome wins**: the model ends in exactly the exception `verdict` names, and returns iff it names none.
Both rejections of the property come before any calibration value is read. -/
theorem error_order (zero : Val) (L : List Nat) (b : Backend Val) :
    match load zero L b with
    | .error e => verdict L b = some e
    | .ok _ => verdict L b = none := by
  have pq : ∀ m : List (Nat × Val), (∃ vs, perQubit m L = .ok vs ∧ ∀ q ∈ L, List.lookup q m ≠ none) ∨
      (perQubit m L = .error .property ∧ ∃ q ∈ L, List.lookup q m = none) := by
    intro m
    cases hr : perQubit m L with
    | ok vs =>
      left
      refine ⟨vs, rfl, fun q hq hn => ?_⟩
      have := (perQubit_isOk_iff m L).mp ⟨vs, hr⟩ q hq
      rw [hn] at this
      cases this
    | error e =>
      right
      obtain ⟨rfl, hq⟩ := (perQubit_error_iff m L e).mp hr
      exact ⟨rfl, hq⟩
  unfold verdict
  by_cases hk : b.kind = .other
  · simp [load, hk]
  by_cases hn : natives b.basis = []
  · have : load zero L b = .error .value := by
      unfold load
      rw [hn]
      cases hkk : b.kind <;> rfl
    rw [this]
    simp only [hk, hn, if_false, if_true]
  rw [load_eq_core zero L b hk hn]
  unfold loadCore
  simp only [hk, hn, if_false]
  rcases pq b.t1 with ⟨T1, h1, c1⟩ | ⟨h1, q, hq, hm⟩
  swap
  · have : ∃ q ∈ L, MissingEarly b q := ⟨q, hq, Or.inl hm⟩
    simp only [h1, this, if_true]
  rcases pq b.t2 with ⟨T2, h2, c2⟩ | ⟨h2, q, hq, hm⟩
  swap
  · have : ∃ q ∈ L, MissingEarly b q := ⟨q, hq, Or.inr (Or.inl hm)⟩
    simp only [h1, h2, this, if_true]
  rcases pq b.xerr with ⟨p, h3, c3⟩ | ⟨h3, q, hq, hm⟩
  swap
  · have : ∃ q ∈ L, MissingEarly b q := ⟨q, hq, Or.inr (Or.inr (Or.inl hm))⟩
    simp only [h1, h2, h3, this, if_true]
  rcases pq b.rerr with ⟨rout, h4, c4⟩ | ⟨h4, q, hq, hm⟩
  swap
  · have : ∃ q ∈ L, MissingEarly b q := ⟨q, hq, Or.inr (Or.inr (Or.inr hm))⟩
    simp only [h1, h2, h3, h4, this, if_true]
  have hearly : ¬ ∃ q ∈ L, MissingEarly b q := by
    rintro ⟨q, hq, h | h | h | h⟩
    · exact c1 q hq h
    · exact c2 q hq h
    · exact c3 q hq h
    · exact c4 q hq h
  simp only [h1, h2, h3, h4, hearly, if_false]
  cases h5 : b.dt with
  | none => simp only [if_true]
  | some d =>
  simp only [reduceCtorEq, if_false]
  rcases pq b.rlen with ⟨tm, h6, c6⟩ | ⟨h6, q, hq, hm⟩
  swap
  · have : ∃ q ∈ L, List.lookup q b.rlen = none := ⟨q, hq, hm⟩
    simp only [h6, this, if_true]
  have hlate : ¬ ∃ q ∈ L, List.lookup q b.rlen = none := by
    rintro ⟨q, hq, h⟩; exact c6 q hq h
  simp only [h6, hlate, if_false]
  cases h7 : maxLabel L with
  | none =>
    have : L = [] := (maxLabel_eq_none_iff L).mp h7
    simp only [this, if_true]
  | some M =>
  have hne : L ≠ [] := by
    intro e; rw [e] at h7; cases h7
  simp only [hne, if_false]
  cases h8 : intInfos b.gate2 (natives b.basis) with
  | error e =>
    obtain ⟨rfl, hg⟩ := (intInfos_error_iff _ _ _).mp h8
    simp only [hg, if_true]
  | ok Gs =>
    have hg : ¬ ∃ g ∈ natives b.basis, List.lookup g b.gate2 = none := by
      rintro ⟨g, hg, hnone⟩
      have := (intInfos_error_iff b.gate2 (natives b.basis) .property).mpr ⟨rfl, g, hg, hnone⟩
      rw [h8] at this
      cases this
    simp only [hg, if_false]

/-- **C20, rejection clause (type).**  A backend of an unsupported type is rejected with `ValueError`, whatever the
layout and whatever else the object holds. -/
theorem rejects_unsupported_type (zero : Val) (L : List Nat) (b : Backend Val) (hk : b.kind = .other) :
    load zero L b = .error .value := by
  simp [load, hk]

/-- **C20, rejection clause (no supported two-qubit gate).**  A backend whose basis holds neither `ecr` nor `cx` is
rejected with `ValueError` for EVERY layout and whatever its calibration record holds or lacks. -/
theorem rejects_no_native_gate (zero : Val) (L : List Nat) (b : Backend Val)
    (hb : ∀ x ∈ b.basis, x ≠ "ecr" ∧ x ≠ "cx") : load zero L b = .error .value := by
  have hn : natives b.basis = [] := (natives_eq_nil_iff b.basis).mpr hb
  unfold load
  rw [hn]
  cases b.kind <;> rfl

/-- the import succeeds exactly on: a supported type, a basis with a supported two-qubit gate each of which has a
calibration dict, a non-empty layout whose qubits all have a complete calibration record, and a `dt` -/
theorem load_ok_iff (zero : Val) (L : List Nat) (b : Backend Val) :
    (∃ r, load zero L b = .ok r) ↔
      b.kind ≠ .other ∧ natives b.basis ≠ [] ∧ L ≠ [] ∧
        (∀ q ∈ L, ¬ MissingEarly b q ∧ List.lookup q b.rlen ≠ none) ∧ b.dt ≠ none ∧
        ∀ g ∈ natives b.basis, List.lookup g b.gate2 ≠ none := by
  have ho := error_order zero L b
  constructor
  · rintro ⟨r, hr⟩
    rw [hr] at ho
    simp only at ho
    unfold verdict at ho
    split_ifs at ho with a1 a0 a2 a3 a4 a5 a6
    exact ⟨a1, a0, a5, fun q hq => ⟨fun hm => a2 ⟨q, hq, hm⟩, fun hm => a4 ⟨q, hq, hm⟩⟩, a3,
      fun g hg hm => a6 ⟨g, hg, hm⟩⟩
  · rintro ⟨a1, a0, a5, hc, a3, a6⟩
    cases hl : load zero L b with
    | ok r => exact ⟨r, rfl⟩
    | error e =>
      rw [hl] at ho
      simp only at ho
      have : verdict L b = none := by
        unfold verdict
        have h1 : ¬ ∃ q ∈ L, MissingEarly b q := fun ⟨q, hq, hm⟩ => (hc q hq).1 hm
        have h2 : ¬ ∃ q ∈ L, List.lookup q b.rlen = none := fun ⟨q, hq, hm⟩ => (hc q hq).2 hm
        have h3 : ¬ ∃ g ∈ natives b.basis, List.lookup g b.gate2 = none := fun ⟨g, hg, hm⟩ => a6 g hg hm
        simp only [a1, a0, a5, a3, h1, h2, h3, if_false]
      rw [this] at ho
      cases ho

/-! ### non-vacuity: a concrete 5-qubit device (T-shaped coupling 0-1, 1-2, 1-3, 3-4, both directions) -/

/-- per-qubit map `q ↦ base + q` for `q < 5` -/
private def col (base : Nat) : List (Nat × Nat) := (List.range 5).map fun q => (q, base + q)

/-- a `cx` device whose basis also lists gates the code must step over; gate error of `(i, j)` is `1000 + 10 i + j`,
gate length `2000 + 10 i + j` -/
private def dev5 : Backend Nat :=
  { kind := .fake, t1 := col 100, t2 := col 200, xerr := col 300, rerr := col 400, rlen := col 500, dt := some 7,
    basis := ["id", "rz", "sx", "x", "cx", "reset"],
    gate2 := [("cx", [(0, 1), (1, 0), (1, 2), (2, 1), (1, 3), (3, 1), (3, 4), (4, 3)].map fun k =>
      (k, (1000 + 10 * k.1 + k.2, 2000 + 10 * k.1 + k.2)))] }

/-- a scattered, unordered layout with a repeated label: the import succeeds, per-qubit lists follow the layout,
the tables have side `max + 1 = 4`, hold the values of the six coupled ordered pairs among qubits `0..3`, zero
elsewhere, and the pairs touching qubit 4 are left out. -/
example : load 0 [3, 0, 3, 2] dev5 = .ok
    { T1 := [103, 100, 103, 102], T2 := [203, 200, 203, 202], p := [303, 300, 303, 302],
      rout := [403, 400, 403, 402], tm := [503, 500, 503, 502], dt := [7],
      p_int := [[0, 1001, 0, 0], [1010, 0, 1012, 1013], [0, 1021, 0, 0], [0, 1031, 0, 0]],
      t_int := [[0, 2001, 0, 0], [2010, 0, 2012, 2013], [0, 2021, 0, 0], [0, 2031, 0, 0]] } := by
  decide

/-- the hypotheses of `table_spec` / `table_spec_no_self_pair` / `calib_single_gate` are met by this device and layout -/
example : maxLabel [3, 0, 3, 2] = some 3 ∧ natives dev5.basis = ["cx"] ∧
    (∀ g ∈ natives dev5.basis, ∀ G, List.lookup g dev5.gate2 = some G → ∀ x ∈ G, x.1.1 ≠ x.1.2) := by
  refine ⟨by decide, by decide, ?_⟩
  intro g hg G hG
  have : g = "cx" := by simpa [show natives dev5.basis = ["cx"] by decide] using hg
  subst this
  have : G = [(0, 1), (1, 0), (1, 2), (2, 1), (1, 3), (3, 1), (3, 4), (4, 3)].map fun k =>
      (k, (1000 + 10 * k.1 + k.2, 2000 + 10 * k.1 + k.2)) := by
    have h' : List.lookup "cx" dev5.gate2 = some _ := rfl
    rw [h'] at hG
    exact (Option.some.inj hG).symm
  subst this
  decide

/-- a MIXED device (the FakeCairoV2 situation): the basis lists `cx` before `ecr`; pairs 0-1 are calibrated with `cx`,
the pairs (1,2) and (3,2) with `ecr`, and the pair (0,1) additionally carries an `ecr` record -/
private def mixed4 : Backend Nat :=
  { kind := .v2, t1 := col 100, t2 := col 200, xerr := col 300, rerr := col 400, rlen := col 500, dt := some 7,
    basis := ["cx", "ecr", "id", "rz", "sx", "x"],
    gate2 := [("ecr", [((1, 2), (12, 120)), ((3, 2), (32, 320)), ((0, 1), (99, 990))]),
              ("cx", [((0, 1), (1, 10)), ((1, 0), (10, 100))])] }

/-- every pair calibrated with either gate is imported; on the pair calibrated with both, the gate that comes first in
the basis (`cx`) wins; `calib` is what the table holds -/
example : (load 0 [3, 0] mixed4).toOption.map (fun r => (r.p_int, r.t_int)) = some
      ([[0, 1, 0, 0], [10, 0, 12, 0], [0, 0, 0, 0], [0, 0, 32, 0]],
       [[0, 10, 0, 0], [100, 0, 120, 0], [0, 0, 0, 0], [0, 0, 320, 0]]) ∧
    natives mixed4.basis = ["cx", "ecr"] ∧
    calib mixed4 (1, 2) = some (12, 120) ∧ calib mixed4 (0, 1) = some (1, 10) ∧ calib mixed4 (2, 3) = none := by
  decide

/-- single qubit labelled 0: 1×1 zero tables; single qubit labelled 2: the loop runs and fills the pairs below 3 -/
example : (load 0 [0] dev5).toOption.map (fun r => (r.T1, r.p_int, r.t_int)) = some ([100], [[0]], [[0]]) ∧
    (load 0 [2] dev5).toOption.map (fun r => (r.T1, r.p_int)) =
      some ([102], [[0, 1001, 0], [1010, 0, 1012], [0, 1021, 0]]) := by
  decide

/-- the guard made visible: with a (non-physical) self-coupled pair `(0, 0)` the single-qubit import leaves the cell
at zero, which is why `table_spec` carries `if 1 ≤ M` and `table_spec_no_self_pair` the hypothesis `hself` -/
example : (load 0 [0] { dev5 with gate2 := [("cx", [((0, 0), (9, 9))])] }).toOption.map (·.p_int) = some [[0]] := by
  decide

/-- rejections, and which error wins: unsupported type before everything; then the missing supported gate, also
for a layout naming a qubit the device does not have; a missing calibration value; a missing `dt`; an empty layout;
`ecr` named by the basis but absent from the properties (last) -/
example : load 0 [0, 9] { dev5 with kind := .other, basis := [] } = .error .value ∧
    load 0 [0, 9] { dev5 with basis := ["cz", "id"] } = .error .value ∧
    load 0 [] { dev5 with basis := ["cz", "id"], dt := none } = .error .value ∧
    load 0 [0, 9] dev5 = .error .property ∧
    load 0 [0, 9] { dev5 with dt := none } = .error .property ∧
    load 0 [0, 4] { dev5 with dt := none } = .error .attribute ∧
    load 0 [] dev5 = .error .value ∧
    load 0 [] { dev5 with basis := ["cx", "ecr"] } = .error .value ∧
    load 0 [0, 4] { dev5 with basis := ["cx", "ecr"] } = .error .property := by
  decide

/-- the hypotheses of `rejects_no_native_gate`, of the right-hand side of `load_ok_iff` and of
`table_single_label_zero` are satisfiable: a basis without `ecr`/`cx`; requested qubits with a complete calibration
record and a `dt`; a layout whose largest label is 0 -/
example : (∀ x ∈ ["cz", "id", "rz", "sx", "x"], x ≠ "ecr" ∧ x ≠ "cx") ∧
    (∀ q ∈ [0, 4], ¬ MissingEarly dev5 q ∧ List.lookup q dev5.rlen ≠ none) ∧ dev5.dt ≠ none ∧
    maxLabel [0, 0] = some 0 := by
  refine ⟨by decide, ?_, by decide, by decide⟩
  unfold MissingEarly
  decide

end QG.C20
