import QG.Lemmas.FixCounts
import QG.Props.C14

/-!
# C16 — `fix_counts` completes and bit-reverses any outcome table

Property theorems only (helper lemmas: `QG/Lemmas/FixCounts.lean`; model: `QG/Model/FixCounts.lean`).

A table is the item list of a Python dict: keys pairwise distinct (`hnd`), all of length `n`
(`hlen`), non-empty (`hne`), `1 ≤ n`.  Values are of an arbitrary type with the inserted `zero`.
-/
namespace QG.C16
open QG.Model.FixCounts QG.Lemmas.FixCounts

variable {α : Type}

/-- specification vocabulary: the `n`-character big-endian binary string of `k` -/
def bitsBE : Nat → Nat → List Bool
  | 0, _ => []
  | n + 1, k => bitsBE n (k / 2) ++ [k % 2 == 1]

/-- specification vocabulary: `dict.get(key)` on the item list -/
def dictGet (t : List (List Bool × α)) (key : List Bool) : Option α :=
  (t.find? (fun p => p.1 == key)).map (·.2)

/-- the table the property demands: all `2^n` keys ascending, each holding the input value stored
under the reversed key, `zero` where there is none -/
def spec (zero : α) (t : List (List Bool × α)) (n : Nat) : List (List Bool × α) :=
  (List.range (2 ^ n)).map fun k => (bitsBE n k, (dictGet t (bitsBE n k).reverse).getD zero)

theorem bitsBE_length (n k : Nat) : (bitsBE n k).length = n := by
  induction n generalizing k with
  | zero => rfl
  | succ n ih => simp [bitsBE, ih]

theorem toNat_bitsBE (n k : Nat) (hk : k < 2 ^ n) : toNat (bitsBE n k) = k := by
  induction n generalizing k with
  | zero => simp at hk; simp [bitsBE, hk]
  | succ n ih =>
    rw [bitsBE, toNat_append_singleton, ih (k / 2) (by rw [pow_succ] at hk; omega)]
    rcases Nat.mod_two_eq_zero_or_one k with h0 | h0 <;> simp [h0] <;> omega

theorem keyOf_eq_bitsBE (n k : Nat) (hn : 1 ≤ n) (hk : k < 2 ^ n) : keyOf n k = bitsBE n k := by
  obtain ⟨h1, h2⟩ := keyOf_spec n k hn hk
  exact toNat_inj _ _ (by rw [h1, bitsBE_length]) (by rw [h2, toNat_bitsBE n k hk])

private theorem lookupD_mirror (zero : α) (n : Nat) (t : List (List Bool × α))
    (hlen : ∀ p ∈ t, p.1.length = n) (k : Nat) (hk : k < 2 ^ n) :
    lookupD zero (mirror t) k = (dictGet t (bitsBE n k).reverse).getD zero := by
  induction t with
  | nil => simp [lookupD, mirror, dictGet]
  | cons p t ih =>
    have ih' := ih (fun q hq => hlen q (List.mem_cons_of_mem _ hq))
    have hpl : p.1.length = n := hlen p (by simp)
    by_cases hkey : p.1 = (bitsBE n k).reverse
    · have hk2 : toNat p.1.reverse = k := by rw [hkey, List.reverse_reverse, toNat_bitsBE n k hk]
      have h1 : lookupD zero (mirror (p :: t)) k = p.2 := by
        have h := lookupD_cons_eq zero (p.1.reverse, p.2) (mirror t)
        simp only [hk2] at h
        simpa [mirror] using h
      rw [h1]
      simp [dictGet, List.find?, hkey]
    · have hne : toNat p.1.reverse ≠ k := by
        intro h
        apply hkey
        have : p.1.reverse = bitsBE n k :=
          toNat_inj _ _ (by rw [List.length_reverse, hpl, bitsBE_length]) (by rw [h, toNat_bitsBE n k hk])
        rw [← this, List.reverse_reverse]
      have h1 : lookupD zero (mirror (p :: t)) k = lookupD zero (mirror t) k := by
        have := lookupD_cons_ne zero (p.1.reverse, p.2) (mirror t) k hne
        simpa [mirror] using this
      rw [h1, ih']
      have hb : (p.1 == (bitsBE n k).reverse) = false := by simpa using hkey
      simp [dictGet, List.find?, hb]

/-- **C16, main statement.**  For every `n ≥ 1` and every non-empty table keyed by distinct `n`-bit
strings, the model of `fix_counts` never raises and returns exactly the `2^n` keys in ascending
binary order, every input entry under its reversed key with its value unchanged, `zero` elsewhere. -/
theorem fix_counts_spec (zero : α) (n : Nat) (hn : 1 ≤ n) (t : List (List Bool × α))
    (hne : t ≠ []) (hlen : ∀ p ∈ t, p.1.length = n) (hnd : (t.map (·.1)).Nodup) :
    fixCounts zero t n = .ok (spec zero t n) := by
  have hpow : 1 ≤ 2 ^ n := Nat.one_le_two_pow
  have hpow2 : 2 ≤ 2 ^ n := by
    calc 2 = 2 ^ 1 := rfl
      _ ≤ 2 ^ n := Nat.pow_le_pow_right (by norm_num) hn
  -- the sorted mirrored table
  set s := (mirror t).mergeSort (fun a b => lexLe a.1 b.1) with hs
  have hperm : s.Perm (mirror t) := List.mergeSort_perm _ _
  have hmlen : ∀ p ∈ mirror t, p.1.length = n := by
    intro p hp
    simp only [mirror, List.mem_map] at hp
    obtain ⟨q, hq, rfl⟩ := hp
    simpa using hlen q hq
  have hslen : ∀ p ∈ s, p.1.length = n := fun p hp => hmlen p (hperm.subset hp)
  have hmnd : (mirror t).Pairwise (fun a b => toNat a.1 ≠ toNat b.1) := by
    simp only [mirror, List.pairwise_map]
    have : t.Pairwise (fun a b => a.1 ≠ b.1) := by
      simpa [List.Nodup, List.pairwise_map] using hnd
    refine (List.Pairwise.and_mem.mp this).imp ?_
    intro a b ⟨ha, hb, hab⟩ h
    apply hab
    have := toNat_inj a.1.reverse b.1.reverse (by simp [hlen a ha, hlen b hb]) h
    simpa using this
  have hsnd : s.Pairwise (fun a b => toNat a.1 ≠ toNat b.1) :=
    hperm.symm.pairwise hmnd (fun h => fun e => h e.symm)
  have hsle : s.Pairwise (fun a b => lexLe a.1 b.1 = true) := by
    have := List.pairwise_mergeSort (le := fun (a b : List Bool × α) => lexLe a.1 b.1)
      (fun a b c => lexLe_trans a.1 b.1 c.1) (fun a b => lexLe_total a.1 b.1) (mirror t)
    simpa [hs] using this
  have hsorted : Sorted s := by
    have h3 := (List.Pairwise.and_mem.mp (hsle.and hsnd))
    refine h3.imp ?_
    intro a b ⟨ha, hb, hle, hne'⟩
    have := (lexLe_iff a.1 b.1 (by rw [hslen a ha, hslen b hb])).mp hle
    omega
  have hsne : s ≠ [] := by
    intro h
    have : (mirror t) = [] := by simpa [h] using hperm.symm
    simp [mirror] at this
    exact hne this
  -- first padding
  obtain ⟨h, tl, hht⟩ := List.exists_cons_of_ne_nil hsne
  have hhpos : ∀ p ∈ tl, toNat h.1 < toNat p.1 := by
    have := hsorted; rw [hht] at this; exact (List.pairwise_cons.mp this).1
  obtain ⟨l1, hl1, hl1s, hl1len, hl1look, hl1head, hl1ne⟩ :
      ∃ l1, padFirst zero n s = .ok l1 ∧ Sorted l1 ∧ (∀ p ∈ l1, p.1.length = n) ∧
        (∀ k, lookupD zero l1 k = lookupD zero s k) ∧ (∀ hne1 : l1 ≠ [], toNat (l1.head hne1).1 = 0) ∧
        l1 ≠ [] := by
    by_cases h0 : toNat h.1 ≠ 0
    · obtain ⟨hk1, hk2⟩ := keyOf_spec n 0 hn (by omega)
      refine ⟨(keyOf n 0, zero) :: s, by simp [padFirst, hht, h0], ?_, ?_, ?_, ?_, by simp⟩
      · refine List.pairwise_cons.mpr ⟨?_, hsorted⟩
        intro p hp
        rw [hht] at hp
        rcases List.mem_cons.mp hp with rfl | hp
        · simp only [hk2]; omega
        · have := hhpos p hp; simp only [hk2]; omega
      · intro p hp
        rcases List.mem_cons.mp hp with rfl | hp
        · exact hk1
        · exact hslen p hp
      · intro k
        by_cases hk : k = 0
        · subst hk
          have e1 : lookupD zero ((keyOf n 0, zero) :: s) 0 = zero := by
            have := lookupD_cons_eq zero (keyOf n 0, zero) s
            simpa [hk2] using this
          rw [e1, lookupD_absent zero s 0]
          intro p hp
          rw [hht] at hp
          rcases List.mem_cons.mp hp with rfl | hp
          · exact h0
          · have := hhpos p hp; omega
        · exact lookupD_cons_ne zero _ s k (by simp only [hk2]; omega)
      · intro _; simpa using hk2
    · have h0' : toNat h.1 = 0 := by omega
      refine ⟨s, by simp [padFirst, hht, h0'], hsorted, hslen, fun _ => rfl, ?_, hsne⟩
      intro _; simp [hht, h0']
  -- second padding
  obtain ⟨l2, hl2, hl2s, hl2len, hl2look, hl2head, hl2last, hl2ne⟩ :
      ∃ l2, padLast zero n l1 = .ok l2 ∧ Sorted l2 ∧ (∀ p ∈ l2, p.1.length = n) ∧
        (∀ k, lookupD zero l2 k = lookupD zero s k) ∧ (∀ hne2 : l2 ≠ [], toNat (l2.head hne2).1 = 0) ∧
        (∀ hne2 : l2 ≠ [], toNat (l2.getLast hne2).1 = 2 ^ n - 1) ∧ l2 ≠ [] := by
    have hlast : l1.getLast? = some (l1.getLast hl1ne) := List.getLast?_eq_some_getLast hl1ne
    have hlastmax : ∀ p ∈ l1, toNat p.1 ≤ toNat (l1.getLast hl1ne).1 := by
      intro p hp
      obtain ⟨init, hinit⟩ : ∃ init, l1 = init ++ [l1.getLast hl1ne] :=
        ⟨l1.dropLast, (List.dropLast_append_getLast hl1ne).symm⟩
      rw [hinit] at hp hl1s
      rcases List.mem_append.mp hp with hp | hp
      · have := (List.pairwise_append.mp hl1s).2.2 p hp (l1.getLast hl1ne) (by simp)
        omega
      · simp at hp; rw [hp]
    by_cases hM : toNat (l1.getLast hl1ne).1 ≠ 2 ^ n - 1
    · obtain ⟨hk1, hk2⟩ := keyOf_spec n (2 ^ n - 1) hn (by omega)
      have hltM : ∀ p ∈ l1, toNat p.1 < 2 ^ n - 1 := by
        intro p hp
        have h1 := hlastmax p hp
        have h2 := toNat_lt (l1.getLast hl1ne).1
        rw [hl1len _ (List.getLast_mem hl1ne)] at h2
        omega
      refine ⟨l1 ++ [(keyOf n (2 ^ n - 1), zero)], by simp [padLast, hlast, hM], ?_, ?_, ?_, ?_, ?_, by simp⟩
      · refine List.pairwise_append.mpr ⟨hl1s, by simp, ?_⟩
        intro a ha b hb
        simp at hb; subst hb
        simp only [hk2]; exact hltM a ha
      · intro p hp
        rcases List.mem_append.mp hp with hp | hp
        · exact hl1len p hp
        · simp at hp; rw [hp]; exact hk1
      · intro k
        rw [← hl1look k]
        have hnd1 : (l1 ++ [(keyOf n (2 ^ n - 1), zero)]).Pairwise (fun a b => toNat a.1 ≠ toNat b.1) := by
          refine List.pairwise_append.mpr ⟨hl1s.imp (fun h => by omega), by simp, ?_⟩
          intro a ha b hb
          simp at hb; subst hb
          simp only [hk2]; have := hltM a ha; omega
        rw [lookupD_perm zero _ _ (List.perm_append_comm) hnd1 k]
        by_cases hk : k = 2 ^ n - 1
        · subst hk
          have e1 : lookupD zero ([(keyOf n (2 ^ n - 1), zero)] ++ l1) (2 ^ n - 1) = zero := by
            have := lookupD_cons_eq zero (keyOf n (2 ^ n - 1), zero) l1
            simpa [hk2] using this
          rw [e1, lookupD_absent zero l1 _ (fun p hp => by have := hltM p hp; omega)]
        · exact lookupD_cons_ne zero _ l1 k (by simp only [hk2]; omega)
      · intro _
        have := hl1head hl1ne
        rw [List.head_append_of_ne_nil hl1ne]; exact this
      · intro _; simp [hk2]
    · have hM' : toNat (l1.getLast hl1ne).1 = 2 ^ n - 1 := by omega
      exact ⟨l1, by simp [padLast, hlast, hM'], hl1s, hl1len, hl1look, hl1head, fun _ => hM', hl1ne⟩
  -- the loop
  obtain ⟨c, r, hcr⟩ := List.exists_cons_of_ne_nil hl2ne
  have hc0 : toNat c.1 = 0 := by have := hl2head hl2ne; simpa [hcr] using this
  have hfill := fill_spec zero n hn (2 ^ n - 1) [] c r (hcr ▸ hl2s) (hcr ▸ hl2len)
    (by have := hl2last hl2ne; simp only [hcr] at this; rw [this, hc0]; simp) (by rw [hc0]; omega)
  simp only [fixCounts, ← hs, hl1, hl2, hcr]
  rw [hfill]
  refine congrArg Except.ok ?_
  simp only [List.reverse_nil, List.nil_append, spec]
  have e : 2 ^ n - 1 + 1 = 2 ^ n := by omega
  rw [e]
  apply List.map_congr_left
  intro k hk
  have hk' : k < 2 ^ n := List.mem_range.mp hk
  rw [hc0, Nat.zero_add, keyOf_eq_bitsBE n k hn hk']
  congr 1
  rw [← lookupD_mirror zero n t hlen k hk', ← lookupD_perm zero s (mirror t) hperm hsnd k, ← hl2look k, hcr]
  by_cases hk0 : k = 0
  · subst hk0
    have := lookupD_cons_eq zero c r
    rw [hc0] at this
    simp [this]
  · simp only [hk0, if_false]
    exact (lookupD_cons_ne zero c r k (by omega)).symm

/-- the keys of the result are exactly the `2^n` strings, in ascending binary order -/
theorem fix_counts_keys (zero : α) (n : Nat) (hn : 1 ≤ n) (t : List (List Bool × α))
    (hne : t ≠ []) (hlen : ∀ p ∈ t, p.1.length = n) (hnd : (t.map (·.1)).Nodup) :
    ∃ out, fixCounts zero t n = .ok out ∧ out.map (·.1) = (List.range (2 ^ n)).map (bitsBE n) := by
  refine ⟨_, fix_counts_spec zero n hn t hne hlen hnd, ?_⟩
  simp [spec, Function.comp_def]

theorem reverse_bitsBE_lt (n k : Nat) (hk : k < 2 ^ n) : toNat (bitsBE n k).reverse < 2 ^ n := by
  have := toNat_lt (bitsBE n k).reverse
  simpa [bitsBE_length] using this

private theorem dictGet_spec (zero : α) (t : List (List Bool × α)) (n : Nat) (key : List Bool)
    (hkl : key.length = n) :
    dictGet (spec zero t n) key = some ((dictGet t key.reverse).getD zero) := by
  have hk : toNat key < 2 ^ n := hkl ▸ toNat_lt key
  have hkey : bitsBE n (toNat key) = key :=
    toNat_inj _ _ (by rw [bitsBE_length, hkl]) (toNat_bitsBE n _ hk)
  have gen : ∀ g : Nat → List Bool × α, (∀ k, (g k).1 = bitsBE n k) →
      List.find? ((fun p : List Bool × α => p.1 == key) ∘ g) (List.range (2 ^ n)) = some (toNat key) := by
    intro g hg
    rw [List.find?_eq_some_iff_append]
    refine ⟨by simp [hg, hkey], List.range (toNat key), (List.range' (toNat key + 1) (2 ^ n - (toNat key + 1))), ?_, ?_⟩
    · rw [List.range_eq_range', List.range_eq_range']
      have : 2 ^ n = toNat key + (1 + (2 ^ n - (toNat key + 1))) := by omega
      conv_lhs => rw [this]
      rw [← List.range'_append_1, ← List.range'_append_1]
      simp
    · intro a ha
      have ha' : a < toNat key := List.mem_range.mp ha
      simp only [Function.comp, hg, Bool.not_eq_eq_eq_not, Bool.not_true, beq_eq_false_iff_ne, ne_eq]
      intro h
      have := toNat_bitsBE n a (by omega)
      rw [h] at this
      omega
  unfold spec
  rw [dictGet, List.find?_map, gen _ (fun _ => rfl)]
  simp [hkey]

/-- **applying `fix_counts` twice** returns the completed table in the original orientation:
the second result holds, under every key, what the first holds under the reversed key, which is
the input value of the key itself (or `zero`). -/
theorem fix_counts_twice (zero : α) (n : Nat) (hn : 1 ≤ n) (t : List (List Bool × α))
    (hne : t ≠ []) (hlen : ∀ p ∈ t, p.1.length = n) (hnd : (t.map (·.1)).Nodup) :
    ∃ out1, fixCounts zero t n = .ok out1 ∧
      fixCounts zero out1 n = .ok ((List.range (2 ^ n)).map fun k =>
        (bitsBE n k, (dictGet t (bitsBE n k)).getD zero)) := by
  refine ⟨spec zero t n, fix_counts_spec zero n hn t hne hlen hnd, ?_⟩
  have hpow : 1 ≤ 2 ^ n := Nat.one_le_two_pow
  have hne1 : spec zero t n ≠ [] := by
    intro h
    have := congrArg List.length h
    simp [spec] at this
  have hlen1 : ∀ p ∈ spec zero t n, p.1.length = n := by
    intro p hp
    simp only [spec, List.mem_map] at hp
    obtain ⟨k, _, rfl⟩ := hp
    exact bitsBE_length n k
  have hnd1 : ((spec zero t n).map (·.1)).Nodup := by
    have : (spec zero t n).map (·.1) = (List.range (2 ^ n)).map (bitsBE n) := by
      simp [spec, Function.comp_def]
    rw [this]
    refine (List.nodup_map_iff_inj_on (List.nodup_range)).mpr ?_
    intro a ha b hb hab
    have h1 := toNat_bitsBE n a (List.mem_range.mp ha)
    have h2 := toNat_bitsBE n b (List.mem_range.mp hb)
    rw [hab] at h1; omega
  rw [fix_counts_spec zero n hn _ hne1 hlen1 hnd1]
  refine congrArg Except.ok ?_
  unfold spec
  apply List.map_congr_left
  intro k _
  congr 1
  have := dictGet_spec zero t n (bitsBE n k).reverse (by simp [bitsBE_length])
  unfold spec at this
  rw [this]
  simp

/-- non-vacuity: a concrete 3-bit table with a gap at both ends meets the hypotheses, and the
theorem's right-hand side is what one expects. -/
example : let t : List (List Bool × Nat) := [([true, true, false], 7), ([false, false, true], 5)]
    t ≠ [] ∧ (∀ p ∈ t, p.1.length = 3) ∧ (t.map (·.1)).Nodup ∧
    fixCounts 0 t 3 = .ok (spec 0 t 3) ∧
    (spec 0 t 3).map (·.2) = [0, 0, 0, 7, 5, 0, 0, 0] := by
  intro t
  have h1 : t ≠ [] := by decide
  have h2 : ∀ p ∈ t, p.1.length = 3 := by decide
  have h3 : (t.map (·.1)).Nodup := by decide
  exact ⟨h1, h2, h3, fix_counts_spec 0 3 (by decide) t h1 h2 h3, by decide⟩

/-! ## the simulator clause: `fix_counts` after `_measurament` -/

section simulator
open QG.Model.RunValidate QG.Lemmas.RunValidate

private theorem dictGet_of_mem {α : Type} (t : List (List Bool × α)) (hnd : (t.map (·.1)).Nodup) (k : List Bool) (v : α)
    (h : (k, v) ∈ t) : dictGet t k = some v := by
  induction t with
  | nil => simp at h
  | cons p t ih =>
    simp only [List.map_cons, List.nodup_cons] at hnd
    rcases List.mem_cons.mp h with rfl | h'
    · simp [dictGet, List.find?]
    · have hne : p.1 ≠ k := by
        intro e
        exact hnd.1 (e ▸ List.mem_map_of_mem (f := (·.1)) h')
      have hb : (p.1 == k) = false := by simpa using hne
      have := ih hnd.2 h'
      simpa [dictGet, List.find?, hb] using this

/-- **`fix_counts` applied to a simulator result** (the last clause of C16, composed with C14's model of `_measurament`).
For `m ≥ 1` pairwise distinct measured qubits of the layout and any probability vector of length `2^n`: `_measurament`
followed by `fix_counts(·, m)` raises nothing and returns the `2^m` keys in ascending binary order, where the value under
a key is the total probability of the basis states whose string of measured bits, **reversed**, is that key: character
`j` of the returned key is the bit of the `(m−1−j)`-th measured qubit.  When the `j`-th measure instruction writes
classical bit `j` this is Qiskit's little-endian key. -/
theorem fix_counts_of_measurement {α : Type} [AddCommMonoid α] (num : Num α) (hl : Lawful num) (layout : List Nat)
    (meas : List (Nat × Nat)) (prob : List α) (hm : 1 ≤ meas.length)
    (hmem : ∀ t ∈ meas, t.1 ∈ layout) (hdist : (meas.map Prod.fst).Nodup)
    (hlen : prob.length = 2 ^ layout.length) :
    ∃ out, measurement num prob meas layout.length layout = .ok out ∧
      fixCounts 0 out meas.length = .ok ((List.range (2 ^ meas.length)).map fun k =>
        (bitsBE meas.length k,
          (((List.range (2 ^ layout.length)).filter
              (fun i => (QG.C14.keyOfState layout meas i).reverse = bitsBE meas.length k)).map
            (fun i => prob.getD i 0)).sum)) := by
  obtain ⟨out, ho, hnd, hkeys, hlen'⟩ := QG.C14.keys_exact num layout meas prob hmem hdist hlen
  obtain ⟨out', ho', _, hval⟩ := QG.C14.values_marginal num hl layout meas prob hmem hlen
  have e : out' = out := by rw [ho] at ho'; exact (Except.ok.inj ho').symm
  subst e
  refine ⟨out', ho, ?_⟩
  have hne : out' ≠ [] := by
    intro h
    rw [h] at hlen'
    have : 0 < 2 ^ meas.length := Nat.two_pow_pos _
    simp at hlen'
    omega
  have hl' : ∀ p ∈ out', p.1.length = meas.length := fun p hp =>
    (hkeys p.1).mp (List.mem_map_of_mem (f := Prod.fst) hp)
  rw [fix_counts_spec 0 meas.length hm out' hne hl' hnd]
  refine congrArg Except.ok ?_
  unfold spec
  apply List.map_congr_left
  intro k _
  congr 1
  have hk : (bitsBE meas.length k).reverse ∈ out'.map Prod.fst :=
    (hkeys _).mpr (by simp [bitsBE_length])
  obtain ⟨⟨k', v⟩, hp, hk'⟩ := List.mem_map.mp hk
  simp only at hk'
  subst hk'
  rw [dictGet_of_mem out' hnd _ v hp, Option.getD_some, hval _ v hp]
  congr 2
  apply List.filter_congr
  intro i _
  simp only [decide_eq_decide]
  constructor
  · intro h; rw [h, List.reverse_reverse]
  · intro h; rw [← h, List.reverse_reverse]

/-- non-vacuity: layout `[3, 5]`, the measure instructions `measure 5 -> c0`, `measure 3 -> c1`, a 4-entry vector -/
example : let layout := [3, 5]; let meas : List (Nat × Nat) := [(5, 0), (3, 1)]; let prob : List Nat := [1, 2, 3, 4]
    1 ≤ meas.length ∧ (∀ t ∈ meas, t.1 ∈ layout) ∧ (meas.map Prod.fst).Nodup ∧ prob.length = 2 ^ layout.length := by
  decide

end simulator

end QG.C16
