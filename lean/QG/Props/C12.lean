import Mathlib.Tactic
import QG.Gen.Integrator
import QG.Lemmas.Integrator

/-!
# C12 — the integrator returns the pulse-shaped Itô integrals

All definitions named `integrand_<i>`, `result_<i>`, `analytic_<i>`, `numeric_integrand_<i>`, `numeric_<i>`,
`integrate_<i>` and `*_defined_<i>` are **regenerated from the source text** of
`src/quantum_gates/_gates/integrator.py` on every run (`QG.Gen.Integrator`, written by `harness/gen/integrator.py`);
the theorems below are about whatever the code says now.  `<i>` ranges over the eight keys of the lookup tables.
`F` is the pulse parametrisation (`self.pulse_parametrization`), an arbitrary function `ℝ → ℝ`: no regularity is needed,
because the numerical branch is characterised *pointwise* (the integrand handed to `scipy.integrate.quad` is the
specified one at every `t`), so the two integrals are equal whatever `quad` does with them.

Per key `i` with spec integrand `g_i` (a function of the instantaneous angle):

* `integrand_table_i`        the `_INTEGRAL_LOOKUP` lambda at `(θ, a)` is `g_i (θ / a)`;
* `analytic_closed_form_i`   for `θ ≠ 0`, `0 < a`: `∫ t in 0..a, g_i (θ t / a) = _RESULT_LOOKUP_i θ a`;
* `analytic_spec_i`          for **every** `θ` and `0 < a`: no division by zero is evaluated by `_analytical_integration`
                             (`analytic_defined_i`; numpy would return nan — this is what fails on a tree with defect D11)
                             and the value returned is `∫ t in 0..a, g_i (θ t / a)`;
* `analytic_zero_i`          the value returned at `θ = 0` is `a · g_i 0`;
* `analytic_limit_i`         and it is the limit of the returned values as `θ → 0`, `θ ≠ 0`;
* `numeric_integrand_spec_i` for `a ≠ 0`, every `F`, every `t`: the function handed to `quad` evaluates no division by
                             zero and equals `g_i (θ · F (t / a))` (fails on a tree with defect D10: `g_i (θ · F t / a)`);
* `numeric_constant_pulse_i` for `F = id`, `θ ≠ 0`, `0 < a` the numerical branch denotes `_RESULT_LOOKUP_i θ a`;
* `integrate_spec_i`         `integrate` (cold cache, validated input `0 < a`) returns `∫ t in 0..a, g_i (θ · F (t / a))`
                             for every `F` on the numerical branch, and on the lookup branch for the constant pulse
                             (`use_lookup = true → F = id`, extracted from pulse.py);
* `branches_agree_i`         constant pulse: lookup and numerical integration agree for **all** `θ` (incl. `0`), `0 < a`.

`cached = uncached` (the third sentence of C12) is C10's `cache_transparent`; the cache key the generator extracts is
exposed to C10 by `gen.integrator.cache_key_fields()`.

Everything is over exact reals; `scipy.integrate.quad` *is* the integral (assumption); floating-point cancellation of the
closed forms for tiny `|θ|` is outside these theorems and is measured by the check.
-/
-- the proofs are written to survive harmless rewrites of the generated definitions; on the current text some
-- normalisation steps are then no-ops, which these (purely stylistic) linters would report
set_option linter.unusedSimpArgs false
set_option linter.unusedTactic false
set_option linter.unreachableTactic false
set_option linter.unnecessarySeqFocus false

namespace QG.C12
open Real Filter Topology intervalIntegral QG.Gen.Integrator QG.Integrator

/-! ## the eight spec integrands, as functions of the instantaneous angle -/
/-- g for key "sin(theta/a)**2" -/
noncomputable def g_sin_sq (x : ℝ) : ℝ := sin x ^ 2
/-- g for key "sin(theta/(2*a))**4" -/
noncomputable def g_sin_half_pow4 (x : ℝ) : ℝ := sin (x / 2) ^ 4
/-- g for key "sin(theta/a)*sin(theta/(2*a))**2" -/
noncomputable def g_sin_mul_sin_half_sq (x : ℝ) : ℝ := sin x * sin (x / 2) ^ 2
/-- g for key "sin(theta/(2*a))**2" -/
noncomputable def g_sin_half_sq (x : ℝ) : ℝ := sin (x / 2) ^ 2
/-- g for key "cos(theta/a)**2" -/
noncomputable def g_cos_sq (x : ℝ) : ℝ := cos x ^ 2
/-- g for key "sin(theta/a)*cos(theta/a)" -/
noncomputable def g_sin_mul_cos (x : ℝ) : ℝ := sin x * cos x
/-- g for key "sin(theta/a)" -/
noncomputable def g_sin (x : ℝ) : ℝ := sin x
/-- g for key "cos(theta/(2*a))**2" -/
noncomputable def g_cos_half_sq (x : ℝ) : ℝ := cos (x / 2) ^ 2

/-! ## key "sin(theta/a)**2" — g = sin² -/

theorem integrand_table_sin_sq (θ a : ℝ) : integrand_sin_sq θ a = g_sin_sq (θ / a) := by
  simp only [integrand_sin_sq, g_sin_sq] <;> ring_nf

theorem analytic_closed_form_sin_sq (θ a : ℝ) (hθ : θ ≠ 0) (ha : 0 < a) :
    ∫ t in (0:ℝ)..a, g_sin_sq (θ * t / a) = result_sin_sq θ a := by
  simp only [g_sin_sq]
  exact (cf_sin_sq θ a hθ ha).trans (by unfold result_sin_sq; ring)

theorem analytic_spec_sin_sq (θ a : ℝ) (ha : 0 < a) :
    analytic_defined_sin_sq θ a ∧ analytic_sin_sq θ a = ∫ t in (0:ℝ)..a, g_sin_sq (θ * t / a) := by
  unfold analytic_defined_sin_sq analytic_sin_sq
  split_ifs with h
  · subst h
    refine ⟨by simp [ha.ne'], ?_⟩
    rw [integral_at_zero]; simp [g_sin_sq]
  · refine ⟨by simp [h], ?_⟩
    rw [analytic_closed_form_sin_sq θ a h ha]; rfl

theorem analytic_zero_sin_sq (a : ℝ) : analytic_sin_sq 0 a = a * g_sin_sq 0 := by
  simp [analytic_sin_sq, g_sin_sq]

theorem analytic_limit_sin_sq (a : ℝ) (ha : 0 < a) :
    Tendsto (fun θ => analytic_sin_sq θ a) (𝓝[≠] 0) (𝓝 (a * g_sin_sq 0)) :=
  tendsto_of_closed_form g_sin_sq (by unfold g_sin_sq; fun_prop) _ a
    (fun θ _ => ((analytic_spec_sin_sq θ a ha).2).symm)

theorem numeric_integrand_spec_sin_sq (F : ℝ → ℝ) (θ a t : ℝ) (ha : a ≠ 0) :
    numeric_integrand_defined_sin_sq F θ a t ∧ numeric_integrand_sin_sq F θ a t = g_sin_sq (θ * F (t / a)) := by
  refine ⟨by simp [numeric_integrand_defined_sin_sq, ha], ?_⟩
  simp only [numeric_integrand_sin_sq, g_sin_sq, mul_div_cancel_right₀ _ ha, mul_div_mul_right _ _ ha] <;> ring_nf

theorem numeric_constant_pulse_sin_sq (θ a : ℝ) (hθ : θ ≠ 0) (ha : 0 < a) :
    numeric_sin_sq id θ a = result_sin_sq θ a := by
  rw [← analytic_closed_form_sin_sq θ a hθ ha]
  unfold numeric_sin_sq
  refine intervalIntegral.integral_congr fun t _ => ?_
  simp only [(numeric_integrand_spec_sin_sq id θ a t ha.ne').2, id, mul_div_assoc]

theorem integrate_spec_sin_sq (ul : Bool) (F : ℝ → ℝ) (θ a : ℝ) (ha : 0 < a) (hF : ul = true → F = id) :
    integrate_sin_sq ul F θ a = ∫ t in (0:ℝ)..a, g_sin_sq (θ * F (t / a)) := by
  unfold integrate_sin_sq
  split_ifs with h
  · rw [hF h, (analytic_spec_sin_sq θ a ha).2]; simp only [id, mul_div_assoc]
  · unfold numeric_sin_sq
    exact intervalIntegral.integral_congr fun t _ => (numeric_integrand_spec_sin_sq F θ a t ha.ne').2

theorem branches_agree_sin_sq (θ a : ℝ) (ha : 0 < a) :
    integrate_sin_sq true id θ a = integrate_sin_sq false id θ a := by
  rw [integrate_spec_sin_sq true id θ a ha (fun _ => rfl), integrate_spec_sin_sq false id θ a ha (by simp)]

/-! ## key "sin(theta/(2*a))**4" — g = sin⁴(·/2) -/

theorem integrand_table_sin_half_pow4 (θ a : ℝ) : integrand_sin_half_pow4 θ a = g_sin_half_pow4 (θ / a) := by
  simp only [integrand_sin_half_pow4, g_sin_half_pow4] <;> ring_nf

theorem analytic_closed_form_sin_half_pow4 (θ a : ℝ) (hθ : θ ≠ 0) (ha : 0 < a) :
    ∫ t in (0:ℝ)..a, g_sin_half_pow4 (θ * t / a) = result_sin_half_pow4 θ a := by
  simp only [g_sin_half_pow4]
  exact (cf_sin_half_pow4 θ a hθ ha).trans (by unfold result_sin_half_pow4; ring)

theorem analytic_spec_sin_half_pow4 (θ a : ℝ) (ha : 0 < a) :
    analytic_defined_sin_half_pow4 θ a ∧ analytic_sin_half_pow4 θ a = ∫ t in (0:ℝ)..a, g_sin_half_pow4 (θ * t / a) := by
  unfold analytic_defined_sin_half_pow4 analytic_sin_half_pow4
  split_ifs with h
  · subst h
    refine ⟨by simp [ha.ne'], ?_⟩
    rw [integral_at_zero]; simp [g_sin_half_pow4]
  · refine ⟨by simp [h], ?_⟩
    rw [analytic_closed_form_sin_half_pow4 θ a h ha]; rfl

theorem analytic_zero_sin_half_pow4 (a : ℝ) : analytic_sin_half_pow4 0 a = a * g_sin_half_pow4 0 := by
  simp [analytic_sin_half_pow4, g_sin_half_pow4]

theorem analytic_limit_sin_half_pow4 (a : ℝ) (ha : 0 < a) :
    Tendsto (fun θ => analytic_sin_half_pow4 θ a) (𝓝[≠] 0) (𝓝 (a * g_sin_half_pow4 0)) :=
  tendsto_of_closed_form g_sin_half_pow4 (by unfold g_sin_half_pow4; fun_prop) _ a
    (fun θ _ => ((analytic_spec_sin_half_pow4 θ a ha).2).symm)

theorem numeric_integrand_spec_sin_half_pow4 (F : ℝ → ℝ) (θ a t : ℝ) (ha : a ≠ 0) :
    numeric_integrand_defined_sin_half_pow4 F θ a t ∧ numeric_integrand_sin_half_pow4 F θ a t = g_sin_half_pow4 (θ * F (t / a)) := by
  refine ⟨by simp [numeric_integrand_defined_sin_half_pow4, ha], ?_⟩
  simp only [numeric_integrand_sin_half_pow4, g_sin_half_pow4, mul_div_cancel_right₀ _ ha, mul_div_mul_right _ _ ha] <;> ring_nf

theorem numeric_constant_pulse_sin_half_pow4 (θ a : ℝ) (hθ : θ ≠ 0) (ha : 0 < a) :
    numeric_sin_half_pow4 id θ a = result_sin_half_pow4 θ a := by
  rw [← analytic_closed_form_sin_half_pow4 θ a hθ ha]
  unfold numeric_sin_half_pow4
  refine intervalIntegral.integral_congr fun t _ => ?_
  simp only [(numeric_integrand_spec_sin_half_pow4 id θ a t ha.ne').2, id, mul_div_assoc]

theorem integrate_spec_sin_half_pow4 (ul : Bool) (F : ℝ → ℝ) (θ a : ℝ) (ha : 0 < a) (hF : ul = true → F = id) :
    integrate_sin_half_pow4 ul F θ a = ∫ t in (0:ℝ)..a, g_sin_half_pow4 (θ * F (t / a)) := by
  unfold integrate_sin_half_pow4
  split_ifs with h
  · rw [hF h, (analytic_spec_sin_half_pow4 θ a ha).2]; simp only [id, mul_div_assoc]
  · unfold numeric_sin_half_pow4
    exact intervalIntegral.integral_congr fun t _ => (numeric_integrand_spec_sin_half_pow4 F θ a t ha.ne').2

theorem branches_agree_sin_half_pow4 (θ a : ℝ) (ha : 0 < a) :
    integrate_sin_half_pow4 true id θ a = integrate_sin_half_pow4 false id θ a := by
  rw [integrate_spec_sin_half_pow4 true id θ a ha (fun _ => rfl), integrate_spec_sin_half_pow4 false id θ a ha (by simp)]

/-! ## key "sin(theta/a)*sin(theta/(2*a))**2" — g = sin·sin²(·/2) -/

theorem integrand_table_sin_mul_sin_half_sq (θ a : ℝ) : integrand_sin_mul_sin_half_sq θ a = g_sin_mul_sin_half_sq (θ / a) := by
  simp only [integrand_sin_mul_sin_half_sq, g_sin_mul_sin_half_sq] <;> ring_nf

theorem analytic_closed_form_sin_mul_sin_half_sq (θ a : ℝ) (hθ : θ ≠ 0) (ha : 0 < a) :
    ∫ t in (0:ℝ)..a, g_sin_mul_sin_half_sq (θ * t / a) = result_sin_mul_sin_half_sq θ a := by
  simp only [g_sin_mul_sin_half_sq]
  exact (cf_sin_mul_sin_half_sq θ a hθ ha).trans (by unfold result_sin_mul_sin_half_sq; ring)

theorem analytic_spec_sin_mul_sin_half_sq (θ a : ℝ) (ha : 0 < a) :
    analytic_defined_sin_mul_sin_half_sq θ a ∧ analytic_sin_mul_sin_half_sq θ a = ∫ t in (0:ℝ)..a, g_sin_mul_sin_half_sq (θ * t / a) := by
  unfold analytic_defined_sin_mul_sin_half_sq analytic_sin_mul_sin_half_sq
  split_ifs with h
  · subst h
    refine ⟨by simp [ha.ne'], ?_⟩
    rw [integral_at_zero]; simp [g_sin_mul_sin_half_sq]
  · refine ⟨by simp [h], ?_⟩
    rw [analytic_closed_form_sin_mul_sin_half_sq θ a h ha]; rfl

theorem analytic_zero_sin_mul_sin_half_sq (a : ℝ) : analytic_sin_mul_sin_half_sq 0 a = a * g_sin_mul_sin_half_sq 0 := by
  simp [analytic_sin_mul_sin_half_sq, g_sin_mul_sin_half_sq]

theorem analytic_limit_sin_mul_sin_half_sq (a : ℝ) (ha : 0 < a) :
    Tendsto (fun θ => analytic_sin_mul_sin_half_sq θ a) (𝓝[≠] 0) (𝓝 (a * g_sin_mul_sin_half_sq 0)) :=
  tendsto_of_closed_form g_sin_mul_sin_half_sq (by unfold g_sin_mul_sin_half_sq; fun_prop) _ a
    (fun θ _ => ((analytic_spec_sin_mul_sin_half_sq θ a ha).2).symm)

theorem numeric_integrand_spec_sin_mul_sin_half_sq (F : ℝ → ℝ) (θ a t : ℝ) (ha : a ≠ 0) :
    numeric_integrand_defined_sin_mul_sin_half_sq F θ a t ∧ numeric_integrand_sin_mul_sin_half_sq F θ a t = g_sin_mul_sin_half_sq (θ * F (t / a)) := by
  refine ⟨by simp [numeric_integrand_defined_sin_mul_sin_half_sq, ha], ?_⟩
  simp only [numeric_integrand_sin_mul_sin_half_sq, g_sin_mul_sin_half_sq, mul_div_cancel_right₀ _ ha, mul_div_mul_right _ _ ha] <;> ring_nf

theorem numeric_constant_pulse_sin_mul_sin_half_sq (θ a : ℝ) (hθ : θ ≠ 0) (ha : 0 < a) :
    numeric_sin_mul_sin_half_sq id θ a = result_sin_mul_sin_half_sq θ a := by
  rw [← analytic_closed_form_sin_mul_sin_half_sq θ a hθ ha]
  unfold numeric_sin_mul_sin_half_sq
  refine intervalIntegral.integral_congr fun t _ => ?_
  simp only [(numeric_integrand_spec_sin_mul_sin_half_sq id θ a t ha.ne').2, id, mul_div_assoc]

theorem integrate_spec_sin_mul_sin_half_sq (ul : Bool) (F : ℝ → ℝ) (θ a : ℝ) (ha : 0 < a) (hF : ul = true → F = id) :
    integrate_sin_mul_sin_half_sq ul F θ a = ∫ t in (0:ℝ)..a, g_sin_mul_sin_half_sq (θ * F (t / a)) := by
  unfold integrate_sin_mul_sin_half_sq
  split_ifs with h
  · rw [hF h, (analytic_spec_sin_mul_sin_half_sq θ a ha).2]; simp only [id, mul_div_assoc]
  · unfold numeric_sin_mul_sin_half_sq
    exact intervalIntegral.integral_congr fun t _ => (numeric_integrand_spec_sin_mul_sin_half_sq F θ a t ha.ne').2

theorem branches_agree_sin_mul_sin_half_sq (θ a : ℝ) (ha : 0 < a) :
    integrate_sin_mul_sin_half_sq true id θ a = integrate_sin_mul_sin_half_sq false id θ a := by
  rw [integrate_spec_sin_mul_sin_half_sq true id θ a ha (fun _ => rfl), integrate_spec_sin_mul_sin_half_sq false id θ a ha (by simp)]

/-! ## key "sin(theta/(2*a))**2" — g = sin²(·/2) -/

theorem integrand_table_sin_half_sq (θ a : ℝ) : integrand_sin_half_sq θ a = g_sin_half_sq (θ / a) := by
  simp only [integrand_sin_half_sq, g_sin_half_sq] <;> ring_nf

theorem analytic_closed_form_sin_half_sq (θ a : ℝ) (hθ : θ ≠ 0) (ha : 0 < a) :
    ∫ t in (0:ℝ)..a, g_sin_half_sq (θ * t / a) = result_sin_half_sq θ a := by
  simp only [g_sin_half_sq]
  exact (cf_sin_half_sq θ a hθ ha).trans (by unfold result_sin_half_sq; ring)

theorem analytic_spec_sin_half_sq (θ a : ℝ) (ha : 0 < a) :
    analytic_defined_sin_half_sq θ a ∧ analytic_sin_half_sq θ a = ∫ t in (0:ℝ)..a, g_sin_half_sq (θ * t / a) := by
  unfold analytic_defined_sin_half_sq analytic_sin_half_sq
  split_ifs with h
  · subst h
    refine ⟨by simp [ha.ne'], ?_⟩
    rw [integral_at_zero]; simp [g_sin_half_sq]
  · refine ⟨by simp [h], ?_⟩
    rw [analytic_closed_form_sin_half_sq θ a h ha]; rfl

theorem analytic_zero_sin_half_sq (a : ℝ) : analytic_sin_half_sq 0 a = a * g_sin_half_sq 0 := by
  simp [analytic_sin_half_sq, g_sin_half_sq]

theorem analytic_limit_sin_half_sq (a : ℝ) (ha : 0 < a) :
    Tendsto (fun θ => analytic_sin_half_sq θ a) (𝓝[≠] 0) (𝓝 (a * g_sin_half_sq 0)) :=
  tendsto_of_closed_form g_sin_half_sq (by unfold g_sin_half_sq; fun_prop) _ a
    (fun θ _ => ((analytic_spec_sin_half_sq θ a ha).2).symm)

theorem numeric_integrand_spec_sin_half_sq (F : ℝ → ℝ) (θ a t : ℝ) (ha : a ≠ 0) :
    numeric_integrand_defined_sin_half_sq F θ a t ∧ numeric_integrand_sin_half_sq F θ a t = g_sin_half_sq (θ * F (t / a)) := by
  refine ⟨by simp [numeric_integrand_defined_sin_half_sq, ha], ?_⟩
  simp only [numeric_integrand_sin_half_sq, g_sin_half_sq, mul_div_cancel_right₀ _ ha, mul_div_mul_right _ _ ha] <;> ring_nf

theorem numeric_constant_pulse_sin_half_sq (θ a : ℝ) (hθ : θ ≠ 0) (ha : 0 < a) :
    numeric_sin_half_sq id θ a = result_sin_half_sq θ a := by
  rw [← analytic_closed_form_sin_half_sq θ a hθ ha]
  unfold numeric_sin_half_sq
  refine intervalIntegral.integral_congr fun t _ => ?_
  simp only [(numeric_integrand_spec_sin_half_sq id θ a t ha.ne').2, id, mul_div_assoc]

theorem integrate_spec_sin_half_sq (ul : Bool) (F : ℝ → ℝ) (θ a : ℝ) (ha : 0 < a) (hF : ul = true → F = id) :
    integrate_sin_half_sq ul F θ a = ∫ t in (0:ℝ)..a, g_sin_half_sq (θ * F (t / a)) := by
  unfold integrate_sin_half_sq
  split_ifs with h
  · rw [hF h, (analytic_spec_sin_half_sq θ a ha).2]; simp only [id, mul_div_assoc]
  · unfold numeric_sin_half_sq
    exact intervalIntegral.integral_congr fun t _ => (numeric_integrand_spec_sin_half_sq F θ a t ha.ne').2

theorem branches_agree_sin_half_sq (θ a : ℝ) (ha : 0 < a) :
    integrate_sin_half_sq true id θ a = integrate_sin_half_sq false id θ a := by
  rw [integrate_spec_sin_half_sq true id θ a ha (fun _ => rfl), integrate_spec_sin_half_sq false id θ a ha (by simp)]

/-! ## key "cos(theta/a)**2" — g = cos² -/

theorem integrand_table_cos_sq (θ a : ℝ) : integrand_cos_sq θ a = g_cos_sq (θ / a) := by
  simp only [integrand_cos_sq, g_cos_sq] <;> ring_nf

theorem analytic_closed_form_cos_sq (θ a : ℝ) (hθ : θ ≠ 0) (ha : 0 < a) :
    ∫ t in (0:ℝ)..a, g_cos_sq (θ * t / a) = result_cos_sq θ a := by
  simp only [g_cos_sq]
  exact (cf_cos_sq θ a hθ ha).trans (by unfold result_cos_sq; ring)

theorem analytic_spec_cos_sq (θ a : ℝ) (ha : 0 < a) :
    analytic_defined_cos_sq θ a ∧ analytic_cos_sq θ a = ∫ t in (0:ℝ)..a, g_cos_sq (θ * t / a) := by
  unfold analytic_defined_cos_sq analytic_cos_sq
  split_ifs with h
  · subst h
    refine ⟨by simp [ha.ne'], ?_⟩
    rw [integral_at_zero]; simp [g_cos_sq]
  · refine ⟨by simp [h], ?_⟩
    rw [analytic_closed_form_cos_sq θ a h ha]; rfl

theorem analytic_zero_cos_sq (a : ℝ) : analytic_cos_sq 0 a = a * g_cos_sq 0 := by
  simp [analytic_cos_sq, g_cos_sq]

theorem analytic_limit_cos_sq (a : ℝ) (ha : 0 < a) :
    Tendsto (fun θ => analytic_cos_sq θ a) (𝓝[≠] 0) (𝓝 (a * g_cos_sq 0)) :=
  tendsto_of_closed_form g_cos_sq (by unfold g_cos_sq; fun_prop) _ a
    (fun θ _ => ((analytic_spec_cos_sq θ a ha).2).symm)

theorem numeric_integrand_spec_cos_sq (F : ℝ → ℝ) (θ a t : ℝ) (ha : a ≠ 0) :
    numeric_integrand_defined_cos_sq F θ a t ∧ numeric_integrand_cos_sq F θ a t = g_cos_sq (θ * F (t / a)) := by
  refine ⟨by simp [numeric_integrand_defined_cos_sq, ha], ?_⟩
  simp only [numeric_integrand_cos_sq, g_cos_sq, mul_div_cancel_right₀ _ ha, mul_div_mul_right _ _ ha] <;> ring_nf

theorem numeric_constant_pulse_cos_sq (θ a : ℝ) (hθ : θ ≠ 0) (ha : 0 < a) :
    numeric_cos_sq id θ a = result_cos_sq θ a := by
  rw [← analytic_closed_form_cos_sq θ a hθ ha]
  unfold numeric_cos_sq
  refine intervalIntegral.integral_congr fun t _ => ?_
  simp only [(numeric_integrand_spec_cos_sq id θ a t ha.ne').2, id, mul_div_assoc]

theorem integrate_spec_cos_sq (ul : Bool) (F : ℝ → ℝ) (θ a : ℝ) (ha : 0 < a) (hF : ul = true → F = id) :
    integrate_cos_sq ul F θ a = ∫ t in (0:ℝ)..a, g_cos_sq (θ * F (t / a)) := by
  unfold integrate_cos_sq
  split_ifs with h
  · rw [hF h, (analytic_spec_cos_sq θ a ha).2]; simp only [id, mul_div_assoc]
  · unfold numeric_cos_sq
    exact intervalIntegral.integral_congr fun t _ => (numeric_integrand_spec_cos_sq F θ a t ha.ne').2

theorem branches_agree_cos_sq (θ a : ℝ) (ha : 0 < a) :
    integrate_cos_sq true id θ a = integrate_cos_sq false id θ a := by
  rw [integrate_spec_cos_sq true id θ a ha (fun _ => rfl), integrate_spec_cos_sq false id θ a ha (by simp)]

/-! ## key "sin(theta/a)*cos(theta/a)" — g = sin·cos -/

theorem integrand_table_sin_mul_cos (θ a : ℝ) : integrand_sin_mul_cos θ a = g_sin_mul_cos (θ / a) := by
  simp only [integrand_sin_mul_cos, g_sin_mul_cos] <;> ring_nf

theorem analytic_closed_form_sin_mul_cos (θ a : ℝ) (hθ : θ ≠ 0) (ha : 0 < a) :
    ∫ t in (0:ℝ)..a, g_sin_mul_cos (θ * t / a) = result_sin_mul_cos θ a := by
  simp only [g_sin_mul_cos]
  exact (cf_sin_mul_cos θ a hθ ha).trans (by unfold result_sin_mul_cos; ring)

theorem analytic_spec_sin_mul_cos (θ a : ℝ) (ha : 0 < a) :
    analytic_defined_sin_mul_cos θ a ∧ analytic_sin_mul_cos θ a = ∫ t in (0:ℝ)..a, g_sin_mul_cos (θ * t / a) := by
  unfold analytic_defined_sin_mul_cos analytic_sin_mul_cos
  split_ifs with h
  · subst h
    refine ⟨by simp [ha.ne'], ?_⟩
    rw [integral_at_zero]; simp [g_sin_mul_cos]
  · refine ⟨by simp [h], ?_⟩
    rw [analytic_closed_form_sin_mul_cos θ a h ha]; rfl

theorem analytic_zero_sin_mul_cos (a : ℝ) : analytic_sin_mul_cos 0 a = a * g_sin_mul_cos 0 := by
  simp [analytic_sin_mul_cos, g_sin_mul_cos]

theorem analytic_limit_sin_mul_cos (a : ℝ) (ha : 0 < a) :
    Tendsto (fun θ => analytic_sin_mul_cos θ a) (𝓝[≠] 0) (𝓝 (a * g_sin_mul_cos 0)) :=
  tendsto_of_closed_form g_sin_mul_cos (by unfold g_sin_mul_cos; fun_prop) _ a
    (fun θ _ => ((analytic_spec_sin_mul_cos θ a ha).2).symm)

theorem numeric_integrand_spec_sin_mul_cos (F : ℝ → ℝ) (θ a t : ℝ) (ha : a ≠ 0) :
    numeric_integrand_defined_sin_mul_cos F θ a t ∧ numeric_integrand_sin_mul_cos F θ a t = g_sin_mul_cos (θ * F (t / a)) := by
  refine ⟨by simp [numeric_integrand_defined_sin_mul_cos, ha], ?_⟩
  simp only [numeric_integrand_sin_mul_cos, g_sin_mul_cos, mul_div_cancel_right₀ _ ha, mul_div_mul_right _ _ ha] <;> ring_nf

theorem numeric_constant_pulse_sin_mul_cos (θ a : ℝ) (hθ : θ ≠ 0) (ha : 0 < a) :
    numeric_sin_mul_cos id θ a = result_sin_mul_cos θ a := by
  rw [← analytic_closed_form_sin_mul_cos θ a hθ ha]
  unfold numeric_sin_mul_cos
  refine intervalIntegral.integral_congr fun t _ => ?_
  simp only [(numeric_integrand_spec_sin_mul_cos id θ a t ha.ne').2, id, mul_div_assoc]

theorem integrate_spec_sin_mul_cos (ul : Bool) (F : ℝ → ℝ) (θ a : ℝ) (ha : 0 < a) (hF : ul = true → F = id) :
    integrate_sin_mul_cos ul F θ a = ∫ t in (0:ℝ)..a, g_sin_mul_cos (θ * F (t / a)) := by
  unfold integrate_sin_mul_cos
  split_ifs with h
  · rw [hF h, (analytic_spec_sin_mul_cos θ a ha).2]; simp only [id, mul_div_assoc]
  · unfold numeric_sin_mul_cos
    exact intervalIntegral.integral_congr fun t _ => (numeric_integrand_spec_sin_mul_cos F θ a t ha.ne').2

theorem branches_agree_sin_mul_cos (θ a : ℝ) (ha : 0 < a) :
    integrate_sin_mul_cos true id θ a = integrate_sin_mul_cos false id θ a := by
  rw [integrate_spec_sin_mul_cos true id θ a ha (fun _ => rfl), integrate_spec_sin_mul_cos false id θ a ha (by simp)]

/-! ## key "sin(theta/a)" — g = sin -/

theorem integrand_table_sin (θ a : ℝ) : integrand_sin θ a = g_sin (θ / a) := by
  simp only [integrand_sin, g_sin] <;> ring_nf

theorem analytic_closed_form_sin (θ a : ℝ) (hθ : θ ≠ 0) (ha : 0 < a) :
    ∫ t in (0:ℝ)..a, g_sin (θ * t / a) = result_sin θ a := by
  simp only [g_sin]
  refine (cf_sin θ a hθ ha).trans ?_
  unfold result_sin
  -- the code writes `1 - cos θ` as `2 sin²(θ/2)` (no cancellation for tiny angles); either spelling is accepted
  have hc : Real.cos θ = 1 - 2 * Real.sin (θ / 2) ^ 2 := by
    have := Real.cos_sq_add_sin_sq (θ / 2)
    have h2 := Real.cos_two_mul (θ / 2)
    rw [show 2 * (θ / 2) = θ by ring] at h2
    rw [h2]; nlinarith
  first
    | ring1
    | (rw [hc]; ring1)

theorem analytic_spec_sin (θ a : ℝ) (ha : 0 < a) :
    analytic_defined_sin θ a ∧ analytic_sin θ a = ∫ t in (0:ℝ)..a, g_sin (θ * t / a) := by
  unfold analytic_defined_sin analytic_sin
  split_ifs with h
  · subst h
    refine ⟨by simp [ha.ne'], ?_⟩
    rw [integral_at_zero]; simp [g_sin]
  · refine ⟨by simp [h], ?_⟩
    rw [analytic_closed_form_sin θ a h ha]; rfl

theorem analytic_zero_sin (a : ℝ) : analytic_sin 0 a = a * g_sin 0 := by
  simp [analytic_sin, g_sin]

theorem analytic_limit_sin (a : ℝ) (ha : 0 < a) :
    Tendsto (fun θ => analytic_sin θ a) (𝓝[≠] 0) (𝓝 (a * g_sin 0)) :=
  tendsto_of_closed_form g_sin (by unfold g_sin; fun_prop) _ a
    (fun θ _ => ((analytic_spec_sin θ a ha).2).symm)

theorem numeric_integrand_spec_sin (F : ℝ → ℝ) (θ a t : ℝ) (ha : a ≠ 0) :
    numeric_integrand_defined_sin F θ a t ∧ numeric_integrand_sin F θ a t = g_sin (θ * F (t / a)) := by
  refine ⟨by simp [numeric_integrand_defined_sin, ha], ?_⟩
  simp only [numeric_integrand_sin, g_sin, mul_div_cancel_right₀ _ ha, mul_div_mul_right _ _ ha] <;> ring_nf

theorem numeric_constant_pulse_sin (θ a : ℝ) (hθ : θ ≠ 0) (ha : 0 < a) :
    numeric_sin id θ a = result_sin θ a := by
  rw [← analytic_closed_form_sin θ a hθ ha]
  unfold numeric_sin
  refine intervalIntegral.integral_congr fun t _ => ?_
  simp only [(numeric_integrand_spec_sin id θ a t ha.ne').2, id, mul_div_assoc]

theorem integrate_spec_sin (ul : Bool) (F : ℝ → ℝ) (θ a : ℝ) (ha : 0 < a) (hF : ul = true → F = id) :
    integrate_sin ul F θ a = ∫ t in (0:ℝ)..a, g_sin (θ * F (t / a)) := by
  unfold integrate_sin
  split_ifs with h
  · rw [hF h, (analytic_spec_sin θ a ha).2]; simp only [id, mul_div_assoc]
  · unfold numeric_sin
    exact intervalIntegral.integral_congr fun t _ => (numeric_integrand_spec_sin F θ a t ha.ne').2

theorem branches_agree_sin (θ a : ℝ) (ha : 0 < a) :
    integrate_sin true id θ a = integrate_sin false id θ a := by
  rw [integrate_spec_sin true id θ a ha (fun _ => rfl), integrate_spec_sin false id θ a ha (by simp)]

/-! ## key "cos(theta/(2*a))**2" — g = cos²(·/2) -/

theorem integrand_table_cos_half_sq (θ a : ℝ) : integrand_cos_half_sq θ a = g_cos_half_sq (θ / a) := by
  simp only [integrand_cos_half_sq, g_cos_half_sq] <;> ring_nf

theorem analytic_closed_form_cos_half_sq (θ a : ℝ) (hθ : θ ≠ 0) (ha : 0 < a) :
    ∫ t in (0:ℝ)..a, g_cos_half_sq (θ * t / a) = result_cos_half_sq θ a := by
  simp only [g_cos_half_sq]
  exact (cf_cos_half_sq θ a hθ ha).trans (by unfold result_cos_half_sq; ring)

theorem analytic_spec_cos_half_sq (θ a : ℝ) (ha : 0 < a) :
    analytic_defined_cos_half_sq θ a ∧ analytic_cos_half_sq θ a = ∫ t in (0:ℝ)..a, g_cos_half_sq (θ * t / a) := by
  unfold analytic_defined_cos_half_sq analytic_cos_half_sq
  split_ifs with h
  · subst h
    refine ⟨by simp [ha.ne'], ?_⟩
    rw [integral_at_zero]; simp [g_cos_half_sq]
  · refine ⟨by simp [h], ?_⟩
    rw [analytic_closed_form_cos_half_sq θ a h ha]; rfl

theorem analytic_zero_cos_half_sq (a : ℝ) : analytic_cos_half_sq 0 a = a * g_cos_half_sq 0 := by
  simp [analytic_cos_half_sq, g_cos_half_sq]

theorem analytic_limit_cos_half_sq (a : ℝ) (ha : 0 < a) :
    Tendsto (fun θ => analytic_cos_half_sq θ a) (𝓝[≠] 0) (𝓝 (a * g_cos_half_sq 0)) :=
  tendsto_of_closed_form g_cos_half_sq (by unfold g_cos_half_sq; fun_prop) _ a
    (fun θ _ => ((analytic_spec_cos_half_sq θ a ha).2).symm)

theorem numeric_integrand_spec_cos_half_sq (F : ℝ → ℝ) (θ a t : ℝ) (ha : a ≠ 0) :
    numeric_integrand_defined_cos_half_sq F θ a t ∧ numeric_integrand_cos_half_sq F θ a t = g_cos_half_sq (θ * F (t / a)) := by
  refine ⟨by simp [numeric_integrand_defined_cos_half_sq, ha], ?_⟩
  simp only [numeric_integrand_cos_half_sq, g_cos_half_sq, mul_div_cancel_right₀ _ ha, mul_div_mul_right _ _ ha] <;> ring_nf

theorem numeric_constant_pulse_cos_half_sq (θ a : ℝ) (hθ : θ ≠ 0) (ha : 0 < a) :
    numeric_cos_half_sq id θ a = result_cos_half_sq θ a := by
  rw [← analytic_closed_form_cos_half_sq θ a hθ ha]
  unfold numeric_cos_half_sq
  refine intervalIntegral.integral_congr fun t _ => ?_
  simp only [(numeric_integrand_spec_cos_half_sq id θ a t ha.ne').2, id, mul_div_assoc]

theorem integrate_spec_cos_half_sq (ul : Bool) (F : ℝ → ℝ) (θ a : ℝ) (ha : 0 < a) (hF : ul = true → F = id) :
    integrate_cos_half_sq ul F θ a = ∫ t in (0:ℝ)..a, g_cos_half_sq (θ * F (t / a)) := by
  unfold integrate_cos_half_sq
  split_ifs with h
  · rw [hF h, (analytic_spec_cos_half_sq θ a ha).2]; simp only [id, mul_div_assoc]
  · unfold numeric_cos_half_sq
    exact intervalIntegral.integral_congr fun t _ => (numeric_integrand_spec_cos_half_sq F θ a t ha.ne').2

theorem branches_agree_cos_half_sq (θ a : ℝ) (ha : 0 < a) :
    integrate_cos_half_sq true id θ a = integrate_cos_half_sq false id θ a := by
  rw [integrate_spec_cos_half_sq true id θ a ha (fun _ => rfl), integrate_spec_cos_half_sq false id θ a ha (by simp)]

/-! ## non-vacuity: the hypotheses are met by concrete, non-trivial arguments
(`θ = π/4` resp. `-π/2`, the cross-resonance duration ratio `a = 37/10`, a non-constant parametrisation `F x = x²`,
the lookup branch with the constant pulse) -/

example : ∫ t in (0:ℝ)..(37/10), g_sin_sq (π / 4 * t / (37/10)) = result_sin_sq (π / 4) (37/10) :=
  analytic_closed_form_sin_sq _ _ (by positivity) (by norm_num)
example : ∫ t in (0:ℝ)..(37/10), g_cos_half_sq (-(π / 2) * t / (37/10)) = result_cos_half_sq (-(π / 2)) (37/10) :=
  analytic_closed_form_cos_half_sq _ _ (by simp [pi_ne_zero]) (by norm_num)
example : analytic_defined_cos_sq 0 (37/10) ∧ analytic_cos_sq 0 (37/10) = ∫ t in (0:ℝ)..(37/10), g_cos_sq (0 * t / (37/10)) :=
  analytic_spec_cos_sq 0 _ (by norm_num)
example : analytic_cos_half_sq 0 2 = 2 := by rw [analytic_zero_cos_half_sq]; simp [g_cos_half_sq]
example : Tendsto (fun θ => analytic_sin_mul_cos θ (37/10)) (𝓝[≠] 0) (𝓝 ((37/10) * g_sin_mul_cos 0)) :=
  analytic_limit_sin_mul_cos _ (by norm_num)
example (t : ℝ) : numeric_integrand_sin_half_pow4 (fun x => x ^ 2) (π / 4) (37/10) t
    = g_sin_half_pow4 (π / 4 * (t / (37/10)) ^ 2) :=
  (numeric_integrand_spec_sin_half_pow4 _ _ _ t (by norm_num)).2
example : numeric_sin id (π / 4) (37/10) = result_sin (π / 4) (37/10) :=
  numeric_constant_pulse_sin _ _ (by positivity) (by norm_num)
example : integrate_sin_mul_sin_half_sq false (fun x => x ^ 2) (-(π / 2)) (37/10)
    = ∫ t in (0:ℝ)..(37/10), g_sin_mul_sin_half_sq (-(π / 2) * (t / (37/10)) ^ 2) :=
  integrate_spec_sin_mul_sin_half_sq false _ _ _ (by norm_num) (by simp)
example : integrate_sin_half_sq true id π 1 = ∫ t in (0:ℝ)..1, g_sin_half_sq (π * id (t / 1)) :=
  integrate_spec_sin_half_sq true id _ _ one_pos (fun _ => rfl)
example : integrate_cos_sq true id 0 (37/10) = integrate_cos_sq false id 0 (37/10) :=
  branches_agree_cos_sq 0 _ (by norm_num)

end QG.C12
