import Mathlib.Tactic
import Mathlib.MeasureTheory.Integral.IntervalIntegral.Basic
import Mathlib.Analysis.SpecialFunctions.Integrals.Basic
import QG.Gen.Pulse
import QG.Lemmas.PulseValidate

/-!
# C13 — pulse objects are normalised waveforms with a consistent parametrisation

Property theorems only.

* **Part 1 (translator tie).**  `QG.Gen.Pulse.gaussianWaveform / gaussianParam / gaussianDenominator /
  gaussianInputsAccepted / constantPulse…` are regenerated from the source text of `pulse.py` on every run
  (`harness/gen/pulse.py`; three-row mapping table `scipy.stats.norm.pdf/cdf/sf ↦ normPdf/normCdf/normSf`,
  `QG/Lemmas/NormalDist.lean`).  For every `loc` and every `scale > 0`: the waveform is non-negative and
  integrates to 1 on `[0,1]`, the parametrisation is its running integral, is monotone, `0` at `0` and `1` at `1`,
  and the constructor's `denominator != 0` assertion holds.  Real numbers, not floats: the cancellation of
  `cdf(1) − cdf(0)` in a far tail (defect D16) is outside these theorems and is found by the check's
  50-digit oracle.
* **Part 2 (hand model).**  `QG.Model.PulseValidate.construct` is the decision logic of
  `Pulse.__init__(…, perform_checks)`; `quad` is a parameter `integ`.  It accepts exactly the pairs that
  meet the six sampled conditions `Passes`, otherwise fails with the `AssertionError` of the first violated
  group; every exactly valid real pair passes (`exactly_valid_pair_passes`), in particular every Gaussian pair
  of Part 1 with the class constants read from the source (`gaussian_pair_passes_validation`).
* The literal clause "fails for pairs whose parametrisation is not the running integral" is **false for any
  sampling validator** (`literal_rejection_claim_false` exhibits an accepted pair that is off by 2/5 at
  `x = 1/2`); what holds is `validation_rejects_partial`: a violation *at a sampled point / beyond ε* is rejected.
* Pickling (last clause of C13) is a statement about Python's pickle protocol; it is exercised by the harness
  only and is outside the proof.
-/
set_option linter.unusedSimpArgs false

namespace QG.C13
open MeasureTheory Set
open QG.Gen.Pulse QG.Lemmas.NormalDist QG.Lemmas.PulseValidate QG.Model.PulseValidate

/-! ## Part 1: the generated Gaussian and constant pulses -/

/-- the normalisation constant `Z = Φ(1) − Φ(0)`, the weight of the Gaussian on `[0,1]` -/
noncomputable def Z (loc scale : ℝ) : ℝ := normCdf 1 loc scale - normCdf 0 loc scale

/-- closes `generated = normal form` for the present source (`rfl` / `ring`) and for sources that compute the
same differences through `sf` or an `if` on `loc` (e.g. the repair of D16) -/
local macro "normal_form" : tactic =>
  `(tactic| (try simp only [normSf]) <;> first | rfl | ring1 | (split_ifs <;> ring1))

/-- normal forms of the generated definitions; everything below goes through them, so a harmless rewrite of
the Python only has to keep these four lemmas provable, while swapping `cdf(1)` and `cdf(0)`, dropping the
normalisation or using another numerator makes them false -/
theorem gaussianWaveform_eq (loc scale x : ℝ) :
    gaussianWaveform loc scale x = normPdf x loc scale / Z loc scale := by
  unfold gaussianWaveform Z; normal_form

theorem gaussianParam_eq (loc scale x : ℝ) :
    gaussianParam loc scale x = (normCdf x loc scale - normCdf 0 loc scale) / Z loc scale := by
  unfold gaussianParam Z; normal_form

theorem gaussianDenominator_eq (loc scale : ℝ) : gaussianDenominator loc scale = Z loc scale := by
  unfold gaussianDenominator Z; normal_form

theorem gaussianInputsAccepted_iff (loc scale : ℝ) : gaussianInputsAccepted loc scale ↔ Z loc scale ≠ 0 := by
  have h := gaussianDenominator_eq loc scale
  unfold gaussianDenominator at h
  unfold gaussianInputsAccepted
  rw [h]

variable (loc : ℝ) {scale : ℝ}

/-- the Gaussian has positive weight on `[0,1]` for every `loc` and every positive `scale` -/
theorem Z_pos (hs : 0 < scale) : 0 < Z loc scale := normCdf_sub_pos hs loc zero_lt_one

/-- `_validate_inputs`: in exact arithmetic the assertion `denominator != 0` holds for every `loc`, `scale > 0`,
and the validated denominator is the one the waveform divides by -/
theorem constructor_accepts (hs : 0 < scale) : gaussianInputsAccepted loc scale :=
  (gaussianInputsAccepted_iff loc scale).mpr (Z_pos loc hs).ne'

theorem waveform_denominator_is_validated (x : ℝ) :
    gaussianWaveform loc scale x = normPdf x loc scale / gaussianDenominator loc scale := by
  rw [gaussianWaveform_eq, gaussianDenominator_eq]

theorem waveform_nonneg (hs : 0 < scale) (x : ℝ) : 0 ≤ gaussianWaveform loc scale x := by
  rw [gaussianWaveform_eq]; exact div_nonneg (normPdf_nonneg _ _ _) (Z_pos loc hs).le

theorem waveform_pos (hs : 0 < scale) (x : ℝ) : 0 < gaussianWaveform loc scale x := by
  rw [gaussianWaveform_eq]; exact div_pos (normPdf_pos hs _ _) (Z_pos loc hs)

theorem waveform_intervalIntegrable (a b : ℝ) :
    IntervalIntegrable (gaussianWaveform loc scale) volume a b := by
  have : gaussianWaveform loc scale = fun x => normPdf x loc scale / Z loc scale :=
    funext (gaussianWaveform_eq loc scale)
  rw [this]
  exact (normPdf_intervalIntegrable loc scale a b).div_const _

/-- the parametrisation is the running integral of the waveform (for every `x ≥ 0`, in particular on `[0,1]`) -/
theorem param_is_running_integral (hs : 0 < scale) {x : ℝ} (hx : 0 ≤ x) :
    gaussianParam loc scale x = ∫ t in (0:ℝ)..x, gaussianWaveform loc scale t := by
  simp only [gaussianWaveform_eq]
  rw [gaussianParam_eq, intervalIntegral.integral_div, normCdf_sub hs loc hx]

theorem param_zero : gaussianParam loc scale 0 = 0 := by
  rw [gaussianParam_eq]; simp

theorem param_one (hs : 0 < scale) : gaussianParam loc scale 1 = 1 := by
  rw [gaussianParam_eq]; exact div_self (Z_pos loc hs).ne'

/-- the waveform integrates to 1 on `[0,1]` -/
theorem waveform_integral_one (hs : 0 < scale) : ∫ x in (0:ℝ)..1, gaussianWaveform loc scale x = 1 := by
  rw [← param_is_running_integral loc hs zero_le_one, param_one loc hs]

theorem param_mono (hs : 0 < scale) : Monotone (gaussianParam loc scale) := by
  intro x y hxy
  rw [gaussianParam_eq, gaussianParam_eq]
  apply div_le_div_of_nonneg_right _ (Z_pos loc hs).le
  have := normCdf_mono loc scale hxy
  simp only at this
  linarith

/-- `F : [0,1] → [0,1]` -/
theorem param_mem_unit (hs : 0 < scale) {x : ℝ} (hx : x ∈ Icc (0:ℝ) 1) :
    gaussianParam loc scale x ∈ Icc (0:ℝ) 1 := by
  constructor
  · rw [← param_zero loc (scale := scale)]; exact param_mono loc hs hx.1
  · rw [← param_one loc hs]; exact param_mono loc hs hx.2

/-- **every Gaussian pulse the constructor accepts** (repair D27): what `_validate_inputs` asserts before it computes the
denominator — read from the source into `gaussianDomainOk` — is that the scale is positive (the `np.isfinite` terms hold
of every real number), so the hypothesis `0 < scale` of the theorems above is exactly the constructor's own guard -/
theorem domain_guard_iff (loc scale : ℝ) : gaussianDomainOk loc scale ↔ 0 < scale := by
  unfold gaussianDomainOk; simp

/-- the first sentence of C13 with the constructor's own guard as the only hypothesis: non-negative waveform integrating
to 1, parametrisation its running integral, monotone from 0 at 0 to 1 at 1, and the denominator assertion holds -/
theorem accepted_gaussian_is_a_pulse (loc scale : ℝ) (h : gaussianDomainOk loc scale) :
    gaussianInputsAccepted loc scale ∧ (∀ x, 0 ≤ gaussianWaveform loc scale x) ∧
      (∫ x in (0:ℝ)..1, gaussianWaveform loc scale x) = 1 ∧
      (∀ x, 0 ≤ x → gaussianParam loc scale x = ∫ t in (0:ℝ)..x, gaussianWaveform loc scale t) ∧
      Monotone (gaussianParam loc scale) ∧ gaussianParam loc scale 0 = 0 ∧ gaussianParam loc scale 1 = 1 := by
  have hs := (domain_guard_iff loc scale).mp h
  exact ⟨constructor_accepts loc hs, waveform_nonneg loc hs, waveform_integral_one loc hs,
    fun x hx => param_is_running_integral loc hs hx, param_mono loc hs, param_zero loc, param_one loc hs⟩

/-- a non-positive scale does not pass the guard (whatever the location) -/
theorem degenerate_scale_fails_guard (loc scale : ℝ) (h : scale ≤ 0) : ¬ gaussianDomainOk loc scale := by
  rw [domain_guard_iff]; exact not_lt.mpr h

/-- the theorems apply to the bundled instance `gaussian_pulse = GaussianPulse(loc=0.5, scale=0.25)` -/
theorem bundled_gaussian_scale_pos : 0 < bundledGaussianPulseScale := by
  unfold bundledGaussianPulseScale; norm_num

/-- non-vacuity of `hs : 0 < scale`: the bundled pulse, and a far-tail pulse (`loc = -8`, the input of D16) -/
example : ∫ x in (0:ℝ)..1, gaussianWaveform bundledGaussianPulseLoc bundledGaussianPulseScale x = 1 :=
  waveform_integral_one _ bundled_gaussian_scale_pos
example : ∫ x in (0:ℝ)..1, gaussianWaveform (-8) 1 x = 1 := waveform_integral_one _ one_pos

/-- `ConstantPulse` and `ConstantPulseNumerical`: waveform 1, parametrisation `x` -/
theorem constant_waveform_nonneg (x : ℝ) :
    0 ≤ constantPulseWaveform x ∧ 0 ≤ constantPulseNumericalWaveform x := by
  unfold constantPulseWaveform constantPulseNumericalWaveform; norm_num

theorem constant_waveform_integral_one :
    ∫ x in (0:ℝ)..1, constantPulseWaveform x = 1 ∧ ∫ x in (0:ℝ)..1, constantPulseNumericalWaveform x = 1 := by
  unfold constantPulseWaveform constantPulseNumericalWaveform; simp

theorem constant_param_is_running_integral (x : ℝ) :
    constantPulseParam x = ∫ t in (0:ℝ)..x, constantPulseWaveform t ∧
    constantPulseNumericalParam x = ∫ t in (0:ℝ)..x, constantPulseNumericalWaveform t := by
  unfold constantPulseParam constantPulseNumericalParam constantPulseWaveform constantPulseNumericalWaveform; simp

theorem constant_param_endpoints :
    constantPulseParam 0 = 0 ∧ constantPulseParam 1 = 1 ∧
    constantPulseNumericalParam 0 = 0 ∧ constantPulseNumericalParam 1 = 1 := by
  unfold constantPulseParam constantPulseNumericalParam; norm_num

theorem constant_param_mono : Monotone constantPulseParam ∧ Monotone constantPulseNumericalParam := by
  unfold constantPulseParam constantPulseNumericalParam
  exact ⟨fun _ _ h => by simpa using h, fun _ _ h => by simpa using h⟩

/-! ## Part 2: the validators of `Pulse.__init__` (hand model, any linearly ordered field) -/

section Validators
variable {α : Type} [Field α] [LinearOrder α] [IsStrictOrderedRing α]

/-- what `_pulse_is_valid` tests -/
def PulseOK (ε : α) (n : ℕ) (integ : α → α → α) (f : α → α) : Prop :=
  |integ 0 1 - 1| < ε ∧ ∀ k, k < n → 0 ≤ f (grid 0 1 n k)

/-- what `_parametrization_is_valid` tests (monotonicity is sampled as `F(x + ε) ≥ F(x) − τ` on a grid of `[0, 1−ε]`;
`τ = 0` in the code on the pinned tree, `τ = ε²` after the repair of the rounding defect D17) -/
def ParamOK (ε τ : α) (n : ℕ) (F : α → α) : Prop :=
  |F 0| < ε ∧ |F 1 - 1| < ε ∧ ∀ k, k < n → F (grid 0 (1 - ε) n k) - τ ≤ F (grid 0 (1 - ε) n k + ε)

/-- what `_are_compatible` tests (note `≤ ε`: the code rejects on `difference > ε`) -/
def CompatOK (ε : α) (n : ℕ) (integ : α → α → α) (F : α → α) : Prop :=
  ∀ k, k < n → |integ 0 (grid ε (1 - ε) n k) - F (grid ε (1 - ε) n k)| ≤ ε

/-- the six sampled conditions -/
def Passes (ε τ : α) (n : ℕ) (integ : α → α → α) (f F : α → α) : Prop :=
  PulseOK ε n integ f ∧ ParamOK ε τ n F ∧ CompatOK ε n integ F

omit [IsStrictOrderedRing α] in
/-- with validation off nothing is rejected -/
theorem validation_off_accepts (ε τ : α) (n : ℕ) (integ : α → α → α) (f F : α → α) :
    construct false ε τ n integ f F = .ok () := rfl

/-- **soundness**: a pair meeting the sampled conditions is accepted -/
theorem validation_sound (ε τ : α) (n : ℕ) (integ : α → α → α) (f F : α → α)
    (h : Passes ε τ n integ f F) : construct true ε τ n integ f F = .ok () := by
  obtain ⟨h1, h2, h3⟩ := h
  have e1 := (pulseIsValid_iff ε n integ f).mpr h1
  have e2 := (paramIsValid_iff ε τ n F).mpr h2
  have e3 := (areCompatible_iff ε n integ F).mpr h3
  simp [construct, e1, e2, e3]

/-- a pair whose waveform is not normalised within `ε`, or negative at a grid point, is rejected by the first
assertion: `AssertionError("Pulse was not valid")` -/
theorem validation_rejects_pulse (ε τ : α) (n : ℕ) (integ : α → α → α) (f F : α → α)
    (h : ¬ PulseOK ε n integ f) : construct true ε τ n integ f F = .error .pulseNotValid := by
  have e1 : pulseIsValid ε n integ f = false := by
    rw [← Bool.not_eq_true]; exact fun e => h ((pulseIsValid_iff ε n integ f).mp e)
  simp [construct, e1]

/-- a valid waveform with a parametrisation that does not start at 0 / stop at 1 within `ε`, or decreases over
one of the sampled `ε`-steps: `AssertionError("Parametrization was not valid")` -/
theorem validation_rejects_param (ε τ : α) (n : ℕ) (integ : α → α → α) (f F : α → α)
    (h1 : PulseOK ε n integ f) (h : ¬ ParamOK ε τ n F) :
    construct true ε τ n integ f F = .error .paramNotValid := by
  have e1 := (pulseIsValid_iff ε n integ f).mpr h1
  have e2 : paramIsValid ε τ n F = false := by
    rw [← Bool.not_eq_true]; exact fun e => h ((paramIsValid_iff ε τ n F).mp e)
  simp [construct, e1, e2]

/-- both individually valid, but the parametrisation differs from the integral of the waveform by more than `ε`
at a grid point: `AssertionError("Pulse and parametrization are incompatible. ")` -/
theorem validation_rejects_incompatible (ε τ : α) (n : ℕ) (integ : α → α → α) (f F : α → α)
    (h1 : PulseOK ε n integ f) (h2 : ParamOK ε τ n F) (h : ¬ CompatOK ε n integ F) :
    construct true ε τ n integ f F = .error .incompatible := by
  have e1 := (pulseIsValid_iff ε n integ f).mpr h1
  have e2 := (paramIsValid_iff ε τ n F).mpr h2
  have e3 : areCompatible ε n integ F = false := by
    rw [← Bool.not_eq_true]; exact fun e => h ((areCompatible_iff ε n integ F).mp e)
  simp [construct, e1, e2, e3]

/-- acceptance is *exactly* the six sampled conditions -/
theorem validation_accepts_iff (ε τ : α) (n : ℕ) (integ : α → α → α) (f F : α → α) :
    construct true ε τ n integ f F = .ok () ↔ Passes ε τ n integ f F := by
  refine ⟨fun h => ?_, validation_sound ε τ n integ f F⟩
  by_contra hp
  by_cases h1 : PulseOK ε n integ f
  · by_cases h2 : ParamOK ε τ n F
    · have h3 : ¬ CompatOK ε n integ F := fun h3 => hp ⟨h1, h2, h3⟩
      rw [validation_rejects_incompatible ε τ n integ f F h1 h2 h3] at h; cases h
    · rw [validation_rejects_param ε τ n integ f F h1 h2] at h; cases h
  · rw [validation_rejects_pulse ε τ n integ f F h1] at h; cases h

/-- **rejection, the part that is true.**  The literal claim of C13 — construction *fails for every pair whose
waveform is not normalised, whose parametrisation does not run from 0 to 1, or whose parametrisation is not the
running integral of the waveform* — cannot hold for a validator that samples `n` points with tolerance `ε`
(see `literal_rejection_claim_false`).  What holds: a pair violating one of the conditions **at a sampled
point / beyond `ε`** is not constructed; the construction raises one of the three `AssertionError`s (which one:
`validation_rejects_pulse / _param / _incompatible`). -/
theorem validation_rejects_partial (ε τ : α) (n : ℕ) (integ : α → α → α) (f F : α → α)
    (h : ¬ Passes ε τ n integ f F) : ∃ e, construct true ε τ n integ f F = .error e := by
  cases hc : construct true ε τ n integ f F with
  | error e => exact ⟨e, rfl⟩
  | ok u => exact absurd ((validation_accepts_iff ε τ n integ f F).mp hc) h

omit [IsStrictOrderedRing α] in
/-- `GaussianPulse._validate_inputs` accepts exactly when every type assertion holds and the computed
denominator is not 0; otherwise it raises `AssertionError` (type assertions first) -/
theorem gaussian_validate_inputs_iff (typeChecks : List Bool) (d : α) :
    gaussianValidateInputs typeChecks d = .ok () ↔ (∀ b ∈ typeChecks, b = true) ∧ d ≠ 0 := by
  have hall : (typeChecks.all id = true) ↔ ∀ b ∈ typeChecks, b = true := by
    rw [List.all_eq_true]; simp only [id]
  unfold gaussianValidateInputs
  rw [← hall]
  by_cases h1 : typeChecks.all id = true <;> by_cases h2 : d = 0 <;> simp [h1, h2]

omit [IsStrictOrderedRing α] in
theorem gaussian_validate_inputs_zero (typeChecks : List Bool) (h : ∀ b ∈ typeChecks, b = true) :
    gaussianValidateInputs typeChecks (0 : α) = .error .denominatorZero := by
  have h1 : typeChecks.all id = true := by rw [List.all_eq_true]; simpa only [id] using h
  simp [gaussianValidateInputs, h1]

/-- why a positive slack `τ` makes the sampled monotonicity test immune to rounding (the repair of D17): values `F'`
that are within `τ/2` of a monotone `F` pass it -/
theorem monotone_check_tolerates_rounding (ε τ : α) (n : ℕ) (F F' : α → α) (hε : 0 ≤ ε) (hF : Monotone F)
    (hclose : ∀ x, |F' x - F x| ≤ τ / 2) :
    ∀ k, k < n → F' (grid 0 (1 - ε) n k) - τ ≤ F' (grid 0 (1 - ε) n k + ε) := by
  intro k _
  have h1 := abs_le.mp (hclose (grid 0 (1 - ε) n k))
  have h2 := abs_le.mp (hclose (grid 0 (1 - ε) n k + ε))
  have h3 : F (grid 0 (1 - ε) n k) ≤ F (grid 0 (1 - ε) n k + ε) := hF (by linarith)
  linarith [h1.2, h2.1]

end Validators

/-- `constructor_accepts_iff` of the design: the constructor rejects well-typed inputs exactly when the computed
`Z` is 0 — in exact arithmetic never for `scale > 0` -/
theorem gaussian_constructor_accepts (loc : ℝ) {scale : ℝ} (hs : 0 < scale) (typeChecks : List Bool)
    (h : ∀ b ∈ typeChecks, b = true) :
    gaussianValidateInputs typeChecks (gaussianDenominator loc scale) = .ok () := by
  rw [gaussian_validate_inputs_iff]
  exact ⟨h, by rw [gaussianDenominator_eq]; exact (Z_pos loc hs).ne'⟩

open Classical in
/-- with the guard's outcome as one more asserted check (`_validate_inputs` asserts it after the type checks and before
the denominator): a well-typed input with `scale ≤ 0` is rejected, whatever denominator would have been computed -/
theorem gaussian_constructor_rejects_degenerate (loc scale : ℝ) (hs : scale ≤ 0) (typeChecks : List Bool) (d : ℝ) :
    ∃ e, gaussianValidateInputs (typeChecks ++ [decide (gaussianDomainOk loc scale)]) d = .error e := by
  have hg : decide (gaussianDomainOk loc scale) = false := decide_eq_false (degenerate_scale_fails_guard loc scale hs)
  cases hc : gaussianValidateInputs (typeChecks ++ [decide (gaussianDomainOk loc scale)]) d with
  | error e => exact ⟨e, rfl⟩
  | ok u =>
    have := ((gaussian_validate_inputs_iff _ d).mp hc).1 _ (by simp : decide (gaussianDomainOk loc scale) ∈ typeChecks ++ [decide (gaussianDomainOk loc scale)])
    rw [hg] at this; exact absurd this (by decide)

open Classical in
/-- and with a positive scale every assertion of the constructor holds (type checks given) -/
theorem gaussian_constructor_accepts_guarded (loc : ℝ) {scale : ℝ} (hs : 0 < scale) (typeChecks : List Bool)
    (h : ∀ b ∈ typeChecks, b = true) :
    gaussianValidateInputs (typeChecks ++ [decide (gaussianDomainOk loc scale)]) (gaussianDenominator loc scale) = .ok () := by
  rw [gaussian_validate_inputs_iff]
  refine ⟨?_, by rw [gaussianDenominator_eq]; exact (Z_pos loc hs).ne'⟩
  intro b hb
  rcases List.mem_append.mp hb with hb | hb
  · exact h b hb
  · simp only [List.mem_singleton] at hb
    rw [hb]; exact decide_eq_true ((domain_guard_iff loc scale).mpr hs)

/-- the literal rejection clause is false: with the class constants `ε = 10⁻⁶`, `n = 10` and the exact integral
of the waveform `f = 1`, the parametrisation that is `x` except for the value `9/10` at `x = 1/2` is accepted,
although it differs from the running integral by `2/5` there (and is not monotone).  No grid of the validator
contains `1/2`. -/
theorem literal_rejection_claim_false :
    ∃ (f F : ℚ → ℚ), construct true (1 / 1000000 : ℚ) 0 10 (fun a b => b - a) f F = .ok () ∧
      (∀ a b, (fun a b => b - a) a b = (b - a) * f 0) ∧ |F (1/2) - ((1/2 : ℚ) - 0)| = 2 / 5 := by
  refine ⟨fun _ => 1, fun x => if x = 1/2 then 9/10 else x, ?_, by intro a b; simp, by norm_num⟩
  apply validation_sound
  refine ⟨⟨by norm_num, fun k _ => by norm_num⟩, ⟨by norm_num, by norm_num, ?_⟩, ?_⟩
  · intro k hk
    interval_cases k <;> norm_num [grid]
  · intro k hk
    interval_cases k <;> norm_num [grid]

/-! ## Part 3: every exactly valid real pair is accepted; the Gaussian pairs are -/

/-- **every exactly valid pair passes**: `f` integrable and non-negative on `[0,1]` with integral 1, `F` its
running integral on `[0,1]`, `quad` returning the integral — accepted for every number of sample points and
every tolerance `0 < ε ≤ 1/2` (the code's `ε = 10⁻⁶`) and every monotonicity slack `τ ≥ 0` (the code's `τ = 0`). -/
theorem exactly_valid_pair_passes (f F : ℝ → ℝ) (ε τ : ℝ) (n : ℕ) (hε : 0 < ε) (hε2 : ε ≤ 1 / 2) (hτ : 0 ≤ τ)
    (hint : IntervalIntegrable f volume 0 1)
    (hnonneg : ∀ x ∈ Icc (0:ℝ) 1, 0 ≤ f x)
    (hone : ∫ x in (0:ℝ)..1, f x = 1)
    (hF : ∀ x ∈ Icc (0:ℝ) 1, F x = ∫ t in (0:ℝ)..x, f t) :
    construct true ε τ n (fun a b => ∫ t in a..b, f t) f F = .ok () := by
  apply validation_sound
  have hF0 : F 0 = 0 := by rw [hF 0 ⟨le_rfl, zero_le_one⟩]; simp
  have hF1 : F 1 = 1 := by rw [hF 1 ⟨zero_le_one, le_rfl⟩, hone]
  have hsub : ∀ a b : ℝ, 0 ≤ a → a ≤ b → b ≤ 1 → IntervalIntegrable f volume a b := by
    intro a b ha hab hb
    apply hint.mono_set
    rw [uIcc_of_le hab, uIcc_of_le zero_le_one]
    exact Icc_subset_Icc ha hb
  refine ⟨⟨?_, ?_⟩, ⟨?_, ?_, ?_⟩, ?_⟩
  · simp [hone, hε]
  · intro k hk
    have := grid_mem (0:ℝ) 1 zero_le_one n k hk
    exact hnonneg _ ⟨this.1, this.2⟩
  · simp [hF0, hε]
  · simp [hF1, hε]
  · intro k hk
    have hg := grid_mem (0:ℝ) (1 - ε) (by linarith) n k hk
    set x := grid (0:ℝ) (1 - ε) n k with hx
    have hx0 : 0 ≤ x := hg.1
    have hx1 : x + ε ≤ 1 := by linarith [hg.2]
    rw [hF x ⟨hx0, by linarith⟩, hF (x + ε) ⟨by linarith, hx1⟩]
    have hadd := intervalIntegral.integral_add_adjacent_intervals
      (hsub 0 x le_rfl hx0 (by linarith)) (hsub x (x + ε) hx0 (by linarith) hx1)
    rw [← hadd]
    have : 0 ≤ ∫ t in x..(x + ε), f t := by
      apply intervalIntegral.integral_nonneg (by linarith)
      intro u hu; exact hnonneg u ⟨by linarith [hu.1], by linarith [hu.2]⟩
    linarith
  · intro k hk
    have hg := grid_mem ε (1 - ε) (by linarith) n k hk
    rw [hF _ ⟨by linarith [hg.1], by linarith [hg.2]⟩]
    simp [hε.le]

/-- the tolerance read from the class attribute `Pulse.epsilon` and the slack of the monotonicity comparison read from
`_parametrization_is_valid` (generated constants) -/
noncomputable def pulseEpsilon : ℝ := (pulseEpsilonNum : ℝ) / (pulseEpsilonDen : ℝ)
noncomputable def pulseMonoTol : ℝ := (pulseMonoTolNum : ℝ) / (pulseMonoTolDen : ℝ)

/-- `GaussianPulse(loc, scale, perform_checks=True)` passes the validation of `Pulse.__init__` for every `loc`
and every `scale > 0` (exact arithmetic, exact quadrature), with the constants the code has now -/
theorem gaussian_pair_passes_validation (hs : 0 < scale) :
    construct true pulseEpsilon pulseMonoTol pulseCheckNPoints
      (fun a b => ∫ t in a..b, gaussianWaveform loc scale t)
      (gaussianWaveform loc scale) (gaussianParam loc scale) = .ok () := by
  apply exactly_valid_pair_passes
  · unfold pulseEpsilon pulseEpsilonNum pulseEpsilonDen; norm_num
  · unfold pulseEpsilon pulseEpsilonNum pulseEpsilonDen; norm_num
  · unfold pulseMonoTol; positivity
  · exact waveform_intervalIntegrable loc 0 1
  · intro x _; exact waveform_nonneg loc hs x
  · exact waveform_integral_one loc hs
  · intro x hx; exact param_is_running_integral loc hs hx.1

/-- non-vacuity of the hypotheses of `exactly_valid_pair_passes`: the linear ramp `f = 2x`, `F = x²` -/
example : construct true (1 / 1000000 : ℝ) 0 10 (fun a b => ∫ t in a..b, 2 * t) (fun x => 2 * x) (fun x => x ^ 2)
    = .ok () := by
  apply exactly_valid_pair_passes
  · norm_num
  · norm_num
  · norm_num
  · exact (continuous_const.mul continuous_id).intervalIntegrable _ _
  · intro x hx; linarith [hx.1]
  · rw [intervalIntegral.integral_const_mul, integral_id]; norm_num
  · intro x _; rw [intervalIntegral.integral_const_mul, integral_id]; ring

/-- non-vacuity of `validation_rejects_pulse`: the unnormalised constant waveform `f = 2` over `ℚ` -/
example : construct true (1 / 1000000 : ℚ) 0 10 (fun a b => 2 * (b - a)) (fun _ => 2) (fun x => 2 * x)
    = .error .pulseNotValid := by
  apply validation_rejects_pulse
  rintro ⟨h, -⟩
  norm_num at h

/-- non-vacuity of `validation_rejects_param`: `f = 1`, `F = x + 1/2` (does not start at 0) -/
example : construct true (1 / 1000000 : ℚ) 0 10 (fun a b => b - a) (fun _ => 1) (fun x => x + 1 / 2)
    = .error .paramNotValid := by
  apply validation_rejects_param
  · exact ⟨by norm_num, fun k _ => by norm_num⟩
  · rintro ⟨h, -⟩
    norm_num at h

/-- non-vacuity of `validation_rejects_incompatible`: `f = 1`, `F = x²` (0 at 0, 1 at 1, monotone on the sampled steps,
but not the running integral: off by more than `ε` at the grid point `k = 4`) -/
example : construct true (1 / 1000000 : ℚ) 0 10 (fun a b => b - a) (fun _ => 1) (fun x => x ^ 2)
    = .error .incompatible := by
  apply validation_rejects_incompatible
  · exact ⟨by norm_num, fun k _ => by norm_num⟩
  · refine ⟨by norm_num, by norm_num, ?_⟩
    intro k hk
    interval_cases k <;> norm_num [grid]
  · intro h
    have := h 4 (by norm_num)
    norm_num [grid, abs_le] at this

/-- non-vacuity of `gaussian_validate_inputs_iff` / `_zero`: both type assertions hold, denominator `1/3` resp. `0` -/
example : gaussianValidateInputs [true, true] (1 / 3 : ℚ) = .ok () ∧
    gaussianValidateInputs [true, true] (0 : ℚ) = .error .denominatorZero ∧
    gaussianValidateInputs [true, false] (1 / 3 : ℚ) = .error .inputType := by
  refine ⟨(gaussian_validate_inputs_iff _ _).mpr ⟨by simp, by norm_num⟩, gaussian_validate_inputs_zero _ (by simp), by decide⟩

/-- the function the driver executes (`constructRat`: the model on core Lean's `Rat`, elaborated without Mathlib) is
covered by the theorems above (which see `ℚ` through Mathlib's field and order instances) -/
theorem driver_instance_accepts_iff (ε τ : ℚ) (n : ℕ) (integ : ℚ → ℚ → ℚ) (f F : ℚ → ℚ) :
    constructRat true ε τ n integ f F = .ok () ↔ Passes ε τ n integ f F :=
  validation_accepts_iff ε τ n integ f F

end QG.C13
