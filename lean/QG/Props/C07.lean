import Mathlib.Tactic
import Mathlib.Analysis.Normed.Algebra.MatrixExponential
import QG.Lemmas.GatesZeroNoise

/-!
# C07 (part 1) — zero noise gives the ideal gate exactly

All definitions under `QG.Gen` are regenerated from `factories.py` / `gates.py` on every run.
"Every sample" is the universally quantified samples record `w`; "every pulse shape" is the
universally quantified parametrisation `F`; "every gate set" is `Gates` (the factories),
`ScaledNoiseGates` (any scale) against `NoiseFreeGates`.

The idle-relaxation gate draws its off-diagonal sample `I` with standard deviation
`sqrt(1 - exp(-e1² Δ))`, which is `0` at `T1 = 0` (`relaxation_std_I_zero`): a sample of `N(0, 0)` is
`0`, which is the hypothesis `w.I = 0` of the relaxation statements.
-/
namespace QG.C07
open QG.Gen QG.Lemmas.Gates Matrix
open scoped Matrix.Norms.Operator

/-! ## elementary gates -/

theorem single_qubit_zero_noise (F : ℝ → ℝ) (theta phi : ℝ) (w : SingleQubit.Samples) :
    SingleQubit.construct F theta phi 0 0 0 w = NoiseFree.single_qubit_gate theta phi 0 0 0 := by
  have h := sq_zero_noise_args (SingleQubit.envOf F theta phi 0 0 0 w)
    (by simp [SingleQubit.envOf, SingleQubit.ed]) (by simp [SingleQubit.envOf, SingleQubit.e1])
    (by simp [SingleQubit.envOf, SingleQubit.ep])
  simp only [SingleQubit.construct, SingleQubit.gate, h.1, h.2, NormedSpace.exp_zero, mul_one]
  ext a b; fin_cases a <;> fin_cases b <;>
    simp [SingleQubit.U, SingleQubit.envOf, NoiseFree.single_qubit_gate, Complex.exp_neg]

theorem cr_zero_noise (F : ℝ → ℝ) (theta phi t_cr : ℝ) (w : CR.Samples) :
    CR.construct F theta phi t_cr 0 0 0 0 0 w = NoiseFree.CR theta phi 0 0 0 0 0 0 := by
  have h := cr_zero_noise_args (CR.envOf F theta phi t_cr 0 0 0 0 0 w)
    (by simp [CR.envOf, CR.ed_cr]) (by simp [CR.envOf, CR.e1_ctr]) (by simp [CR.envOf, CR.ep_ctr])
    (by simp [CR.envOf, CR.e1_trg]) (by simp [CR.envOf, CR.ep_trg])
  simp only [CR.construct, CR.gate, h.1, h.2, NormedSpace.exp_zero, mul_one]
  ext a b; fin_cases a <;> fin_cases b <;> simp [CR.U, CR.envOf, NoiseFree.CR, Complex.exp_neg]

theorem x_zero_noise (F : ℝ → ℝ) (phi : ℝ) (w : X.Samples) :
    X.construct F phi 0 0 0 w = NoiseFree.X phi 0 0 0 := by
  rw [X.construct, single_qubit_zero_noise]
  simp [NoiseFree.single_qubit_gate, NoiseFree.X, NoiseFree.X_.theta]

theorem sx_zero_noise (F : ℝ → ℝ) (phi : ℝ) (w : SX.Samples) :
    SX.construct F phi 0 0 0 w = NoiseFree.SX phi 0 0 0 := by
  rw [SX.construct, single_qubit_zero_noise]
  simp [NoiseFree.single_qubit_gate, NoiseFree.SX, NoiseFree.SX_.theta]

theorem relaxation_std_I_zero (Dt : ℝ) : Relaxation.std_I (T1 := 0) (Dt := Dt) = 0 := by
  simp [Relaxation.std_I, Relaxation.e1]

theorem relaxation_zero_noise (Dt : ℝ) (w : Relaxation.Samples) (hI : w.I = 0) :
    Relaxation.construct Dt 0 0 w = NoiseFree.relaxation Dt 0 0 := by
  ext a b; fin_cases a <;> fin_cases b <;>
    simp [Relaxation.construct, Relaxation.resultMat, Relaxation.ep, Relaxation.e1, NoiseFree.relaxation, hI]

theorem bitflip_zero_noise (tm : ℝ) (w : Bitflip.Samples) :
    Bitflip.construct tm 0 w = NoiseFree.bitflip tm 0 := by
  ext a b; fin_cases a <;> fin_cases b <;>
    simp [Bitflip.construct, Bitflip.resultMat, Bitflip.e, NoiseFree.bitflip]

theorem depolarizing_zero_noise (Dt : ℝ) (w : Depolarizing.Samples) :
    Depolarizing.construct Dt 0 w = NoiseFree.depolarizing Dt 0 := by
  have h : Depolarizing.noiseArg Dt 0 w = 0 := by
    ext a b; fin_cases a <;> fin_cases b <;>
      simp [Depolarizing.noiseArg, Depolarizing.I1Mat, Depolarizing.I2Mat, Depolarizing.I3Mat, Depolarizing.ed]
  rw [Depolarizing.construct, h, NormedSpace.exp_zero]
  ext a b; fin_cases a <;> fin_cases b <;> simp [NoiseFree.depolarizing]

/-! ## composite gates: with all noise parameters zero the derived CR error is zero and the sampled
product is literally the noise-free product (same constituents, same angles, same tensor slots) -/

theorem cnot_zero_noise (F : ℝ → ℝ) (phi_ctr phi_trg t_cnot : ℝ) (w : CNOT.Samples)
    (hI : w.relaxation_gate.I = 0) :
    CNOT.construct F phi_ctr phi_trg t_cnot 0 0 0 0 0 0 0 w
      = NoiseFree.CNOT phi_ctr phi_trg t_cnot 0 0 0 0 0 0 0 := by
  have hp : CNOT.p_cr 0 0 0 = 0 := by simp [CNOT.p_cr]
  simp only [CNOT.construct, NoiseFree.CNOT, hp, cr_zero_noise, x_zero_noise, sx_zero_noise,
    single_qubit_zero_noise, relaxation_zero_noise _ _ hI]
  simp only [nf_CR_irrel _ _ (NoiseFree.CNOT_.t_cr _) _ _ _ _ _, nf_relax_irrel]

theorem cnot_inv_zero_noise (F : ℝ → ℝ) (phi_ctr phi_trg t_cnot : ℝ) (w : CNOTInv.Samples)
    (hI : w.relaxation_gate.I = 0) :
    CNOTInv.construct F phi_ctr phi_trg t_cnot 0 0 0 0 0 0 0 w
      = NoiseFree.CNOT_inv phi_ctr phi_trg t_cnot 0 0 0 0 0 0 0 := by
  have hp : CNOTInv.p_cr 0 0 0 = 0 := by simp [CNOTInv.p_cr]
  simp only [CNOTInv.construct, NoiseFree.CNOT_inv, hp, cr_zero_noise, x_zero_noise, sx_zero_noise,
    single_qubit_zero_noise, relaxation_zero_noise _ _ hI]
  simp only [nf_CR_irrel _ _ (NoiseFree.CNOT_inv_.t_cr _) _ _ _ _ _, nf_relax_irrel]

theorem ecr_zero_noise (F : ℝ → ℝ) (phi_ctr phi_trg t_ecr : ℝ) (w : ECR.Samples)
    (hI : w.relaxation_gate.I = 0) :
    ECR.construct F phi_ctr phi_trg t_ecr 0 0 0 0 0 0 0 w
      = NoiseFree.ECR phi_ctr phi_trg t_ecr 0 0 0 0 0 0 0 := by
  have hp : ECR.p_cr 0 0 0 = 0 := by simp [ECR.p_cr]
  simp only [ECR.construct, NoiseFree.ECR, hp, cr_zero_noise, x_zero_noise, sx_zero_noise,
    single_qubit_zero_noise, relaxation_zero_noise _ _ hI]
  simp only [nf_CR_irrel _ _ (NoiseFree.ECR_.t_cr _) _ _ _ _ _, nf_relax_irrel]

theorem ecr_inv_zero_noise (F : ℝ → ℝ) (phi_ctr phi_trg t_ecr : ℝ) (w : ECRInv.Samples)
    (hI : w.relaxation_gate.I = 0) :
    ECRInv.construct F phi_ctr phi_trg t_ecr 0 0 0 0 0 0 0 w
      = NoiseFree.ECR_inv phi_ctr phi_trg t_ecr 0 0 0 0 0 0 0 := by
  have hp : ECRInv.p_cr 0 0 0 = 0 := by simp [ECRInv.p_cr]
  simp only [ECRInv.construct, NoiseFree.ECR_inv, hp, cr_zero_noise, x_zero_noise, sx_zero_noise,
    single_qubit_zero_noise, relaxation_zero_noise _ _ hI]
  simp only [nf_CR_irrel _ _ (NoiseFree.ECR_inv_.t_cr _) _ _ _ _ _, nf_relax_irrel]

/-! ## the other gate sets: `Gates` is a pass-through to the factories; `ScaledNoiseGates` scales the
noise arguments, and zero scaled by anything is zero -/

theorem gates_X_zero_noise (F : ℝ → ℝ) (phi : ℝ) (w : X.Samples) :
    GatesCls.X F phi 0 0 0 w = NoiseFree.X phi 0 0 0 := by
  rw [GatesCls.X, x_zero_noise]

theorem gates_CNOT_zero_noise (F : ℝ → ℝ) (phi_ctr phi_trg t : ℝ) (w : CNOT.Samples)
    (hI : w.relaxation_gate.I = 0) :
    GatesCls.CNOT F phi_ctr phi_trg t 0 0 0 0 0 0 0 w = NoiseFree.CNOT phi_ctr phi_trg t 0 0 0 0 0 0 0 := by
  rw [GatesCls.CNOT, cnot_zero_noise _ _ _ _ _ hI]

theorem scaled_X_zero_noise (F : ℝ → ℝ) (scale phi : ℝ) (w : X.Samples) :
    Scaled.X F scale phi 0 0 0 w = NoiseFree.X phi 0 0 0 := by
  simp only [Scaled.X, zero_mul, zero_div, gates_X_zero_noise]

theorem scaled_CNOT_zero_noise (F : ℝ → ℝ) (scale phi_ctr phi_trg t : ℝ) (w : CNOT.Samples)
    (hI : w.relaxation_gate.I = 0) :
    Scaled.CNOT F scale phi_ctr phi_trg t 0 0 0 0 0 0 0 w
      = NoiseFree.CNOT phi_ctr phi_trg t 0 0 0 0 0 0 0 := by
  simp only [Scaled.CNOT, zero_mul, zero_div, gates_CNOT_zero_noise _ _ _ _ _ hI]

end QG.C07
