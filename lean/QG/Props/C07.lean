import Mathlib.Tactic
import Mathlib.Analysis.Normed.Algebra.MatrixExponential
import QG.Lemmas.GatesZeroNoise
import QG.Lemmas.GatesUnitary

/-!
# C07 (part 1) — zero noise gives the ideal gate exactly

All definitions under `QG.Gen` are regenerated from `factories.py` / `gates.py` on every run.
"Every sample" is the universally quantified samples record `w`; "every pulse shape" is the
universally quantified parametrisation `F`; "every gate set" is `Gates` (the factories),
`ScaledNoiseGates` (any scale) against `NoiseFreeGates`.

The idle-relaxation gate draws its off-diagonal sample `I` with standard deviation
`sqrt(1 - exp(-e1² Δ))`, which is `0` at `T1 = 0` (`relaxation_std_I_zero`): a sample of `N(0, 0)` is
`0`, which is the hypothesis `w.I = 0` of the relaxation statements.
-/
namespace QG.C07
open QG.Gen QG.Lemmas.Gates Matrix
open scoped Matrix.Norms.Operator

/-! ## elementary gates -/

theorem single_qubit_zero_noise (F : ℝ → ℝ) (theta phi : ℝ) (w : SingleQubit.Samples) :
    SingleQubit.construct F theta phi 0 0 0 w = NoiseFree.single_qubit_gate theta phi 0 0 0 := by
  have h := sq_zero_noise_args (SingleQubit.envOf F theta phi 0 0 0 w)
    (by simp [SingleQubit.envOf, SingleQubit.ed]) (by simp [SingleQubit.envOf, SingleQubit.e1])
    (by simp [SingleQubit.envOf, SingleQubit.ep])
  simp only [SingleQubit.construct, SingleQubit.gate, h.1, h.2, NormedSpace.exp_zero, mul_one]
  ext a b; fin_cases a <;> fin_cases b <;>
    simp [SingleQubit.U, SingleQubit.envOf, NoiseFree.single_qubit_gate, Complex.exp_neg]

theorem cr_zero_noise (F : ℝ → ℝ) (theta phi t_cr : ℝ) (w : CR.Samples) :
    CR.construct F theta phi t_cr 0 0 0 0 0 w = NoiseFree.CR theta phi 0 0 0 0 0 0 := by
  have h := cr_zero_noise_args (CR.envOf F theta phi t_cr 0 0 0 0 0 w)
    (by simp [CR.envOf, CR.ed_cr]) (by simp [CR.envOf, CR.e1_ctr]) (by simp [CR.envOf, CR.ep_ctr])
    (by simp [CR.envOf, CR.e1_trg]) (by simp [CR.envOf, CR.ep_trg])
  simp only [CR.construct, CR.gate, h.1, h.2, NormedSpace.exp_zero, mul_one]
  ext a b; fin_cases a <;> fin_cases b <;> simp [CR.U, CR.envOf, NoiseFree.CR, Complex.exp_neg]

theorem x_zero_noise (F : ℝ → ℝ) (phi : ℝ) (w : X.Samples) :
    X.construct F phi 0 0 0 w = NoiseFree.X phi 0 0 0 := by
  rw [X.construct, single_qubit_zero_noise]
  simp [NoiseFree.single_qubit_gate, NoiseFree.X, NoiseFree.X_.theta]

theorem sx_zero_noise (F : ℝ → ℝ) (phi : ℝ) (w : SX.Samples) :
    SX.construct F phi 0 0 0 w = NoiseFree.SX phi 0 0 0 := by
  rw [SX.construct, single_qubit_zero_noise]
  simp [NoiseFree.single_qubit_gate, NoiseFree.SX, NoiseFree.SX_.theta]

theorem relaxation_std_I_zero (Dt : ℝ) : Relaxation.std_I (T1 := 0) (Dt := Dt) = 0 := by
  simp [Relaxation.std_I, Relaxation.e1]

theorem relaxation_zero_noise (Dt : ℝ) (w : Relaxation.Samples) (hI : w.I = 0) :
    Relaxation.construct Dt 0 0 w = NoiseFree.relaxation Dt 0 0 := by
  ext a b; fin_cases a <;> fin_cases b <;>
    simp [Relaxation.construct, Relaxation.resultMat, Relaxation.ep, Relaxation.e1, NoiseFree.relaxation, hI]

theorem bitflip_zero_noise (tm : ℝ) (w : Bitflip.Samples) :
    Bitflip.construct tm 0 w = NoiseFree.bitflip tm 0 := by
  ext a b; fin_cases a <;> fin_cases b <;>
    simp [Bitflip.construct, Bitflip.resultMat, Bitflip.e, NoiseFree.bitflip]

theorem depolarizing_zero_noise (Dt : ℝ) (w : Depolarizing.Samples) :
    Depolarizing.construct Dt 0 w = NoiseFree.depolarizing Dt 0 := by
  have h : Depolarizing.noiseArg Dt 0 w = 0 := by
    ext a b; fin_cases a <;> fin_cases b <;>
      simp [Depolarizing.noiseArg, Depolarizing.I1Mat, Depolarizing.I2Mat, Depolarizing.I3Mat, Depolarizing.ed]
  rw [Depolarizing.construct, h, NormedSpace.exp_zero]
  ext a b; fin_cases a <;> fin_cases b <;> simp [NoiseFree.depolarizing]

/-! ## composite gates: with all noise parameters zero the derived CR error is zero and the sampled
product is literally the noise-free product (same constituents, same angles, same tensor slots) -/

theorem cnot_zero_noise (F : ℝ → ℝ) (phi_ctr phi_trg t_cnot : ℝ) (w : CNOT.Samples)
    (hI : w.relaxation_gate.I = 0) :
    CNOT.construct F phi_ctr phi_trg t_cnot 0 0 0 0 0 0 0 w
      = NoiseFree.CNOT phi_ctr phi_trg t_cnot 0 0 0 0 0 0 0 := by
  have hp : CNOT.p_cr_1 0 0 0 = 0 := by simp [CNOT.p_cr_1, CNOT.p_cr]
  simp only [CNOT.construct, NoiseFree.CNOT, hp, cr_zero_noise, x_zero_noise, sx_zero_noise,
    single_qubit_zero_noise, relaxation_zero_noise _ _ hI]
  simp only [nf_CR_irrel _ _ (NoiseFree.CNOT_.t_cr _) _ _ _ _ _, nf_relax_irrel]

theorem cnot_inv_zero_noise (F : ℝ → ℝ) (phi_ctr phi_trg t_cnot : ℝ) (w : CNOTInv.Samples)
    (hI : w.relaxation_gate.I = 0) :
    CNOTInv.construct F phi_ctr phi_trg t_cnot 0 0 0 0 0 0 0 w
      = NoiseFree.CNOT_inv phi_ctr phi_trg t_cnot 0 0 0 0 0 0 0 := by
  have hp : CNOTInv.p_cr_1 0 0 0 = 0 := by simp [CNOTInv.p_cr_1, CNOTInv.p_cr]
  simp only [CNOTInv.construct, NoiseFree.CNOT_inv, hp, cr_zero_noise, x_zero_noise, sx_zero_noise,
    single_qubit_zero_noise, relaxation_zero_noise _ _ hI]
  simp only [nf_CR_irrel _ _ (NoiseFree.CNOT_inv_.t_cr _) _ _ _ _ _, nf_relax_irrel]

theorem ecr_zero_noise (F : ℝ → ℝ) (phi_ctr phi_trg t_ecr : ℝ) (w : ECR.Samples)
    (hI : w.relaxation_gate.I = 0) :
    ECR.construct F phi_ctr phi_trg t_ecr 0 0 0 0 0 0 0 w
      = NoiseFree.ECR phi_ctr phi_trg t_ecr 0 0 0 0 0 0 0 := by
  have hp : ECR.p_cr_1 0 0 0 = 0 := by simp [ECR.p_cr_1, ECR.p_cr]
  simp only [ECR.construct, NoiseFree.ECR, hp, cr_zero_noise, x_zero_noise, sx_zero_noise,
    single_qubit_zero_noise, relaxation_zero_noise _ _ hI]
  simp only [nf_CR_irrel _ _ (NoiseFree.ECR_.t_cr _) _ _ _ _ _, nf_relax_irrel]

theorem ecr_inv_zero_noise (F : ℝ → ℝ) (phi_ctr phi_trg t_ecr : ℝ) (w : ECRInv.Samples)
    (hI : w.relaxation_gate.I = 0) :
    ECRInv.construct F phi_ctr phi_trg t_ecr 0 0 0 0 0 0 0 w
      = NoiseFree.ECR_inv phi_ctr phi_trg t_ecr 0 0 0 0 0 0 0 := by
  have hp : ECRInv.p_cr_1 0 0 0 = 0 := by simp [ECRInv.p_cr_1, ECRInv.p_cr]
  simp only [ECRInv.construct, NoiseFree.ECR_inv, hp, cr_zero_noise, x_zero_noise, sx_zero_noise,
    single_qubit_zero_noise, relaxation_zero_noise _ _ hI]
  simp only [nf_CR_irrel _ _ (NoiseFree.ECR_inv_.t_cr _) _ _ _ _ _, nf_relax_irrel]

/-! ## the other gate sets: `Gates` is a pass-through to the factories; `ScaledNoiseGates` scales the
noise arguments, and zero scaled by anything is zero -/

theorem gates_X_zero_noise (F : ℝ → ℝ) (phi : ℝ) (w : X.Samples) :
    GatesCls.X F phi 0 0 0 w = NoiseFree.X phi 0 0 0 := by
  rw [GatesCls.X, x_zero_noise]

theorem gates_CNOT_zero_noise (F : ℝ → ℝ) (phi_ctr phi_trg t : ℝ) (w : CNOT.Samples)
    (hI : w.relaxation_gate.I = 0) :
    GatesCls.CNOT F phi_ctr phi_trg t 0 0 0 0 0 0 0 w = NoiseFree.CNOT phi_ctr phi_trg t 0 0 0 0 0 0 0 := by
  rw [GatesCls.CNOT, cnot_zero_noise _ _ _ _ _ hI]

theorem scaled_X_zero_noise (F : ℝ → ℝ) (scale phi : ℝ) (w : X.Samples) :
    Scaled.X F scale phi 0 0 0 w = NoiseFree.X phi 0 0 0 := by
  simp only [Scaled.X, zero_mul, zero_div, gates_X_zero_noise]

theorem scaled_CNOT_zero_noise (F : ℝ → ℝ) (scale phi_ctr phi_trg t : ℝ) (w : CNOT.Samples)
    (hI : w.relaxation_gate.I = 0) :
    Scaled.CNOT F scale phi_ctr phi_trg t 0 0 0 0 0 0 0 w
      = NoiseFree.CNOT phi_ctr phi_trg t 0 0 0 0 0 0 0 := by
  simp only [Scaled.CNOT, zero_mul, zero_div, gates_CNOT_zero_noise _ _ _ _ _ hI]


/-! # C07 (part 2) — with relaxation off (`T1 = 0`) every sample is exactly unitary

`Real.sqrt` is total in Lean (`0` on negative numbers) whereas `np.sqrt` yields NaN there; the
hypotheses `0 ≤ p`, `0 ≤ T2`, `0 ≤ p_cr`, `0 < t_cr` name the domain on which the generated
definitions and the Python agree (they are the physically meaningful values; the region where the
*derived* cross-resonance error is negative needs no hypothesis any more: the code uses 0 there, `pcr_clamped_nonneg`;
on the pinned tree it took the square root of a negative number — R2, repaired). -/

abbrev U2 := unitary (Matrix (Fin 2) (Fin 2) ℂ)
abbrev U4 := unitary (Matrix (Fin 4) (Fin 4) ℂ)

theorem single_qubit_unitary (F : ℝ → ℝ) (theta phi p T2 : ℝ) (_hp : 0 ≤ p) (_hT2 : 0 ≤ T2)
    (w : SingleQubit.Samples) : SingleQubit.construct F theta phi p 0 T2 w ∈ U2 := by
  obtain ⟨h0, h1, h2⟩ := sq_env_rel F theta phi p 0 T2 w
  exact sq_gate_unitary _ (sq_env_real F theta phi p 0 T2 w) h0 h1 h2
    (by simp [SingleQubit.envOf, SingleQubit.e1])

theorem x_unitary (F : ℝ → ℝ) (phi p T2 : ℝ) (hp : 0 ≤ p) (hT2 : 0 ≤ T2) (w : X.Samples) :
    X.construct F phi p 0 T2 w ∈ U2 := by
  unfold X.construct; exact single_qubit_unitary F _ phi p T2 hp hT2 _

theorem sx_unitary (F : ℝ → ℝ) (phi p T2 : ℝ) (hp : 0 ≤ p) (hT2 : 0 ≤ T2) (w : SX.Samples) :
    SX.construct F phi p 0 T2 w ∈ U2 := by
  unfold SX.construct; exact single_qubit_unitary F _ phi p T2 hp hT2 _

theorem cr_unitary (F : ℝ → ℝ) (theta phi t_cr p_cr T2c T2t : ℝ) (_ht : 0 < t_cr) (_hp : 0 ≤ p_cr)
    (_hc : 0 ≤ T2c) (_htt : 0 ≤ T2t) (w : CR.Samples) :
    CR.construct F theta phi t_cr p_cr 0 T2c 0 T2t w ∈ U4 := by
  obtain ⟨h0, h1, h2⟩ := cr_env_rel F theta phi t_cr p_cr 0 T2c 0 T2t w
  exact cr_gate_unitary _ (cr_env_real F theta phi t_cr p_cr 0 T2c 0 T2t w) h0 h1 h2
    (by simp [CR.envOf, CR.e1_ctr]) (by simp [CR.envOf, CR.e1_trg])

theorem bitflip_unitary (tm rout : ℝ) (w : Bitflip.Samples) : Bitflip.construct tm rout w ∈ U2 := by
  rw [Unitary.mem_iff]
  have key : star (Bitflip.construct tm rout w) * Bitflip.construct tm rout w = 1 := by
    ext a b; fin_cases a <;> fin_cases b <;>
      simp [Bitflip.construct, Bitflip.resultMat, Matrix.mul_apply, Fin.sum_univ_two, Matrix.star_apply,
        ← Complex.cos_conj, ← Complex.sin_conj]
    · have := Complex.cos_sq_add_sin_sq ((Bitflip.e rout tm : ℂ) * (w.W : ℂ))
      linear_combination this - (Complex.sin ((Bitflip.e rout tm : ℂ) * (w.W : ℂ))) ^ 2 * Complex.I_sq
    · ring
    · ring
    · have := Complex.cos_sq_add_sin_sq ((Bitflip.e rout tm : ℂ) * (w.W : ℂ))
      linear_combination this - (Complex.sin ((Bitflip.e rout tm : ℂ) * (w.W : ℂ))) ^ 2 * Complex.I_sq
  exact ⟨key, (mul_eq_one_comm).mp key⟩

theorem depolarizing_unitary (Dt p : ℝ) (_hp : 0 ≤ p) (w : Depolarizing.Samples) :
    Depolarizing.construct Dt p w ∈ U2 := by
  apply exp_unitary_of_skew
  ext a b; fin_cases a <;> fin_cases b <;>
    simp [Depolarizing.noiseArg, Depolarizing.I1Mat, Depolarizing.I2Mat, Depolarizing.I3Mat,
      Depolarizing.XMat, Depolarizing.YMat, Depolarizing.ZMat, Matrix.conjTranspose_apply] <;> ring

theorem relaxation_unitary (Dt T2 : ℝ) (_hT2 : 0 ≤ T2) (w : Relaxation.Samples) (hI : w.I = 0) :
    Relaxation.construct Dt 0 T2 w ∈ U2 := by
  rw [Unitary.mem_iff]
  have key : star (Relaxation.construct Dt 0 T2 w) * Relaxation.construct Dt 0 T2 w = 1 := by
    ext a b; fin_cases a <;> fin_cases b <;>
      simp [Relaxation.construct, Relaxation.resultMat, Relaxation.e1, Matrix.mul_apply, Fin.sum_univ_two,
        Matrix.star_apply, hI, ← Complex.exp_conj, ← Complex.exp_add]
  exact ⟨key, (mul_eq_one_comm).mp key⟩

/-- scalar multiples by a unimodular number stay unitary (the `-1J *` / `1j *` factors of the ECR gates) -/
private theorem smul_unitary {n : Type} [Fintype n] [DecidableEq n] (z : ℂ) (hz : star z * z = 1)
    {A : Matrix n n ℂ} (hA : A ∈ unitary (Matrix n n ℂ)) : z • A ∈ unitary (Matrix n n ℂ) := by
  rw [Unitary.mem_iff] at hA ⊢
  have hz' : z * star z = 1 := by rw [mul_comm]; exact hz
  constructor
  · rw [star_smul, smul_mul_smul_comm, hA.1, hz, one_smul]
  · rw [star_smul, smul_mul_smul_comm, hA.2, hz', one_smul]

/-- the error handed to the CR pulses is never negative: where the derived value is negative the code uses 0 (repair of R2) -/
theorem pcr_clamped_nonneg (p2 pc pt : ℝ) :
    0 ≤ CNOT.p_cr_1 p2 pc pt ∧ 0 ≤ CNOTInv.p_cr_1 p2 pc pt ∧ 0 ≤ ECR.p_cr_1 p2 pc pt ∧ 0 ≤ ECRInv.p_cr_1 p2 pc pt := by
  refine ⟨?_, ?_, ?_, ?_⟩
  · unfold CNOT.p_cr_1; split_ifs with h <;> [exact le_refl 0; exact not_lt.mp h]
  · unfold CNOTInv.p_cr_1; split_ifs with h <;> [exact le_refl 0; exact not_lt.mp h]
  · unfold ECR.p_cr_1; split_ifs with h <;> [exact le_refl 0; exact not_lt.mp h]
  · unfold ECRInv.p_cr_1; split_ifs with h <;> [exact le_refl 0; exact not_lt.mp h]

theorem cnot_unitary (F : ℝ → ℝ) (phi_ctr phi_trg t_cnot p_cnot p_c p_t T2c T2t : ℝ)
    (ht : 0 < CNOT.t_cr t_cnot)
    (hpc : 0 ≤ p_c) (hpt : 0 ≤ p_t) (hc : 0 ≤ T2c) (htt : 0 ≤ T2t)
    (w : CNOT.Samples) (hI : w.relaxation_gate.I = 0) :
    CNOT.construct F phi_ctr phi_trg t_cnot p_cnot p_c p_t 0 T2c 0 T2t w ∈ U4 := by
  have hcr := (pcr_clamped_nonneg p_cnot p_c p_t).1
  unfold CNOT.construct
  refine mul_mem (mul_mem (mul_mem (cr_unitary F _ _ _ _ _ _ ht hcr hc htt _) (kron2_mem_unitary ?_ ?_))
    (cr_unitary F _ _ _ _ _ _ ht hcr hc htt _)) (kron2_mem_unitary ?_ ?_)
  · exact x_unitary F _ _ _ hpc hc _
  · exact relaxation_unitary _ _ htt _ hI
  · exact single_qubit_unitary F _ _ _ _ hpc hc _
  · exact sx_unitary F _ _ _ hpt htt _


/-- one step of "a product / Kronecker product / unimodular multiple of unitary constituents is unitary";
the product tree itself comes from the generated definition, so the proof follows whatever the source says -/
macro "unitary_step" : tactic => `(tactic| first
  | (with_reducible apply mul_mem)
  | (with_reducible apply kron2_mem_unitary)
  | (with_reducible apply smul_unitary _ (by simp))
  | (with_reducible apply cr_unitary <;> assumption)
  | (with_reducible apply x_unitary <;> assumption)
  | (with_reducible apply sx_unitary <;> assumption)
  | (with_reducible apply single_qubit_unitary <;> assumption)
  | (with_reducible apply relaxation_unitary <;> assumption))

theorem cnot_inv_unitary (F : ℝ → ℝ) (phi_ctr phi_trg t_cnot p_cnot p_c p_t T2c T2t : ℝ)
    (ht : 0 < CNOTInv.t_cr t_cnot)
    (hpc : 0 ≤ p_c) (hpt : 0 ≤ p_t) (hc : 0 ≤ T2c) (htt : 0 ≤ T2t)
    (w : CNOTInv.Samples) (hI : w.relaxation_gate.I = 0) :
    CNOTInv.construct F phi_ctr phi_trg t_cnot p_cnot p_c p_t 0 T2c 0 T2t w ∈ U4 := by
  have hcr := (pcr_clamped_nonneg p_cnot p_c p_t).2.1
  unfold CNOTInv.construct
  repeat' unitary_step

theorem ecr_unitary (F : ℝ → ℝ) (phi_ctr phi_trg t_ecr p_ecr p_c p_t T2c T2t : ℝ)
    (ht : 0 < ECR.t_cr t_ecr)
    (hpc : 0 ≤ p_c) (hpt : 0 ≤ p_t) (hc : 0 ≤ T2c) (htt : 0 ≤ T2t)
    (w : ECR.Samples) (hI : w.relaxation_gate.I = 0) :
    ECR.construct F phi_ctr phi_trg t_ecr p_ecr p_c p_t 0 T2c 0 T2t w ∈ U4 := by
  have hcr := (pcr_clamped_nonneg p_ecr p_c p_t).2.2.1
  unfold ECR.construct
  repeat' unitary_step

theorem ecr_inv_unitary (F : ℝ → ℝ) (phi_ctr phi_trg t_ecr p_ecr p_c p_t T2c T2t : ℝ)
    (ht : 0 < ECRInv.t_cr t_ecr)
    (hpc : 0 ≤ p_c) (hpt : 0 ≤ p_t) (hc : 0 ≤ T2c) (htt : 0 ≤ T2t)
    (w : ECRInv.Samples) (hI : w.relaxation_gate.I = 0) :
    ECRInv.construct F phi_ctr phi_trg t_ecr p_ecr p_c p_t 0 T2c 0 T2t w ∈ U4 := by
  have hcr := (pcr_clamped_nonneg p_ecr p_c p_t).2.2.2
  unfold ECRInv.construct
  repeat' unitary_step

end QG.C07
