import QG.Gen.Determinism
import QG.Lemmas.IntegratorCache

/-!
# C10 — fixed numpy seed reproduces results; sampling has no hidden history

`QG.Gen.Determinism` is **regenerated from the source text** of integrator.py / factories.py / gates.py / simulator.py on
every run (`harness/gen/determinism.py`): `config` (the cache key tuple of `Integrator.integrate`, the parameters it
converts with `float(...)` first, the known integrand names), `cacheInstanceLevel`, `stateWriters`, `initTable`,
`ownDraws` / `constituentCalls`, `shotArgs`, `otherEntropySources`.  `QG.Model.IntegratorCache` is the hand-written
executable model of the cache, of several integrators in one process, of gate-sampling programs and of the sequential
shot loop; it is tied to the real code by the differential correspondence of `harness/props/c10.py`.

`compute` (what the two integration routines return for a request, for one pulse) is an **arbitrary function** throughout;
`Rng` (numpy's global generator) is an arbitrary pair of deterministic functions of the generator state.

What "identical" means.  Numbers are float64 bit patterns, so `=` is bitwise identity.  Python's key equality identifies
exactly the two zeros `0.0` / `-0.0` beyond identity (`collision_classes`; the numeric *type* no longer matters once the
arguments are coerced, `numeric_type_irrelevant`).  Hence two forms of every statement:
* `…_exact`: **no assumption on `compute`**; requests must not carry `theta = -0.0`; answers are bitwise those of a cold cache;
* the `Rel` form: all requests; `compute` is assumed to map requests that agree up to the sign of a zero to `Rel`-related
  values (on the real code: numerically equal, `==`; the harness measures it: the lookup branch returns identical floats,
  the numerical branch returns `-0.0` instead of `0.0` for the three odd integrands, and the sampled gate matrices are
  bit-identical either way).
-/
namespace QG.C10
open QG.Model.IntegratorCache QG.IntegratorCache QG.Gen.Determinism

variable {V G M S : Type}

/-! ## the regenerated key -/

/-- every parameter of `integrate` is part of the cache key tuple and the numeric ones are converted with `float` before
the lookup.  Fails to check when a parameter is dropped from the key (`a`, `theta`) or when the coercion is missing (D22). -/
theorem key_covers_request : config.covers = true := by decide

/-- **`key_determines_value`**: two requests whose key tuples are equal for Python's dictionary are the same request for the
integration routines — same integrand, same numeric types, same numbers up to the sign of a zero. -/
theorem key_determines_value (r r' : Req)
    (h : Key.pyEq (keyOf config.keyFields (r.seen config.coerced)) (keyOf config.keyFields (r'.seen config.coerced)) = true) :
    Same (r.seen config.coerced) (r'.seen config.coerced) :=
  same_of_key key_covers_request h

/-- … and they pass or fail the input validation together (a cache hit never hides an `AssertionError`) -/
theorem key_determines_validation (r r' : Req)
    (h : Key.pyEq (keyOf config.keyFields (r.seen config.coerced)) (keyOf config.keyFields (r'.seen config.coerced)) = true) :
    valid config (r.seen config.coerced) = valid config (r'.seen config.coerced) := by
  have h1 := key_determines_value r r' h
  have h2 := h1.symm
  cases hv : valid config (r.seen config.coerced) <;> cases hv' : valid config (r'.seen config.coerced) <;> try rfl
  · exact absurd (valid_of_same h2 hv') (by simp [hv])
  · exact absurd (valid_of_same h1 hv) (by simp [hv'])

/-- the only non-identical float64 values Python's `==` (hence the dictionary) identifies are `0.0` and `-0.0`;
a NaN object is only found under itself -/
theorem collision_classes (x y : Num) :
    x.pyEq y = true ↔ x = y ∨ ((x = .val 0 ∨ x = .val negZeroBits) ∧ (y = .val 0 ∨ y = .val negZeroBits)) :=
  Num.pyEq_iff x y

/-- the numeric type a caller passes (`True`, `1`, `1.0`, `np.float32(1)`, …) changes neither the answer nor the cache:
only the float64 value reaches the key and the integration routines.  Fails to check without the coercion (D22). -/
theorem numeric_type_irrelevant (compute : Req → V) (c : Cache V) (r r' : Req)
    (hi : r.integrand = r'.integrand) (ht : r.theta.val = r'.theta.val) (ha : r.a.val = r'.a.val) :
    integrate config compute c r = integrate config compute c r' := by
  have : r.seen config.coerced = r'.seen config.coerced := by
    simp [Req.seen, config, Arg.coerce, hi, ht, ha]
  simp only [integrate, this]

/-! ## one integrator: every history of requests -/

/-- **`cache_transparent`**.  For every history of requests on an integrator and every further request, the answer (value or
`AssertionError`) is the answer of a fresh integrator, up to `Rel`; the only assumption is that `compute` does not
distinguish requests that agree up to the sign of a zero by more than `Rel`. -/
theorem cache_transparent (compute : Req → V) (Rel : V → V → Prop)
    (hcompute : ∀ r r', valid config r = true → Same r r' → Rel (compute r) (compute r'))
    (history : List Req) (r : Req) :
    RelE Rel (integrate config compute (runReqs config compute [] history).1 r).1 (cold config compute r) := by
  have hc : ∀ r r', True → True → valid config r = true → Same r r' → Rel (compute r) (compute r') :=
    fun r r' _ _ => hcompute r r'
  have h := runReqs_sound (P := fun _ => True) key_covers_request hc history [] Sound.nil (fun _ _ => trivial)
  exact (integrate_sound key_covers_request hc h.1 r trivial).1

/-- every answer *during* the history as well -/
theorem cache_transparent_history (compute : Req → V) (Rel : V → V → Prop)
    (hcompute : ∀ r r', valid config r = true → Same r r' → Rel (compute r) (compute r'))
    (history : List Req) :
    ∀ p ∈ history.zip (runReqs config compute [] history).2, RelE Rel p.2 (cold config compute p.1) := by
  have hc : ∀ r r', True → True → valid config r = true → Same r r' → Rel (compute r) (compute r') :=
    fun r r' _ _ => hcompute r r'
  exact (runReqs_sound (P := fun _ => True) key_covers_request hc history [] Sound.nil (fun _ _ => trivial)).2.2

/-- **`cache_transparent_exact`**: no assumption on `compute`.  If neither the history nor the request carries
`theta = -0.0`, the answer is *identical* to the answer of a fresh integrator. -/
theorem cache_transparent_exact (compute : Req → V) (history : List Req) (r : Req)
    (hh : ∀ r' ∈ history, NoNegZero (r'.seen config.coerced)) (hr : NoNegZero (r.seen config.coerced)) :
    (integrate config compute (runReqs config compute [] history).1 r).1 = cold config compute r := by
  have hc : ∀ r r', NoNegZero r → NoNegZero r' → valid config r = true → Same r r' → compute r = compute r' :=
    fun r r' h h' hv hs => by rw [same_eq hs h h' hv]
  have h := runReqs_sound key_covers_request hc history [] Sound.nil hh
  exact (integrate_exact key_covers_request h.1 r hr).1

/-! ## several integrators, gate sets and pulses alive in one process -/

/-- `_cache` is created per instance … -/
theorem cache_is_instance_level : cacheInstanceLevel = true := by decide

/-- … and nothing but `__init__` (creation) and `integrate` (one item store) writes it; the attributes the integration
routines read besides their parameters (`pulse_parametrization`, `use_lookup`, the two lookup tables) are written by
`__init__` / the class body only, anywhere in the package -/
theorem state_written_only_by_init_and_integrate : stateWriters = expectedStateWriters := by decide

/-- **`cache_scoped_per_pulse`** (exact form).  For every history of events — integrators created for arbitrary pulses, deep
copies, requests on any of them — a request sent to object `i` is answered exactly like a fresh integrator built from the
pulse of object `i`: two integrators never share a cache cell.  No assumption on `compute`. -/
theorem cache_scoped_per_pulse (compute : Nat → Req → V) (es : List Event)
    (hes : ∀ e ∈ es, ∀ i r, e = .req i r → NoNegZero (r.seen config.coerced))
    (k i : Nat) (r : Req) (p : Nat) (hk : es[k]? = some (.req i r)) (hp : (pulsesOf [] (es.take k))[i]? = some p) :
    ∃ hit, (run config cacheInstanceLevel compute World.init es).2[k]? = some (.result hit (cold config (compute p) r)) := by
  have hc : ∀ p r r', NoNegZero r → NoNegZero r' → valid config r = true → Same r r' → compute p r = compute p r' :=
    fun p r r' h h' hv hs => by rw [same_eq hs h h' hv]
  obtain ⟨hit, res, h1, h2⟩ := run_sound key_covers_request hc es World.init WInv.init hes k i r p hk
    (by simpa [World.init] using hp)
  rw [cache_is_instance_level]
  exact ⟨hit, by rw [h1, RelE_eq.1 h2]⟩

/-- the same for all requests, up to `Rel` (assumption on `compute` as in `cache_transparent`, per pulse) -/
theorem cache_scoped_per_pulse_rel (compute : Nat → Req → V) (Rel : V → V → Prop)
    (hcompute : ∀ p r r', valid config r = true → Same r r' → Rel (compute p r) (compute p r'))
    (es : List Event) (k i : Nat) (r : Req) (p : Nat)
    (hk : es[k]? = some (.req i r)) (hp : (pulsesOf [] (es.take k))[i]? = some p) :
    ∃ hit res, (run config cacheInstanceLevel compute World.init es).2[k]? = some (.result hit res) ∧
      RelE Rel res (cold config (compute p) r) := by
  have hc : ∀ p r r', True → True → valid config r = true → Same r r' → Rel (compute p r) (compute p r') :=
    fun p r r' _ _ => hcompute p r r'
  rw [cache_is_instance_level]
  exact run_sound (P := fun _ => True) key_covers_request hc es World.init WInv.init (fun _ _ _ _ _ => trivial) k i r p hk
    (by simpa [World.init] using hp)

/-- a `Gates` object creates exactly one `Integrator` and hands that one to every factory (and they to their
sub-factories) that uses an integrator; the noise-only factories hold no state at all; `ScaledNoiseGates` wraps one `Gates`
of its own; `NoiseFreeGates` has no attributes.  So all factories inside one gate set share one integrator — one pulse, one
cache, covered by `cache_transparent` — and distinct gate sets share nothing (`cache_scoped_per_pulse`). -/
theorem gate_set_owns_one_integrator :
    ownsOneIntegrator initTable "Gates" = true ∧ wrapsOneGateSet initTable "ScaledNoiseGates" = true ∧
      initTable.attrs "NoiseFreeGates" = some [] := by decide

/-! ## sampling a gate -/

/-- no entropy source or memoising decorator in the files a sequential shot runs through, other than the
`np.random.normal` / `np.random.multivariate_normal` sites that the symbolic execution of the factories accounts for -/
theorem no_other_entropy_source : otherEntropySources = [] := by decide

/-- the flattened draw script of every factory (its own draws, or its constituents' scripts in call order) has the length
the generator computed independently; the harness compares the script itself with the draws the real code performs -/
theorem draw_scripts_flatten :
    ∀ p ∈ scriptLengths, (flattenScript ownDraws constituentCalls 4 p.1).length = p.2 := by decide

/-- **`sample_deterministic`**.  A gate sample is a program whose only effects are integrator requests and draws from the
global generator (extracted per factory; the translator fails closed on anything else).  For every such program, every
history of requests the gate set's integrator has served and every generator state `g`: the sampled matrix (or the
`AssertionError`) and the generator state afterwards are exactly those obtained with a cold cache — they depend on the
program (gate and arguments), `compute` (the pulse) and `g` only.  No assumption on `compute` or the generator. -/
theorem sample_deterministic (compute : Req → V) (rng : Rng G V) (p : Prog V M) (g : G) (history : List Req)
    (hh : ∀ r ∈ history, NoNegZero (r.seen config.coerced))
    (hp : ∀ r ∈ p.reqs config compute rng g [], NoNegZero (r.seen config.coerced)) :
    (p.run config compute rng g (runReqs config compute [] history).1).1 = (p.run config compute rng g []).1 ∧
    (p.run config compute rng g (runReqs config compute [] history).1).2.1 = (p.run config compute rng g []).2.1 := by
  have hc : ∀ r r', NoNegZero r → NoNegZero r' → valid config r = true → Same r r' → compute r = compute r' :=
    fun r r' h h' hv hs => by rw [same_eq hs h h' hv]
  have h := runReqs_sound key_covers_request hc history [] Sound.nil hh
  have := prog_run_eq key_covers_request (rng := rng) p g _ [] h.1 Sound.nil hp
  exact ⟨this.1, this.2.1⟩

/-! ## the sequential simulator run -/

/-- every entry of a shot's argument dict is a deep copy of the caller's object or a fresh object built from deep copies and
immutable integers (in particular the gate set, hence its integrator cache, is copied per shot) -/
theorem shot_arguments_isolated : shotArgsIsolated shotArgs = true := by decide

/-- **`run_seq_deterministic`**.  A sequential run of `n` shots from generator state `g`: the list of shot results (or the
exception) and the final generator state do not depend on what the gate set's integrator has cached before (any history),
and the caller's objects — circuit data, device parameters, `psi0`, layout (`s`) and the gate set's cache — are exactly as
before the run, whatever the shots do to the copies they receive. -/
theorem run_seq_deterministic (compute : Req → V) (rng : Rng G V) (shot : S → Prog V (M × S)) (s : S)
    (hshot : ∀ g c, ∀ r ∈ (shot s).reqs config compute rng g c, NoNegZero (r.seen config.coerced))
    (n : Nat) (g : G) (history : List Req) (hh : ∀ r ∈ history, NoNegZero (r.seen config.coerced)) :
    let warm := (runReqs config compute [] history).1
    let a := runShots config compute rng (shotArgsIsolated shotArgs) shot n s g warm
    let b := runShots config compute rng (shotArgsIsolated shotArgs) shot n s g []
    a.1 = b.1 ∧ a.2.2.1 = b.2.2.1 ∧ a.2.1 = s ∧ a.2.2.2 = warm := by
  have hc : ∀ r r', NoNegZero r → NoNegZero r' → valid config r = true → Same r r' → compute r = compute r' :=
    fun r r' h h' hv hs => by rw [same_eq hs h h' hv]
  have h := runReqs_sound key_covers_request hc history [] Sound.nil hh
  have := runShots_copied key_covers_request (rng := rng) shot s hshot n g _ [] h.1 Sound.nil
  rw [shot_arguments_isolated]
  exact ⟨this.1, this.2.2.1, this.2.1, this.2.2.2⟩

/-- **repeated runs on one simulator object**: running again from the same generator state (same seed), on the objects the
first run left behind, returns the same results -/
theorem run_seq_repeatable (compute : Req → V) (rng : Rng G V) (shot : S → Prog V (M × S)) (s : S)
    (hshot : ∀ g c, ∀ r ∈ (shot s).reqs config compute rng g c, NoNegZero (r.seen config.coerced))
    (n : Nat) (g : G) (history : List Req) (hh : ∀ r ∈ history, NoNegZero (r.seen config.coerced)) :
    let warm := (runReqs config compute [] history).1
    let first := runShots config compute rng (shotArgsIsolated shotArgs) shot n s g warm
    let second := runShots config compute rng (shotArgsIsolated shotArgs) shot n first.2.1 g first.2.2.2
    second.1 = first.1 := by
  have h := run_seq_deterministic compute rng shot s hshot n g history hh
  simp only at h ⊢
  rw [h.2.2.1, h.2.2.2]

/-! ## non-vacuity: concrete objects meet the hypotheses, and the model tells the mutants apart -/
section examples

deriving instance DecidableEq for Except

def f64 (b : Nat) : Arg := ⟨.f64, .val b⟩
/-- bit patterns: 1.0, 2.0, pi/4 -/
def one : Nat := 4607182418800017408
def two : Nat := 4611686018427387904
def quarterPi : Nat := 4605249457297304856
def rq (th a : Nat) : Req := ⟨"sin(theta/a)", f64 th, f64 a⟩
/-- a `compute` that depends on everything it is given -/
def cmp (r : Req) : Nat := match r.theta.val, r.a.val with | .val t, .val a => t + 3 * a + r.integrand.length | _, _ => 0
def rng0 : Rng Nat Nat := ⟨fun g m s => (g + m + s, g + 1), fun g m _ => (m.map (· + g), g + 1)⟩

/-- hypotheses of the exact theorems: a history with equal angle / different duration and equal duration / different angle -/
example : ∀ r' ∈ [rq quarterPi one, rq quarterPi two, rq one two], NoNegZero (r'.seen config.coerced) := by
  intro r' h; simp only [List.mem_cons, List.not_mem_nil, or_false] at h
  rcases h with rfl | rfl | rfl <;> simp [NoNegZero, Req.seen, rq, f64, Arg.coerce, negZeroBits] <;> decide

/-- on that history the model really hits and misses: the third request of `[x, y, x]` is a hit … -/
example : (run config true (fun _ => cmp) World.init
    [.new 0, .req 0 (rq quarterPi one), .req 0 (rq quarterPi two), .req 0 (rq quarterPi one)]).2.map
      (fun o => match o with | .result hit _ => hit | _ => false) = [false, false, false, true] := by decide

/-- … `1 == 1.0 == True` and `0.0 == -0.0` share a cell, an invalid duration raises -/
example : ((runReqs config cmp [] [⟨"sin(theta/a)", ⟨.int, .val one⟩, f64 one⟩, ⟨"sin(theta/a)", ⟨.bool, .val one⟩, f64 one⟩,
    rq 0 one, rq negZeroBits one, rq one 0, ⟨"tan(theta)", f64 one, f64 one⟩]).1.length,
    (runReqs config cmp [] [rq one 0, ⟨"tan(theta)", f64 one, f64 one⟩]).2) = (2, [.error .assertion, .error .assertion]) := by
  decide

/-- `hcompute` of `cache_transparent` is met by a `compute` that ignores the sign of zero (here: a constant) -/
example : ∀ r r', valid config r = true → Same r r' → (fun _ : Req => (0 : Nat)) r = (fun _ : Req => (0 : Nat)) r' :=
  fun _ _ _ _ => rfl

/-- a sampling program: two requests, a normal draw, a 2-dimensional multivariate draw -/
def sampleProg : Prog Nat Nat :=
  .integ (rq quarterPi two) fun v => .normal 0 v fun w => .integ (rq quarterPi one) fun v' => .mvn [0, 0] [[v, v'], [v', v]] fun l =>
    .ret (w + l.foldl (· + ·) 0)

example : ∀ r ∈ sampleProg.reqs config cmp rng0 5 [], NoNegZero (r.seen config.coerced) := by decide
example : (sampleProg.run config cmp rng0 5 (runReqs config cmp [] [rq quarterPi one, rq one one]).1).1
    = (sampleProg.run config cmp rng0 5 []).1 := by decide

/-- MUTANT `a` dropped from the key: the coverage condition is false and a request with another duration is answered with
the stale value -/
example : (⟨[.integrand, .theta], [.theta, .a], config.known⟩ : Config).covers = false ∧
    (integrate ⟨[.integrand, .theta], [.theta, .a], config.known⟩ cmp
      (runReqs ⟨[.integrand, .theta], [.theta, .a], config.known⟩ cmp [] [rq quarterPi one]).1 (rq quarterPi two)).1
      ≠ cold config cmp (rq quarterPi two) := by decide

/-- MUTANT missing coercion (the tree before D22): `True` and `1.0` share a cell but `compute` may see the type -/
example : (⟨[.integrand, .theta, .a], [], config.known⟩ : Config).covers = false ∧
    (integrate ⟨[.integrand, .theta, .a], [], config.known⟩ (fun r => if r.theta.ty = .bool then 16 else 64)
      (runReqs ⟨[.integrand, .theta, .a], [], config.known⟩ (fun r => if r.theta.ty = .bool then 16 else 64) []
        [⟨"sin(theta/a)", ⟨.bool, .val one⟩, f64 one⟩]).1 (rq one one)).1 = .ok 16 := by decide

/-- MUTANT class-level `_cache`: two integrators with different pulses share the cell, the second one is answered with the
first one's integral -/
example : (run config false (fun p r => 1000 * p + cmp r) World.init
    [.new 1, .new 2, .req 0 (rq one one), .req 1 (rq one one)]).2.map
      (fun o => match o with | .result hit (.ok v) => (hit, v) | _ => (false, 0))
    = [(false, 0), (false, 0), (false, 1000 + cmp (rq one one)), (true, 1000 + cmp (rq one one))] := by decide

/-- MUTANT a shot argument that is not copied and is modified by the shot: the second shot starts from what the first one
left, and the caller's object is changed after the run -/
example : (runShots config cmp rng0 false (fun s : Nat => .ret (s, s + 1)) 2 7 0 []).1 = .ok [7, 8] ∧
    (runShots config cmp rng0 false (fun s : Nat => (.ret (s, s + 1) : Prog Nat (Nat × Nat))) 2 7 0 []).2.1 = 9 ∧
    (runShots config cmp rng0 true (fun s : Nat => (.ret (s, s + 1) : Prog Nat (Nat × Nat))) 2 7 0 []).1 = .ok [7, 7] := by
  decide

end examples

end QG.C10
