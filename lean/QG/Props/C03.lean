import Mathlib.Tactic
import Mathlib.Analysis.SpecialFunctions.Trigonometric.Basic
import QG.Spec.Register
import QG.Spec.Kron2
import QG.Lemmas.Frames
import QG.Lemmas.FrameInvariant
import QG.Lemmas.LayerSim
import QG.Lemmas.GridSim
import QG.Lemmas.LayerBridge
import QG.Lemmas.GridBridge
import QG.Props.C01

/-!
# C03 — with noise switched off the simulator reproduces the ideal circuit

Ingredients, each tied to the code on every run:
* (F) `QG/Gen/Frames.lean` — the six noise-free gates the circuit classes call, regenerated from `gates.py`
  (product trees with their phase arguments, rendered in frame variables and validated numerically), with
  step-wise closed forms checked by `grind`; `QG/Lemmas/Frames.lean` proves the six **frame identities for all
  phases** (e.g. `CX·(Rz φc ⊗ Rz φt) = e^{5iπ/4}·(Rz(φc−π/2) ⊗ Rz φt)·CNOT(φc, φt)`).
* (W) `QG/Model/Wiring.lean` — the circuit classes as state machines (phases, gate-set calls, registered items),
  tied by the correspondence of C08.
* (I) `QG/Lemmas/FrameInvariant.lean` — the virtual-Z frame invariant, proved against the abstract gate algebra of C02
  for any phase group: `ideal-so-far = frame(phi) · simulated-so-far`.
* (B) C02's `binary_spec`: the index-based backend applies exactly the product of the registered items.

Here they are instantiated at the real numbers / complex matrices (`frameSys`) and composed:
`noise_free_run_spec_binary` — for the index-based circuit class, **every** register size, **every** well-formed
sequence of native operations (any real rz angles interleaved with pulses, both directions of cx and ecr, arbitrary
pairs of distinct qubits, delays and read-out as identities) and every initial state, the simulated amplitudes have
the moduli of the ideal circuit's amplitudes at every basis state.  Marginalisation to the measured qubits and the
key order are C14 (`values_marginal`, `keys_exact`), the Qiskit ordering after `fix_counts` is C16, the calls the
simulator issues for a circuit are C08.

`noise_free_run_spec_layered` / `noise_free_pipeline_layered` — the same for the layered classes
`Standard/Efficient/OneCircuit`: the calls the simulator's layered branch issues are in row order
(`rowOrdered_callsLayered`), a row-ordered call list drives the layered machine and the index-based machine to related
states (`QG.Lemmas.LayerSim.run_sim`: same phases, and the layers read with a qubit offset — the `layersItems` of C01 —
are the registered item list), so the frame invariant transfers.  That every layer-based backend applies exactly the
product of those items is C01 (`standard_spec`, `efficient_spec`, `ones_spec`, `binary_layer_spec`), and the two are joined
formally: `QG.Lemmas.LayerBridge.layers_bridge` (the shape invariant `Segs` carried by the simulation relation is C01's
well-formedness, and C01's `layersItems` of the object's layers is C03's `allItems`) gives `layers_admissible`,
`noise_free_layers_spec` and, per backend, `noise_free_standard_backend` / `noise_free_efficient_backend` /
`noise_free_ones_backend`: what the backend returns on the layers of a noise-free run has the ideal moduli.

`noise_free_run_spec_grid` / `noise_free_pipeline_grid` — the same for the legacy fixed-depth `Circuit` class (a grid of
columns, a new column opened lazily; `QG.Lemmas.GridSim`), for whatever depth the run is given, provided the run returns
normally (a grid that is too shallow raises `IndexError`, in the model as in the code).  That `Circuit.statevector` multiplies
the `kron` of the columns is read off its three lines and exercised by the end-to-end Qiskit oracle; it is not one of the
backends of C01.  "Ideal circuit" means the standard matrices of
`QG/Lemmas/Frames.lean` (`stdX, stdSX, stdCX, stdECR`, `rz θ = diag(e^{-iθ/2}, e^{iθ/2})`), which the check compares with
Qiskit's on every run.
-/
namespace QG.C03
open QG.Spec QG.Spec.Register QG.Gen.Frames QG.Lemmas.Frames QG.Lemmas.Frame Matrix Complex

/-- `Fin 2 ≃ Bool`, `0 ↦ false` -/
def f2b : Fin 2 ≃ Bool := finTwoEquiv
/-- `Fin 4 ≃ Bool × Bool`, big-endian: `2*i₁ + i₂ ↦ (i₁, i₂)` -/
def f4b : Fin 4 ≃ Bool × Bool where
  toFun := fun i => (decide (2 ≤ i.val), decide (i.val % 2 = 1))
  invFun := fun p => match p with
    | (false, false) => 0 | (false, true) => 1 | (true, false) => 2 | (true, true) => 3
  left_inv := by decide
  right_inv := by decide

def b2 (A : Matrix (Fin 2) (Fin 2) ℂ) : M2 ℂ := Matrix.reindex f2b f2b A
def b4 (A : Matrix (Fin 4) (Fin 4) ℂ) : M4 ℂ := Matrix.reindex f4b f4b A

theorem b2_mul (A B : Matrix (Fin 2) (Fin 2) ℂ) : b2 (A * B) = b2 A * b2 B := by
  unfold b2; rw [Matrix.reindex_apply, Matrix.reindex_apply, Matrix.reindex_apply, Matrix.submatrix_mul_equiv]
theorem b4_mul (A B : Matrix (Fin 4) (Fin 4) ℂ) : b4 (A * B) = b4 A * b4 B := by
  unfold b4; rw [Matrix.reindex_apply, Matrix.reindex_apply, Matrix.reindex_apply, Matrix.submatrix_mul_equiv]
theorem b2_smul (c : ℂ) (A : Matrix (Fin 2) (Fin 2) ℂ) : b2 (c • A) = c • b2 A := by
  unfold b2; ext i j; simp
theorem b4_smul (c : ℂ) (A : Matrix (Fin 4) (Fin 4) ℂ) : b4 (c • A) = c • b4 A := by
  unfold b4; ext i j; simp
theorem b2_one : b2 1 = 1 := by unfold b2; simp

/-- `np.kron` of the two diagonal frame matrices is the Kronecker product the gate algebra uses -/
theorem b4_rz2 (u ub v vb : ℂ) :
    b4 (rz2 u ub v vb) = Matrix.kroneckerMap (· * ·) (b2 (rz u ub)) (b2 (rz v vb)) := by
  ext ⟨a, b⟩ ⟨c, d⟩
  cases a <;> cases b <;> cases c <;> cases d <;>
    simp [b4, b2, rz2, rz, f4b, f2b, Matrix.kroneckerMap_apply, finTwoEquiv]

/-! ## actual values of the frame variables -/
noncomputable def U (φ : ℝ) : ℂ := exp (I * φ / 2)
noncomputable def Z : ℂ := exp (I * Real.pi / 8)
noncomputable def Zb : ℂ := exp (-(I * Real.pi / 8))

theorem U_add (a b : ℝ) : U (a + b) = U a * U b := by
  unfold U; rw [← Complex.exp_add]; congr 1; push_cast; ring
theorem U_zero : U 0 = 1 := by simp [U]
theorem U_neg (a : ℝ) : U a * U (-a) = 1 := by rw [← U_add]; simp [U_zero]
theorem Z_Zb : Z * Zb = 1 := by unfold Z Zb; rw [← Complex.exp_add]; simp
theorem Z_pow8 : Z ^ 8 = -1 := by
  unfold Z; rw [← Complex.exp_nat_mul]
  have : ((8 : ℕ) : ℂ) * (I * Real.pi / 8) = Real.pi * I := by push_cast; ring
  rw [this, Complex.exp_pi_mul_I]
theorem U_halfPi : U (Real.pi / 2) = Z ^ 2 := by
  unfold U Z; rw [← Complex.exp_nat_mul]; congr 1; push_cast; ring
theorem U_neg_halfPi : U (-(Real.pi / 2)) = Zb ^ 2 := by
  unfold U Zb; rw [← Complex.exp_nat_mul]; congr 1; push_cast; ring

noncomputable def env (a b : ℝ) : Env ℂ := ⟨U a, U (-a), U b, U (-b), Z, Zb⟩

@[simp] theorem env_u (a b : ℝ) : (env a b).u = U a := rfl
@[simp] theorem env_ub (a b : ℝ) : (env a b).ub = U (-a) := rfl
@[simp] theorem env_v (a b : ℝ) : (env a b).v = U b := rfl
@[simp] theorem env_vb (a b : ℝ) : (env a b).vb = U (-b) := rfl
@[simp] theorem env_z (a b : ℝ) : (env a b).z = Z := rfl
@[simp] theorem env_zb (a b : ℝ) : (env a b).zb = Zb := rfl

theorem env_rel (a b : ℝ) : (env a b).Rel := ⟨U_neg a, U_neg b, Z_Zb, Z_pow8⟩
theorem negEnv_env (a b : ℝ) : negEnv (env a b) = env (-a) (-b) := by simp [negEnv, env]

noncomputable def rzB (φ : ℝ) : M2 ℂ := b2 (rz (U φ) (U (-φ)))

theorem rzB_zero : rzB 0 = 1 := by
  unfold rzB; rw [neg_zero, U_zero]
  have : (rz (1 : ℂ) 1) = 1 := by ext i j; fin_cases i <;> fin_cases j <;> simp [rz]
  rw [this, b2_one]

theorem rzB_add (a b : ℝ) : rzB a * rzB b = rzB (a + b) := by
  unfold rzB; rw [← b2_mul]; congr 1
  rw [neg_add, U_add, U_add]
  ext i j; fin_cases i <;> fin_cases j <;> simp [rz]

theorem kron_rzB (a b : ℝ) :
    Matrix.kroneckerMap (· * ·) (rzB a) (rzB b) = b4 (rz2 (U a) (U (-a)) (U b) (U (-b))) := (b4_rz2 _ _ _ _).symm

theorem Zb_pow_mul_Z_pow (k : ℕ) : Zb ^ k * Z ^ k = 1 := by rw [← mul_pow, mul_comm, Z_Zb, one_pow]

/-- the frame system of the regenerated noise-free gate set -/
noncomputable def frameSys : FrameSys (matOps ℂ) ℝ where
  rz := rzB
  rz_zero := rzB_zero
  rz_add := rzB_add
  halfPi := Real.pi / 2
  iX := b2 (Zb ^ 4 • stdX)
  iSX := b2 (Zb ^ 2 • stdSX Z)
  iCX := b4 (Zb ^ 10 • stdCX)
  iCXr := b4 (Zb ^ 14 • stdCXr)
  iECR := b4 (stdECR Z Zb)
  iECRr := b4 (stdECRr Z Zb)
  sX φ := b2 (X (env φ 0))
  sSX φ := b2 (SX (env φ 0))
  sCNOT a b := b4 (CNOT (env a b))
  sCNOTinv c t := b4 (CNOT_inv (env c t))
  sECR a b := b4 (ECR (env a b))
  sECRinv a b := b4 (ECR_inv (env a b))
  fX φ := by
    show b2 _ * rzB φ = rzB φ * b2 _
    have h := frame_X (env φ 0) (env_rel φ 0)
    simp only [negEnv_env, neg_zero, env_u, env_ub, env_z] at h
    unfold rzB
    rw [← b2_mul, ← b2_mul, Matrix.smul_mul, h, smul_smul, Zb_pow_mul_Z_pow, one_smul]
  fSX φ := by
    show b2 _ * rzB φ = rzB φ * b2 _
    have h := frame_SX (env φ 0) (env_rel φ 0)
    simp only [negEnv_env, neg_zero, env_u, env_ub, env_z] at h
    unfold rzB
    rw [← b2_mul, ← b2_mul, Matrix.smul_mul, h, smul_smul, Zb_pow_mul_Z_pow, one_smul]
  fCNOT a b := by
    show b4 _ * Matrix.kroneckerMap (· * ·) (rzB a) (rzB b) = Matrix.kroneckerMap (· * ·) (rzB (a + -(Real.pi / 2))) (rzB b) * b4 _
    rw [kron_rzB, kron_rzB, ← b4_mul, ← b4_mul, Matrix.smul_mul]
    have h := frame_CNOT (env a b) (env_rel a b)
    simp only [env_u, env_ub, env_v, env_vb, env_z, env_zb] at h
    rw [h, smul_smul, Zb_pow_mul_Z_pow, one_smul, neg_add, neg_neg, U_add, U_add, U_neg_halfPi, U_halfPi]
  fCNOTinv c t := by
    show b4 _ * Matrix.kroneckerMap (· * ·) (rzB t) (rzB c)
      = Matrix.kroneckerMap (· * ·) (rzB (t + Real.pi / 2)) (rzB (c + Real.pi / 2 + (Real.pi / 2 + Real.pi / 2))) * b4 _
    rw [kron_rzB, kron_rzB, ← b4_mul, ← b4_mul, Matrix.smul_mul]
    have h := frame_CNOT_inv (env c t) (env_rel c t)
    simp only [env_u, env_ub, env_v, env_vb, env_z, env_zb] at h
    rw [h, smul_smul, Zb_pow_mul_Z_pow, one_smul]
    congr 2
    simp only [neg_add, U_add, U_halfPi, U_neg_halfPi]
    congr 1 <;> ring
  fECR a b := by
    show b4 _ * Matrix.kroneckerMap (· * ·) (rzB a) (rzB b) = Matrix.kroneckerMap (· * ·) (rzB a) (rzB b) * b4 _
    rw [kron_rzB, ← b4_mul, ← b4_mul]
    have h := frame_ECR (env a b) (env_rel a b)
    simp only [env_u, env_ub, env_v, env_vb, env_z, env_zb] at h
    rw [h]
  fECRinv a b := by
    show b4 _ * Matrix.kroneckerMap (· * ·) (rzB a) (rzB b) = Matrix.kroneckerMap (· * ·) (rzB a) (rzB b) * b4 _
    rw [kron_rzB, ← b4_mul, ← b4_mul]
    have h := frame_ECR_inv (env a b) (env_rel a b)
    simp only [env_u, env_ub, env_v, env_vb, env_z, env_zb] at h
    rw [h]

/-! ## the theorems -/
abbrev GA (n : Nat) := Register.gateAlgebra ℂ n
noncomputable abbrev P := groupPhase frameSys

open QG.Model.Wiring

theorem frame_zero (n : Nat) : frame (GA n) frameSys (phiFn (List.replicate n (0 : ℝ))) = 1 := by
  have h : ∀ m, m ≤ n → frameUpTo (GA n) frameSys (phiFn (List.replicate n (0 : ℝ))) m = 1 := by
    intro m
    induction m with
    | zero => intro _; rfl
    | succ m ih =>
      intro hm
      simp only [frameUpTo]
      rw [ih (by omega)]
      have : phiFn (List.replicate n (0 : ℝ)) m = 0 := by
        have hm' : m < n := by omega
        simp [phiFn, List.getElem?_replicate, hm']
      rw [this, frameSys.rz_zero, (GA n).e1_one _ (by omega), one_mul]
  exact h n le_rfl

/-- **frame invariant of the index-based class, regenerated gates, all real phases**: after any well-formed
sequence of circuit-object calls on a fresh `BinaryCircuit`, the (phase-corrected) ideal operator equals the
virtual-Z frame of the final phases times the operator of the recorded noise-free matrices -/
theorem binary_frame_invariant (n : Nat) (cs : List (CircCall ℝ)) (hwf : ∀ c ∈ cs, WFCall n c) (st' : BinState ℝ)
    (h : foldE (BinState.step P) (BinState.init P n) cs = .ok st') :
    idealOps (GA n) frameSys cs = frame (GA n) frameSys (phiFn st'.phi) * simOp (GA n) frameSys st' := by
  have := binary_run_inv (GA n) frameSys cs hwf (BinState.init P n) st' (by simp [BinState.init]) h
  have h0 : simOp (GA n) frameSys (BinState.init P n) = 1 := by simp [simOp, BinState.init]
  have h1 : frame (GA n) frameSys (phiFn (BinState.init P n).phi) = 1 := frame_zero n
  rw [h0, h1, mul_one, mul_one] at this
  exact this

theorem norm_U (φ : ℝ) : ‖U φ‖ = 1 := by
  unfold U
  have : I * (φ : ℂ) / 2 = ((φ / 2 : ℝ) : ℂ) * I := by push_cast; ring
  rw [this, Complex.norm_exp_ofReal_mul_I]

theorem rzB_apply (φ : ℝ) (a b : Bool) :
    rzB φ a b = if a = b then (if a then U φ else U (-φ)) else 0 := by
  cases a <;> cases b <;> simp [rzB, b2, rz, f2b, finTwoEquiv]

/-- a frame factor only changes the phase of each amplitude -/
theorem E1_rzB_norm {n : Nat} (q : Fin n) (φ : ℝ) (ψ : State ℂ n) (x : BV n) :
    ‖(E1 (rzB φ) q ψ) x‖ = ‖ψ x‖ := by
  simp only [E1, Fintype.sum_bool, rzB_apply]
  cases hx : x q
  · have : upd x q false = x := by rw [← hx]; exact upd_self x q
    simp [this, norm_U]
  · have : upd x q true = x := by rw [← hx]; exact upd_self x q
    simp [this, norm_U]

theorem frame_norm (n : Nat) (phi : Nat → ℝ) (ψ : State ℂ n) (x : BV n) :
    ‖(frame (GA n) frameSys phi ψ) x‖ = ‖ψ x‖ := by
  have h : ∀ m, m ≤ n → ∀ ψ : State ℂ n, ‖(frameUpTo (GA n) frameSys phi m ψ) x‖ = ‖ψ x‖ := by
    intro m
    induction m with
    | zero => intro _ ψ; rfl
    | succ m ih =>
      intro hm ψ
      simp only [frameUpTo]
      rw [mul_apply', ih (by omega)]
      have hm' : m < n := by omega
      show ‖((Register.e1 (frameSys.rz (phi m)) m : Op ℂ n) ψ) x‖ = _
      rw [e1_eq _ _ hm']
      exact E1_rzB_norm _ _ ψ x
  exact h n le_rfl ψ

/-- **Born probabilities**: the simulated amplitudes and the (phase-corrected) ideal amplitudes have the same
modulus at every basis state, for every initial state -/
theorem binary_born_equal (n : Nat) (cs : List (CircCall ℝ)) (hwf : ∀ c ∈ cs, WFCall n c) (st' : BinState ℝ)
    (h : foldE (BinState.step P) (BinState.init P n) cs = .ok st') (ψ0 : State ℂ n) (x : BV n) :
    ‖(idealOps (GA n) frameSys cs ψ0) x‖ = ‖(simOp (GA n) frameSys st' ψ0) x‖ := by
  rw [binary_frame_invariant n cs hwf st' h, mul_apply', frame_norm]

/-! ## the phase-corrected ideal gates are the standard gates up to a unit scalar -/

/-- the ideal operator of a call with the **standard** matrices (`X`, `SX`, `CX`, `ECR` as in Qiskit, `rz θ`) -/
noncomputable def trueOp (n : Nat) : CircCall ℝ → Op ℂ n
  | .Rz i θ => (GA n).e1 (rzB θ) i
  | .X i _ => (GA n).e1 (b2 stdX) i
  | .SX i _ => (GA n).e1 (b2 (stdSX Z)) i
  | .CNOT i k _ => if i < k then (GA n).e2 (b4 stdCX) i k else (GA n).e2 (b4 stdCXr) k i
  | .ECR i k _ => if i < k then (GA n).e2 (b4 (stdECR Z Zb)) i k else (GA n).e2 (b4 (stdECRr Z Zb)) k i
  | _ => 1

noncomputable def scalarOf : CircCall ℝ → ℂ
  | .X _ _ => Zb ^ 4
  | .SX _ _ => Zb ^ 2
  | .CNOT i k _ => if i < k then Zb ^ 10 else Zb ^ 14
  | _ => 1

noncomputable def trueOps (n : Nat) : List (CircCall ℝ) → Op ℂ n
  | [] => 1
  | c :: rest => trueOps n rest * trueOp n c

noncomputable def scalarsOf : List (CircCall ℝ) → ℂ
  | [] => 1
  | c :: rest => scalarsOf rest * scalarOf c

theorem e1_smul_mat (n : Nat) (c : ℂ) (M : M2 ℂ) (q : Nat) (hq : q < n) (ψ : State ℂ n) :
    (Register.e1 (c • M) q : Op ℂ n) ψ = c • (Register.e1 M q : Op ℂ n) ψ := by
  rw [e1_eq _ _ hq, e1_eq _ _ hq]
  funext x; simp only [E1, Matrix.smul_apply, Pi.smul_apply, smul_eq_mul, Finset.mul_sum, mul_assoc]

theorem e2_smul_mat (n : Nat) (c : ℂ) (M : M4 ℂ) (a b : Nat) (ha : a < n) (hb : b < n) (ψ : State ℂ n) :
    (Register.e2 (c • M) a b : Op ℂ n) ψ = c • (Register.e2 M a b : Op ℂ n) ψ := by
  rw [e2_eq _ _ _ ha hb, e2_eq _ _ _ ha hb]
  funext x; simp only [E2, Matrix.smul_apply, Pi.smul_apply, smul_eq_mul, Finset.mul_sum, mul_assoc]

theorem idealOp_eq (n : Nat) (c : CircCall ℝ) (hwf : WFCall n c) (ψ : State ℂ n) :
    idealOp (GA n) frameSys c ψ = scalarOf c • trueOp n c ψ := by
  cases c with
  | Rz i θ => simp [idealOp, trueOp, scalarOf]; rfl
  | I i => simp [idealOp, trueOp, scalarOf]
  | X i pars =>
    simp only [idealOp, trueOp, scalarOf]
    show (Register.e1 (b2 (Zb ^ 4 • stdX)) i : Op ℂ n) ψ = _
    rw [b2_smul]; exact e1_smul_mat n _ _ i hwf ψ
  | SX i pars =>
    simp only [idealOp, trueOp, scalarOf]
    show (Register.e1 (b2 (Zb ^ 2 • stdSX Z)) i : Op ℂ n) ψ = _
    rw [b2_smul]; exact e1_smul_mat n _ _ i hwf ψ
  | relaxation i pars => simp [idealOp, trueOp, scalarOf]
  | bitflip i pars => simp [idealOp, trueOp, scalarOf]
  | CNOT i k pars =>
    obtain ⟨hi, hk, _⟩ := hwf
    by_cases h : i < k
    · simp only [idealOp, trueOp, scalarOf, h, if_true]
      show (Register.e2 (b4 (Zb ^ 10 • stdCX)) i k : Op ℂ n) ψ = _
      rw [b4_smul]; exact e2_smul_mat n _ _ i k hi hk ψ
    · simp only [idealOp, trueOp, scalarOf, h, if_false]
      show (Register.e2 (b4 (Zb ^ 14 • stdCXr)) k i : Op ℂ n) ψ = _
      rw [b4_smul]; exact e2_smul_mat n _ _ k i hk hi ψ
  | ECR i k pars =>
    by_cases h : i < k <;> simp [idealOp, trueOp, scalarOf, h] <;> rfl

theorem trueOp_smul (n : Nat) (c : CircCall ℝ) (μ : ℂ) (ψ : State ℂ n) :
    trueOp n c (μ • ψ) = μ • trueOp n c ψ := by
  have h1 : ∀ (M : M2 ℂ) (q : Nat), (Register.e1 M q : Op ℂ n) (μ • ψ) = μ • (Register.e1 M q : Op ℂ n) ψ := by
    intro M q
    unfold Register.e1
    split_ifs with h
    · exact E1_smul M _ μ ψ
    · rfl
  have h2 : ∀ (M : M4 ℂ) (a b : Nat), (Register.e2 M a b : Op ℂ n) (μ • ψ) = μ • (Register.e2 M a b : Op ℂ n) ψ := by
    intro M a b
    unfold Register.e2
    split_ifs with h
    · exact E2_smul M _ _ μ ψ
    · rfl
  cases c with
  | Rz i θ => exact h1 _ _
  | I i => rfl
  | X i pars => exact h1 _ _
  | SX i pars => exact h1 _ _
  | relaxation i pars => rfl
  | bitflip i pars => rfl
  | CNOT i k pars => simp only [trueOp]; split_ifs <;> exact h2 _ _ _
  | ECR i k pars => simp only [trueOp]; split_ifs <;> exact h2 _ _ _

theorem idealOps_eq (n : Nat) (cs : List (CircCall ℝ)) (hwf : ∀ c ∈ cs, WFCall n c) (ψ : State ℂ n) :
    idealOps (GA n) frameSys cs ψ = scalarsOf cs • trueOps n cs ψ := by
  induction cs generalizing ψ with
  | nil => simp [idealOps, trueOps, scalarsOf]
  | cons c rest ih =>
    simp only [idealOps, trueOps, scalarsOf, mul_apply']
    rw [idealOp_eq n c (hwf c (by simp)) ψ, ih (fun c hc => hwf c (by simp [hc]))]
    -- linearity of the remaining ideal operators
    have hl : ∀ (l : List (CircCall ℝ)) (μ : ℂ) (φ : State ℂ n), trueOps n l (μ • φ) = μ • trueOps n l φ := by
      intro l
      induction l with
      | nil => intro μ φ; rfl
      | cons d l ihl => intro μ φ; simp only [trueOps, mul_apply']; rw [trueOp_smul, ihl]
    rw [hl, smul_smul]

theorem norm_Zb : ‖Zb‖ = 1 := by
  unfold Zb
  have : -(I * (Real.pi : ℂ) / 8) = ((-(Real.pi / 8) : ℝ) : ℂ) * I := by push_cast; ring
  rw [this, Complex.norm_exp_ofReal_mul_I]

theorem norm_scalarsOf (cs : List (CircCall ℝ)) : ‖scalarsOf cs‖ = 1 := by
  induction cs with
  | nil => simp [scalarsOf]
  | cons c rest ih =>
    simp only [scalarsOf, norm_mul, ih, one_mul]
    cases c <;> simp [scalarOf, norm_Zb]
    split_ifs <;> simp [norm_Zb]

/-- **C03 for the index-based class**: for every register size, every well-formed sequence of native operations
(any real rz angles, both gate directions, any pairs of distinct qubits) and every initial state, the state
propagated through the recorded noise-free matrices has, at every basis state, the same modulus as the ideal
circuit's state — the Born probabilities coincide before marginalisation -/
theorem noise_free_run_spec_binary (n : Nat) (cs : List (CircCall ℝ)) (hwf : ∀ c ∈ cs, WFCall n c) (st' : BinState ℝ)
    (h : foldE (BinState.step P) (BinState.init P n) cs = .ok st') (ψ0 : State ℂ n) (x : BV n) :
    ‖(simOp (GA n) frameSys st' ψ0) x‖ = ‖(trueOps n cs ψ0) x‖ := by
  rw [← binary_born_equal n cs hwf st' h ψ0 x, idealOps_eq n cs hwf ψ0]
  simp [norm_smul, norm_scalarsOf]

/-- non-vacuity: a reversed CNOT on a non-adjacent pair after an rz is a well-formed call sequence, the model runs it,
and the hypotheses of the theorem are met -/
example : (∀ c ∈ ([.Rz 2 (1/3), .CNOT 2 0 [], .SX 0 []] : List (CircCall ℝ)), WFCall 3 c) := by
  intro c hc
  simp at hc
  rcases hc with rfl | rfl | rfl <;> simp [WFCall]

/-! ## the layered classes (Standard / Efficient / OneCircuit)

`QG.Lemmas.LayerSim`: the layers of the object, read with a qubit offset the way the layer-based backends read them
(placeholder `1` = width 0, a 2x2 entry at offset `q` = `[M, [q]]`, a 4x4 entry at offset `q` = `[G, [q, q+1]]` — the
`layersItems` of C01, whose `binary_layer_spec` / `standard_spec` / `efficient_spec` / `ones_spec` say that every
layer-based backend applies exactly the product of these items), are the item list the index-based class registers for
the same calls, provided the calls are issued in row order — which is how `_apply_gates_on_circuit` issues them. -/

open QG.Lemmas.LayerSim in
/-- the operator of the layers of a layered circuit object -/
noncomputable def simOpL (n : Nat) (st : LayerState ℝ) : Op ℂ n :=
  (GA n).sem ((allItems st).map (interp frameSys))

open QG.Lemmas.LayerSim in
/-- **C03 for the layered classes, call level**: every row-ordered, well-formed sequence of build calls on a new
layered circuit object leaves layers whose operator has, on every initial state and at every basis state, the modulus
of the ideal circuit's amplitude -/
theorem noise_free_run_spec_layered (n : Nat) (hn : 0 < n) (cs : List (CircCall ℝ)) (hwf : ∀ c ∈ cs, WFCall n c)
    (hrow : RowOrdered n 0 cs) (st' : LayerState ℝ)
    (h : foldE (LayerState.step P) (LayerState.init P n) cs = .ok st') (ψ0 : State ℂ n) (x : BV n) :
    ‖(simOpL n st' ψ0) x‖ = ‖(trueOps n cs ψ0) x‖ := by
  obtain ⟨b', hb', hr, _⟩ := run_sim P n cs (LayerState.init P n) st' (BinState.init P n) (rel_init P n hn) hrow h
  have := noise_free_run_spec_binary n cs hwf b' hb' ψ0 x
  unfold simOp at this
  rw [hr.items] at this
  exact this

open QG.Lemmas.LayerSim in
/-- rows in range for the ops of the layered branch (in addition to `LWF`: rz rows) -/
def LWF' (n : Nat) : Op ℝ → Prop
  | .rz q _ => q < n
  | op => LWF n op

open QG.Lemmas.LayerSim in
theorem wf_layerLoop (n : Nat) (hit : Nat → Option (List (CircCall ℝ)))
    (h : ∀ k, k < n → ∀ cs, hit k = some cs → ∀ c ∈ cs, WFCall n c) : ∀ c ∈ layerLoop n hit, WFCall n c := by
  intro c hc
  unfold layerLoop at hc
  obtain ⟨k, hk, hck⟩ := List.mem_flatMap.mp hc
  have hkn : k < n := List.mem_range.mp hk
  cases hh : hit k with
  | none => simp [hh] at hck; subst hck; exact hkn
  | some cs => simp [hh] at hck; exact h k hkn cs hh c hck

open QG.Lemmas.LayerSim in
theorem wf_callsLayered (n : Nat) (data : List (Op ℝ)) (hwf : ∀ op ∈ data, LWF' n op) :
    ∀ c ∈ callsLayered n data, WFCall n c := by
  intro c hc
  unfold callsLayered at hc
  rcases List.mem_append.mp hc with hc | hc
  · obtain ⟨op, hop, hcop⟩ := List.mem_flatMap.mp hc
    have hw := hwf op hop
    cases op with
    | rz q th => simp [callsLayeredOp] at hcop; subst hcop; exact hw
    | sx q =>
      refine wf_layerLoop n _ ?_ c hcop
      intro k hk cs hcs c hc
      by_cases hkq : k = q <;> simp [hkq] at hcs
      subst hcs; simp at hc; subst hc; exact hkq ▸ hw
    | x q =>
      refine wf_layerLoop n _ ?_ c hcop
      intro k hk cs hcs c hc
      by_cases hkq : k = q <;> simp [hkq] at hcs
      subst hcs; simp at hc; subst hc; exact hkq ▸ hw
    | delay q d =>
      refine wf_layerLoop n _ ?_ c hcop
      intro k hk cs hcs c hc
      by_cases hkq : k = q <;> simp [hkq] at hcs
      subst hcs; simp at hc; subst hc; exact hkq ▸ hw
    | cx a t =>
      refine wf_layerLoop n _ ?_ c hcop
      intro k hk cs hcs c hc
      obtain ⟨h1, h2, h3⟩ := hw
      by_cases hka : k = a
      · simp [hka] at hcs; subst hcs; simp at hc; subst hc
        exact ⟨h1, h2, by omega⟩
      · by_cases hkt : k = t
        · rw [if_neg hka, if_pos hkt] at hcs
          injection hcs with hcs
          subst hcs; simp at hc
        · simp [hka, hkt] at hcs
    | ecr a t =>
      refine wf_layerLoop n _ ?_ c hcop
      intro k hk cs hcs c hc
      obtain ⟨h1, h2, h3⟩ := hw
      by_cases hka : k = a
      · simp [hka] at hcs; subst hcs; simp at hc; subst hc
        exact ⟨h1, h2, by omega⟩
      · by_cases hkt : k = t
        · rw [if_neg hka, if_pos hkt] at hcs
          injection hcs with hcs
          subst hcs; simp at hc
        · simp [hka, hkt] at hcs
    | barrier qs => simp [callsLayeredOp] at hcop
    | measure q cl => simp [callsLayeredOp] at hcop
  · obtain ⟨k, hk, rfl⟩ := List.mem_map.mp hc
    exact List.mem_range.mp hk

open QG.Lemmas.LayerSim in
/-- **C03 for the layered classes, pipeline level**: for every register size and every preprocessed native circuit
whose rows are in range and whose two-qubit gates act on adjacent rows (the domain of the layered classes), the calls
the simulator's layered branch issues (`callsLayered`, C08) run on a new layered circuit object without error, end on a
layer boundary, and leave layers whose operator reproduces the ideal circuit's Born probabilities -/
theorem noise_free_pipeline_layered (n : Nat) (hn : 0 < n) (data : List (Op ℝ)) (hwf : ∀ op ∈ data, LWF' n op)
    (st' : LayerState ℝ) (h : foldE (LayerState.step P) (LayerState.init P n) (callsLayered n data) = .ok st')
    (ψ0 : State ℂ n) (x : BV n) :
    st'.s = 0 ∧ ‖(simOpL n st' ψ0) x‖ = ‖(trueOps n (callsLayered n data) ψ0) x‖ := by
  have hl : ∀ op ∈ data, LWF n op := by
    intro op hop
    have := hwf op hop
    cases op <;> first | exact this | trivial
  obtain ⟨hrow, hend⟩ := rowOrdered_callsLayered n data hl
  refine ⟨?_, noise_free_run_spec_layered n hn _ (wf_callsLayered n data hwf) hrow st' h ψ0 x⟩
  obtain ⟨_, _, _, hs⟩ := run_sim P n _ (LayerState.init P n) st' (BinState.init P n) (rel_init P n hn) hrow h
  rw [hs]; exact hend

/-! ## the layers handed to the layer-based backends

`QG.Lemmas.LayerBridge`: the shape invariant of the layered machine (`Segs`: every layer is made of the segments `[I]`,
`[M₂]`, `[G₄, 1]`, `[1, G₄]`) is the well-formedness of C01, and C01's reading of the layers of matrices (`layersItems`) is
the item list of the object.  So C01's theorems apply to the object's layers, and the chain "circuit → issued calls →
layers → backend result" closes formally: **what each layer-based backend returns on the layers of a noise-free run has the
moduli of the ideal circuit's amplitudes**. -/

open QG.Lemmas.LayerSim QG.Lemmas.LayerBridge QG.Model.Backend in
/-- the completed layers of the object as lists of matrices and placeholders (tokens replaced by the matrices of the
noise-free gate set), oldest first: what `statevector` hands to the backend -/
noncomputable def layersL (st : LayerState ℝ) : List (Layer (Mat ℂ)) := layersOf frameSys st

section Backends
open QG.Lemmas.LayerSim QG.Lemmas.LayerBridge QG.Model.Backend QG.Lemmas.Backend
open Classical

/-- the layers of a pipeline run are in the domain of C01 (in particular there is at least one: the read-out layer) -/
theorem layers_admissible (n : Nat) (hn : 0 < n) (data : List (Op ℝ)) (hwf : ∀ op ∈ data, LWF' n op)
    (st' : LayerState ℝ) (h : foldE (LayerState.step P) (LayerState.init P n) (callsLayered n data) = .ok st')
    (ψ : Array ℂ) (hψ : ψ.size = 2 ^ n) :
    QG.C01.Admissible n (layersL st') ψ := by
  have hl : ∀ op ∈ data, LWF n op := by
    intro op hop
    have := hwf op hop
    cases op <;> first | exact this | trivial
  obtain ⟨hrow, hend⟩ := rowOrdered_callsLayered n data hl
  obtain ⟨b', hb', hr, hs⟩ := run_sim P n _ (LayerState.init P n) st' (BinState.init P n) (rel_init P n hn) hrow h
  obtain ⟨hw, _⟩ := layers_bridge frameSys n st' b' hr (by rw [hs]; exact hend)
  have hne : st'.mpList ≠ [] := mpList_ne_nil n st' b' hr (by rw [hs]; exact hend)
    (bin_run_items P _ _ b' hb' (Or.inr (callsLayered_has_item n hn data)))
  refine ⟨hn, ?_, ?_, hψ⟩
  · simpa [layersL, layersOf] using hne
  · intro l hl
    obtain ⟨h1, h2⟩ := hw l hl
    simp only [Layer.wf, Bool.and_eq_true, beq_iff_eq]
    exact ⟨wfBlocks_of_wfi l h1, h2⟩

/-- **C03 on the layers, as C01 specifies the backends**: the layered Kronecker product of the object's layers, applied
to any input vector, has at every flat index the modulus of the ideal circuit's amplitude -/
theorem noise_free_layers_spec (n : Nat) (hn : 0 < n) (data : List (Op ℝ)) (hwf : ∀ op ∈ data, LWF' n op)
    (st' : LayerState ℝ) (h : foldE (LayerState.step P) (LayerState.init P n) (callsLayered n data) = .ok st')
    (ψ : Array ℂ) (i : Nat) (hi : i < 2 ^ n) :
    ‖vfn (specApply n (layersL st') ψ) i‖ =
      ‖flatOf (trueOps n (callsLayered n data) (vecOf ψ.toList)) i‖ := by
  have hl : ∀ op ∈ data, LWF n op := by
    intro op hop
    have := hwf op hop
    cases op <;> first | exact this | trivial
  obtain ⟨hrow, hend⟩ := rowOrdered_callsLayered n data hl
  obtain ⟨b', _, hr, hs⟩ := run_sim P n _ (LayerState.init P n) st' (BinState.init P n) (rel_init P n hn) hrow h
  obtain ⟨hw, hitems⟩ := layers_bridge frameSys n st' b' hr (by rw [hs]; exact hend)
  rw [vfn_specApply n _ ψ i hi]
  have h1 := sem_layers (layersL st') hw (vecOf ψ.toList : State ℂ n) i hi
  have h2 : specFn n (layersL st') (flatOf (vecOf ψ.toList : State ℂ n)) i = specFn n (layersL st') (vfn ψ) i :=
    specFn_congr' n _ _ _ (fun j hj => flatOf_vecOf ψ j hj) i hi
  rw [← h2, ← h1]
  have h3 := (noise_free_pipeline_layered n hn data hwf st' h (vecOf ψ.toList) (bitsFn n i)).2
  unfold simOpL at h3
  show ‖((gateAlgebra ℂ n).sem (layersItems (layersL st')) (vecOf ψ.toList)) (bitsFn n i)‖ = _
  rw [show layersItems (layersL st') = (allItems st').map (interp frameSys) from hitems]
  exact h3

/-- … hence `StandardBackend.statevector` on the layers of a noise-free `StandardCircuit` -/
theorem noise_free_standard_backend (n : Nat) (hn : 0 < n) (data : List (Op ℝ)) (hwf : ∀ op ∈ data, LWF' n op)
    (st' : LayerState ℝ) (h : foldE (LayerState.step P) (LayerState.init P n) (callsLayered n data) = .ok st')
    (ψ : Array ℂ) (hψ : ψ.size = 2 ^ n) :
    ∃ out, standard (dictOf ℂ) n (layersL st') ψ = .ok out ∧
      ∀ i < 2 ^ n, ‖vfn out i‖ = ‖flatOf (trueOps n (callsLayered n data) (vecOf ψ.toList)) i‖ :=
  ⟨_, QG.C01.standard_spec n _ ψ (layers_admissible n hn data hwf st' h ψ hψ),
    fun i hi => noise_free_layers_spec n hn data hwf st' h ψ i hi⟩

/-- … `EfficientBackend.statevector` (every chunk setting inside the code's own limit of contraction letters) on the layers
of a noise-free `EfficientCircuit` -/
theorem noise_free_efficient_backend (n mn op : Nat) (hn : 0 < n) (data : List (Op ℝ)) (hwf : ∀ op ∈ data, LWF' n op)
    (st' : LayerState ℝ) (h : foldE (LayerState.step P) (LayerState.init P n) (callsLayered n data) = .ok st')
    (ψ : Array ℂ) (hψ : ψ.size = 2 ^ n)
    (hop : 1 ≤ op) (hlegs : n < 4 ∨ n < 2 * op ∨ numOperands n mn op ≤ 13) :
    ∃ out, efficient (dictOf ℂ) n mn op (layersL st') ψ = .ok out ∧
      ∀ i < 2 ^ n, ‖vfn out i‖ = ‖flatOf (trueOps n (callsLayered n data) (vecOf ψ.toList)) i‖ :=
  ⟨_, QG.C01.efficient_spec n mn op _ ψ (layers_admissible n hn data hwf st' h ψ hψ) hop hlegs,
    fun i hi => noise_free_layers_spec n hn data hwf st' h ψ i hi⟩

/-- … and `BackendForOnes.statevector` (at most 26 matrices per layer, the code's own assertion) on the layers of a
noise-free `OneCircuit` -/
theorem noise_free_ones_backend (n : Nat) (hn : 0 < n) (data : List (Op ℝ)) (hwf : ∀ op ∈ data, LWF' n op)
    (st' : LayerState ℝ) (h : foldE (LayerState.step P) (LayerState.init P n) (callsLayered n data) = .ok st')
    (ψ : Array ℂ) (hψ : ψ.size = 2 ^ n)
    (hlegs : ∀ l ∈ layersL st', QG.C01.numMats l ≤ 26) :
    ∃ out, ones (dictOf ℂ) n (layersL st') ψ = .ok out ∧
      ∀ i < 2 ^ n, ‖vfn out i‖ = ‖flatOf (trueOps n (callsLayered n data) (vecOf ψ.toList)) i‖ :=
  ⟨_, QG.C01.ones_spec n _ ψ (layers_admissible n hn data hwf st' h ψ hψ) hlegs,
    fun i hi => noise_free_layers_spec n hn data hwf st' h ψ i hi⟩

/-- **the layered branch returns normally on its domain**: for every preprocessed native circuit whose rows are in range
and whose two-qubit gates act on adjacent rows, building the layered circuit object raises nothing (the model raises
`IndexError` exactly where the code does) -/
theorem layered_pipeline_runs (n : Nat) (data : List (Op ℝ)) (hwf : ∀ op ∈ data, LWF' n op) :
    ∃ st', foldE (LayerState.step P) (LayerState.init P n) (callsLayered n data) = .ok st' := by
  obtain ⟨st', h, _⟩ := layer_run_ok P n _ (wf_callsLayered n data hwf) _ (init_sized P n)
  exact ⟨st', h⟩

/-- **C03 end to end for `StandardCircuit` + `StandardBackend`, no hypothesis beyond the domain**: the object is built
without error, the backend returns a vector, and the vector has the ideal moduli -/
theorem noise_free_standard_end_to_end (n : Nat) (hn : 0 < n) (data : List (Op ℝ)) (hwf : ∀ op ∈ data, LWF' n op)
    (ψ : Array ℂ) (hψ : ψ.size = 2 ^ n) :
    ∃ st' out, foldE (LayerState.step P) (LayerState.init P n) (callsLayered n data) = .ok st' ∧
      standard (dictOf ℂ) n (layersL st') ψ = .ok out ∧
      ∀ i < 2 ^ n, ‖vfn out i‖ = ‖flatOf (trueOps n (callsLayered n data) (vecOf ψ.toList)) i‖ := by
  obtain ⟨st', h⟩ := layered_pipeline_runs n data hwf
  obtain ⟨out, h1, h2⟩ := noise_free_standard_backend n hn data hwf st' h ψ hψ
  exact ⟨st', out, h, h1, h2⟩

/-- … and for `EfficientCircuit` + `EfficientBackend` (inside the code's own limit of contraction letters) -/
theorem noise_free_efficient_end_to_end (n mn op : Nat) (hn : 0 < n) (data : List (Op ℝ)) (hwf : ∀ op ∈ data, LWF' n op)
    (ψ : Array ℂ) (hψ : ψ.size = 2 ^ n) (hop : 1 ≤ op) (hlegs : n < 4 ∨ n < 2 * op ∨ numOperands n mn op ≤ 13) :
    ∃ st' out, foldE (LayerState.step P) (LayerState.init P n) (callsLayered n data) = .ok st' ∧
      efficient (dictOf ℂ) n mn op (layersL st') ψ = .ok out ∧
      ∀ i < 2 ^ n, ‖vfn out i‖ = ‖flatOf (trueOps n (callsLayered n data) (vecOf ψ.toList)) i‖ := by
  obtain ⟨st', h⟩ := layered_pipeline_runs n data hwf
  obtain ⟨out, h1, h2⟩ := noise_free_efficient_backend n mn op hn data hwf st' h ψ hψ hop hlegs
  exact ⟨st', out, h, h1, h2⟩

end Backends

/-! ## the legacy fixed-depth class `Circuit` (a grid of columns)

`QG.Lemmas.GridSim`: every column of the grid, read with a qubit offset like a layer (`Circuit.statevector` multiplies the
`kron` of every column, first column first), gives the items of that gate time; the same simulation argument applies.
The grid opens a new column lazily, so the statements are about whatever depth the run was given: they assume that the
run returns normally (a grid that is too shallow raises `IndexError`, which the model reproduces). -/

open QG.Lemmas.LayerSim QG.Lemmas.GridSim in
/-- the operator of the columns of a grid circuit object -/
noncomputable def simOpG (n : Nat) (st : GridState ℝ) : Op ℂ n :=
  (GA n).sem ((gridItems st).map (interp frameSys))

open QG.Lemmas.LayerSim QG.Lemmas.GridSim in
/-- **C03 for the grid class, call level** -/
theorem noise_free_run_spec_grid (n d : Nat) (hn : 0 < n) (cs : List (CircCall ℝ)) (hwf : ∀ c ∈ cs, WFCall n c)
    (hrow : RowOrdered n 0 cs) (st' : GridState ℝ)
    (h : foldE (GridState.step P) (GridState.init P n d) cs = .ok st') (ψ0 : State ℂ n) (x : BV n) :
    ‖(simOpG n st' ψ0) x‖ = ‖(trueOps n cs ψ0) x‖ := by
  have hrow' : RowOrderedG n (GridState.init P n d).s cs :=
    rowOrderedG_of n cs 0 (by
      have : effS n 0 = 0 := by unfold effS; split <;> omega
      rw [this]; exact hrow)
  obtain ⟨b', hb', hr⟩ := run_simG P n d cs (GridState.init P n d) st' (BinState.init P n) (relG_init P n d hn) hrow' h
  have := noise_free_run_spec_binary n cs hwf b' hb' ψ0 x
  unfold simOp at this
  rw [hr.items] at this
  exact this

open QG.Lemmas.LayerSim QG.Lemmas.GridSim in
/-- **C03 for the grid class, pipeline level**: for every register size, every depth and every preprocessed native
circuit with rows in range and two-qubit gates on adjacent rows, if the calls the simulator's layered branch issues run on
a new `Circuit(n, depth)` without error, its columns reproduce the ideal circuit's Born probabilities -/
theorem noise_free_pipeline_grid (n d : Nat) (hn : 0 < n) (data : List (Op ℝ)) (hwf : ∀ op ∈ data, LWF' n op)
    (st' : GridState ℝ) (h : foldE (GridState.step P) (GridState.init P n d) (callsLayered n data) = .ok st')
    (ψ0 : State ℂ n) (x : BV n) :
    ‖(simOpG n st' ψ0) x‖ = ‖(trueOps n (callsLayered n data) ψ0) x‖ := by
  have hl : ∀ op ∈ data, LWF n op := by
    intro op hop
    have := hwf op hop
    cases op <;> first | exact this | trivial
  exact noise_free_run_spec_grid n d hn _ (wf_callsLayered n data hwf) (rowOrdered_callsLayered n data hl).1 st' h ψ0 x

/-! ### the grid class composed with C01: `Circuit.statevector` multiplies the `kron` of every column, first column
first — which is `StandardBackend.statevector` on the list of columns (`QG.Lemmas.GridBridge`) -/

section GridBackend
open QG.Lemmas.LayerSim QG.Lemmas.GridSim QG.Lemmas.GridBridge QG.Lemmas.LayerBridge QG.Model.Backend QG.Lemmas.Backend
open Classical

/-- the used columns of a grid object with every token replaced by the matrix of the noise-free gate set -/
noncomputable def columnsG (st : GridState ℝ) : List (Layer (Mat ℂ)) := columnsOf frameSys st

/-- a pipeline run on a grid leaves the two machines related, the grid in shape and the last column full -/
private theorem grid_run_facts (n d : Nat) (hn : 0 < n) (data : List (Op ℝ)) (hwf : ∀ op ∈ data, LWF' n op)
    (st' : GridState ℝ) (h : foldE (GridState.step P) (GridState.init P n d) (callsLayered n data) = .ok st') :
    ∃ b', RelG n d st' b' ∧ ShapeG n st' ∧ st'.s = n := by
  have hl : ∀ op ∈ data, LWF n op := by
    intro op hop
    have := hwf op hop
    cases op <;> first | exact this | trivial
  obtain ⟨hrow, hend⟩ := rowOrdered_callsLayered n data hl
  have hrow' : RowOrderedG n (GridState.init P n d).s (callsLayered n data) :=
    rowOrderedG_of n _ 0 (by
      have : effS n 0 = 0 := by unfold effS; split <;> omega
      rw [this]; exact hrow)
  obtain ⟨b', _, hr, hsh, hs⟩ := run_shapeG_end P n d _ (GridState.init P n d) st' (BinState.init P n)
    (relG_init P n d hn) (shapeG_init P n d) hrow' h
  exact ⟨b', hr, hsh, by rw [hs]; exact endSG_callsLayered n hn data hend⟩

/-- the columns of any pipeline run on a grid are in C01's domain (well-formed layers of width `n`, at least one) -/
theorem grid_columns_admissible (n d : Nat) (hn : 0 < n) (data : List (Op ℝ)) (hwf : ∀ op ∈ data, LWF' n op)
    (st' : GridState ℝ) (h : foldE (GridState.step P) (GridState.init P n d) (callsLayered n data) = .ok st')
    (ψ : Array ℂ) (hψ : ψ.size = 2 ^ n) :
    QG.C01.Admissible n (columnsG st') ψ := by
  obtain ⟨b', hr, hsh, hs⟩ := grid_run_facts n d hn data hwf st' h
  obtain ⟨hw, _⟩ := grid_bridge frameSys n d st' b' hr hsh hs
  refine ⟨hn, ?_, ?_, hψ⟩
  · simp [columnsG, columnsOf]
  · intro l hl
    obtain ⟨h1, h2⟩ := hw l hl
    simp only [Layer.wf, Bool.and_eq_true, beq_iff_eq]
    exact ⟨wfBlocks_of_wfi l h1, h2⟩

/-- **C03 on the columns, as C01 specifies a layered product**: the Kronecker product of the columns (first column
first), applied to any input vector, has at every flat index the modulus of the ideal circuit's amplitude -/
theorem noise_free_grid_columns_spec (n d : Nat) (hn : 0 < n) (data : List (Op ℝ)) (hwf : ∀ op ∈ data, LWF' n op)
    (st' : GridState ℝ) (h : foldE (GridState.step P) (GridState.init P n d) (callsLayered n data) = .ok st')
    (ψ : Array ℂ) (i : Nat) (hi : i < 2 ^ n) :
    ‖vfn (specApply n (columnsG st') ψ) i‖ =
      ‖flatOf (trueOps n (callsLayered n data) (vecOf ψ.toList)) i‖ := by
  obtain ⟨b', hr, hsh, hs⟩ := grid_run_facts n d hn data hwf st' h
  obtain ⟨hw, hitems⟩ := grid_bridge frameSys n d st' b' hr hsh hs
  rw [vfn_specApply n _ ψ i hi]
  have h1 := sem_layers (columnsG st') hw (vecOf ψ.toList : State ℂ n) i hi
  have h2 : specFn n (columnsG st') (flatOf (vecOf ψ.toList : State ℂ n)) i = specFn n (columnsG st') (vfn ψ) i :=
    specFn_congr' n _ _ _ (fun j hj => flatOf_vecOf ψ j hj) i hi
  rw [← h2, ← h1]
  have h3 := noise_free_pipeline_grid n d hn data hwf st' h (vecOf ψ.toList) (bitsFn n i)
  unfold simOpG at h3
  show ‖((gateAlgebra ℂ n).sem (layersItems (columnsG st')) (vecOf ψ.toList)) (bitsFn n i)‖ = _
  rw [show layersItems (columnsG st') = (gridItems st').map (interp frameSys) from hitems]
  exact h3

/-- **`Circuit.statevector`** (the product of the columns' Kronecker products applied to `psi0`, i.e. C01's model of the
explicit propagator product run on the list of columns): on the grid of any noise-free pipeline run that returns
normally it raises nothing and every amplitude has the modulus of the ideal circuit's.  The run fills exactly the
columns `0 .. j`; that these are all `depth` columns of the object (`j + 1 = depth`, which is how the simulator sizes
the grid) is observed on the real class by C01's check (section G), not proved here. -/
theorem noise_free_grid_statevector (n d : Nat) (hn : 0 < n) (data : List (Op ℝ)) (hwf : ∀ op ∈ data, LWF' n op)
    (st' : GridState ℝ) (h : foldE (GridState.step P) (GridState.init P n d) (callsLayered n data) = .ok st')
    (ψ : Array ℂ) (hψ : ψ.size = 2 ^ n) :
    ∃ out, standard (dictOf ℂ) n (columnsG st') ψ = .ok out ∧
      ∀ i < 2 ^ n, ‖vfn out i‖ = ‖flatOf (trueOps n (callsLayered n data) (vecOf ψ.toList)) i‖ :=
  ⟨_, QG.C01.standard_spec n _ ψ (grid_columns_admissible n d hn data hwf st' h ψ hψ),
    fun i hi => noise_free_grid_columns_spec n d hn data hwf st' h ψ i hi⟩

/-- **the run fills every column of the grid**: on a grid of the depth the simulator computes (`len(data) − n_rz + 1`) a
pipeline run of a preprocessed circuit (virtual `rz` and gate-time operations only: barriers and measurements have been
removed by the preprocessing) ends in the last column -/
theorem grid_run_fills_every_column (n : Nat) (hn : 0 < n) (data : List (Op ℝ)) (hwf : ∀ op ∈ data, LWF' n op)
    (hpre : ∀ op ∈ data, (∃ q th, op = .rz q th) ∨ isColOp op = true)
    (st' : GridState ℝ)
    (h : foldE (GridState.step P) (GridState.init P n (depthOf data)) (callsLayered n data) = .ok st') :
    st'.j + 1 = depthOf data := by
  have hl : ∀ op ∈ data, LWF n op := by
    intro op hop
    have := hwf op hop
    cases op <;> first | exact this | trivial
  obtain ⟨hrow, hend⟩ := rowOrdered_callsLayered n data hl
  have hrow' : RowOrderedG n 0 (callsLayered n data) :=
    rowOrderedG_of n _ 0 (by
      have : effS n 0 = 0 := by unfold effS; split <;> omega
      rw [this]; exact hrow)
  obtain ⟨_, _, _, hs⟩ := grid_run_facts n (depthOf data) hn data hwf st' h
  rw [columns_used P n (depthOf data) hn data hl st' (BinState.init P n) (relG_init P n _ hn) hrow' hs h]
  exact colCount_depthOf data hpre

/-- … so `Circuit.statevector`, which multiplies the Kronecker products of **all** `depth` columns of the object, is
C01's propagator product on exactly the columns of `noise_free_grid_statevector` -/
theorem noise_free_grid_statevector_all_columns (n : Nat) (hn : 0 < n) (data : List (Op ℝ))
    (hwf : ∀ op ∈ data, LWF' n op) (hpre : ∀ op ∈ data, (∃ q th, op = .rz q th) ∨ isColOp op = true)
    (st' : GridState ℝ)
    (h : foldE (GridState.step P) (GridState.init P n (depthOf data)) (callsLayered n data) = .ok st')
    (ψ : Array ℂ) (hψ : ψ.size = 2 ^ n) :
    ∃ out, standard (dictOf ℂ) n
        ((List.range (depthOf data)).map fun c => (colOf st'.grid c).map (toBlock frameSys st'.calls)) ψ = .ok out ∧
      ∀ i < 2 ^ n, ‖vfn out i‖ = ‖flatOf (trueOps n (callsLayered n data) (vecOf ψ.toList)) i‖ := by
  have hj := grid_run_fills_every_column n hn data hwf hpre st' h
  have := noise_free_grid_statevector n (depthOf data) hn data hwf st' h ψ hψ
  unfold columnsG columnsOf at this
  rw [hj] at this
  exact this

/-- non-vacuity of `hpre` and of the depth: the example circuit below (`rz`, reversed `cx`, `sx`) has depth 3 -/
example : depthOf ([.rz 1 5, .cx 1 0, .sx 2] : List (Op ℝ)) = 3 ∧
    ∀ op ∈ ([.rz 1 5, .cx 1 0, .sx 2] : List (Op ℝ)), (∃ q th, op = .rz q th) ∨ isColOp op = true := by
  refine ⟨rfl, ?_⟩
  intro op hop
  simp at hop
  rcases hop with rfl | rfl | rfl
  · exact Or.inl ⟨1, 5, rfl⟩
  · exact Or.inr rfl
  · exact Or.inr rfl

end GridBackend

open QG.Lemmas.LayerSim QG.Lemmas.GridSim in
/-- non-vacuity: the same circuit on a grid of the depth the simulator computes (`len(data) - n_rz + 1 = 3`); a grid of
depth 2 raises `IndexError` -/
example :
    (foldE (GridState.step intPhase) (GridState.init intPhase 3 3) (callsLayered 3 [.rz 1 5, .cx 1 0, .sx 2])).map
      (fun st => ((gridItems st).map (fun it => (it.gate.map (·.method), it.i, it.j)), st.j, st.s))
    = .ok ([(some "CNOT_inv", 0, 1), (none, 2, -1), (none, 0, -1), (none, 1, -1), (some "SX", 2, -1),
            (some "bitflip", 0, -1), (some "bitflip", 1, -1), (some "bitflip", 2, -1)], 2, 3) ∧
    (foldE (GridState.step intPhase) (GridState.init intPhase 3 2) (callsLayered 3 [.rz 1 5, .cx 1 0, .sx 2])).toOption
      = none := by
  constructor <;> rfl

open QG.Lemmas.LayerSim in
/-- non-vacuity: a reversed CNOT on rows (1,0) after an rz, then an sx on row 2, is in the domain (`LWF'`), the layered
machine runs the issued calls and ends on a layer boundary; the layers read as the expected items (the reversed CNOT as
`[G, [0, 1]]`, identities on the idle rows, the read-out layer last) -/
example :
    (foldE (LayerState.step intPhase) (LayerState.init intPhase 3) (callsLayered 3 [.rz 1 5, .cx 1 0, .sx 2])).map
      (fun st => ((allItems st).map (fun it => (it.gate.map (·.method), it.i, it.j)), st.s))
    = .ok ([(some "CNOT_inv", 0, 1), (none, 2, -1), (none, 0, -1), (none, 1, -1), (some "SX", 2, -1),
            (some "bitflip", 0, -1), (some "bitflip", 1, -1), (some "bitflip", 2, -1)], 0) := by rfl

example : ∀ op ∈ ([.rz 1 5, .cx 1 0, .sx 2] : List (Op ℝ)), LWF' 3 op := by
  intro op hop
  simp at hop
  rcases hop with rfl | rfl | rfl <;> simp [LWF', QG.Lemmas.LayerSim.LWF]

end QG.C03
