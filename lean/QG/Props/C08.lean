import Mathlib.Tactic
import QG.Model.Wiring

/-!
# C08 — every operation uses its own qubits' parameters, phases and tensor slots

Theorems about the executable wiring model `QG/Model/Wiring.lean` (tied to the real simulator and circuit
classes on every run by exact correspondence, `harness/props/c08.py`).

**Role tables** (specification vocabulary).  A gate-set method assigns each of its noise arguments to a
tensor slot of the matrix it returns (slot 0 = more significant index bit): for `X, SX, relaxation, bitflip`
the only slot; for `CNOT, ECR` `(t, p2, p_s0, p_s1, T1_s0, T2_s0, T1_s1, T2_s1)`; for `CNOT_inv` the declared
(control, target) arguments go to slots (1, 0) and for `ECR_inv` to slots (0, 1) — these are exactly the slot
roles *proved* for the factories in `QG.Props.C06` (`handoff_CNOT_inv`, `handoff_ECR_inv`).
`Own q₀ q₁ c t g` says: every argument of the call `g` in a slot-`r` role is a calibration token of the
physical qubit `q_r` and every pair-role argument is `t_int / p_int` of the ordered pair `(c, t)`.
-/
namespace QG.C08
open QG.Model.Wiring

inductive Role | s0 | s1 | pair | free
  deriving DecidableEq, Repr

def roles : String → List Role
  | "X" => [.s0, .s0, .s0]
  | "SX" => [.s0, .s0, .s0]
  | "relaxation" => [.free, .s0, .s0]
  | "bitflip" => [.s0, .s0]
  | "CNOT" => [.pair, .pair, .s0, .s1, .s0, .s0, .s1, .s1]
  | "ECR" => [.pair, .pair, .s0, .s1, .s0, .s0, .s1, .s1]
  | "ECR_inv" => [.pair, .pair, .s0, .s1, .s0, .s0, .s1, .s1]
  | "CNOT_inv" => [.pair, .pair, .s1, .s0, .s1, .s1, .s0, .s0]
  | _ => []

/-- the slot whose qubit's *phase* each phase argument must be -/
def phaseRoles : String → List Role
  | "X" => [.s0]
  | "SX" => [.s0]
  | "CNOT" => [.s0, .s1]
  | "ECR" => [.s0, .s1]
  | "ECR_inv" => [.s0, .s1]
  | "CNOT_inv" => [.s1, .s0]
  | _ => []

def ownPar (q0 q1 c t : Nat) : Role → Par → Bool
  | .s0, .T1 q => q = q0 | .s0, .T2 q => q = q0 | .s0, .p q => q = q0 | .s0, .rout q => q = q0 | .s0, .tm q => q = q0
  | .s1, .T1 q => q = q1 | .s1, .T2 q => q = q1 | .s1, .p q => q = q1
  | .pair, .pint a b => a = c ∧ b = t
  | .pair, .tint a b => a = c ∧ b = t
  | .free, .durDt _ => true
  | _, _ => false

def allZip : List Role → List Par → (Role → Par → Bool) → Bool
  | [], [], _ => true
  | r :: rs, p :: ps, f => f r p && allZip rs ps f
  | _, _, _ => false

/-- every noise argument of `g` belongs to the qubit of the slot its role names -/
def Own {Φ : Type} (q0 q1 c t : Nat) (g : GateCall Φ) : Bool := allZip (roles g.method) g.pars (ownPar q0 q1 c t)

/-! ## two-qubit methods of the circuit classes: own parameters, own phases -/

/-- `CNOT(i, k, …)` with the parameters the simulator passes for `cx c t` (control at row `i`, target at row `k`):
forward, the control is in slot 0; reversed, the target is in slot 0 — and in both cases each slot receives its
own qubit's values -/
theorem cnot_call_own {Φ : Type} (P : PhaseOps Φ) (phi : List Φ) (i k c t : Nat) (r : TwoQ Φ)
    (h : twoQCNOT P phi i k (twoQubitPars c t) = .ok r) :
    (i < k → Own c t c t r.call = true ∧ r.call.method = "CNOT") ∧
    (¬ i < k → Own t c c t r.call = true ∧ r.call.method = "CNOT_inv") := by
  unfold twoQCNOT at h
  cases h1 : getAt phi i with
  | error e => simp [h1, bind, Except.bind] at h
  | ok a =>
    cases h2 : getAt phi k with
    | error e => simp [h1, h2, bind, Except.bind] at h
    | ok b =>
      simp only [h1, h2, bind, Except.bind] at h
      constructor
      · intro hik
        simp only [hik, if_true] at h
        cases h3 : setAt phi i (P.add a (P.neg P.halfPi)) with
        | error e => simp [h3] at h
        | ok p =>
          simp [h3, pure, Except.pure] at h
          subst h
          simp [Own, roles, twoQubitPars, allZip, ownPar]
      · intro hik
        simp only [hik, if_false] at h
        cases h3 : setAt phi i (P.add (P.add a P.halfPi) (P.add P.halfPi P.halfPi)) with
        | error e => simp [h3] at h
        | ok p1 =>
          simp only [h3] at h
          cases h4 : getAt p1 k with
          | error e => simp [h4] at h
          | ok pk =>
            simp only [h4] at h
            cases h5 : setAt p1 k (P.add pk P.halfPi) with
            | error e => simp [h5] at h
            | ok p2 =>
              simp [h5, pure, Except.pure] at h
              subst h
              simp [Own, roles, twoQubitPars, allZip, ownPar]

/-- `ECR(i, k, …)`: forward as `CNOT`; the reversed gate takes its arguments in slot order, so the lower row
(the target) is slot 0 and receives the target's values -/
theorem ecr_call_own {Φ : Type} (phi : List Φ) (i k c t : Nat) (r : TwoQ Φ)
    (h : twoQECR phi i k (twoQubitPars c t) = .ok r) :
    (i < k → Own c t c t r.call = true ∧ r.call.method = "ECR") ∧
    (¬ i < k → Own t c c t r.call = true ∧ r.call.method = "ECR_inv") := by
  unfold twoQECR at h
  cases h1 : getAt phi i with
  | error e => simp [h1, bind, Except.bind] at h
  | ok a =>
    cases h2 : getAt phi k with
    | error e => simp [h1, h2, bind, Except.bind] at h
    | ok b =>
      simp only [h1, h2, bind, Except.bind] at h
      constructor
      · intro hik
        simp [hik, pure, Except.pure] at h
        subst h
        simp [Own, roles, twoQubitPars, allZip, ownPar]
      · intro hik
        simp [hik, pure, Except.pure] at h
        subst h
        simp [Own, roles, twoQubitPars, allZip, ownPar, swapRoles]

/-- phase arguments: each is the *current* phase of the qubit in the slot `phaseRoles` names
(slot 0 = lower row) -/
theorem two_qubit_phase_args {Φ : Type} (P : PhaseOps Φ) (phi : List Φ) (i k : Nat) (pars : List Par) (a b : Φ)
    (hi : getAt phi i = .ok a) (hk : getAt phi k = .ok b) :
    (∀ r, twoQCNOT P phi i k pars = .ok r → r.call.phases = [a, b]) ∧
    (∀ r, twoQECR phi i k pars = .ok r → r.call.phases = if i < k then [a, b] else [b, a]) := by
  constructor
  · intro r h
    unfold twoQCNOT at h
    simp only [hi, hk, bind, Except.bind] at h
    by_cases hik : i < k
    · simp only [hik, if_true] at h
      cases h3 : setAt phi i (P.add a (P.neg P.halfPi)) with
      | error e => simp [h3] at h
      | ok p => simp [h3, pure, Except.pure] at h; subst h; rfl
    · simp only [hik, if_false] at h
      cases h3 : setAt phi i (P.add (P.add a P.halfPi) (P.add P.halfPi P.halfPi)) with
      | error e => simp [h3] at h
      | ok p1 =>
        simp only [h3] at h
        cases h4 : getAt p1 k with
        | error e => simp [h4] at h
        | ok pk =>
          simp only [h4] at h
          cases h5 : setAt p1 k (P.add pk P.halfPi) with
          | error e => simp [h5] at h
          | ok p2 => simp [h5, pure, Except.pure] at h; subst h; rfl
  · intro r h
    unfold twoQECR at h
    simp only [hi, hk, bind, Except.bind] at h
    by_cases hik : i < k <;> simp [hik, pure, Except.pure] at h <;> subst h <;> simp [hik]

/-- one-qubit pulses get minus the current phase of their own row; idle and readout gates get none -/
theorem one_qubit_phase_arg {Φ : Type} (P : PhaseOps Φ) (m : String) (phi : List Φ) (i : Nat) (pars : List Par) (g : GateCall Φ) :
    (oneQCall P m phi i pars true = .ok g → ∃ a, getAt phi i = .ok a ∧ g = ⟨m, [P.neg a], pars⟩) ∧
    (oneQCall P m phi i pars false = .ok g → g = ⟨m, [], pars⟩) := by
  constructor
  · intro h
    unfold oneQCall at h
    cases h1 : getAt phi i with
    | error e => simp [h1, bind, Except.bind] at h
    | ok a => simp [h1, bind, Except.bind, pure, Except.pure] at h; exact ⟨a, rfl, h.symm⟩
  · intro h
    simp [oneQCall, pure, Except.pure] at h; exact h.symm

/-! ## the simulator passes each operation the calibration values of its own physical qubits -/

/-- index-based branch: the physical label indexes the device tables, the position in the layout the circuit -/
theorem binary_calls_own {Φ : Type} (layout : List Nat) (op : Op Φ) (cs : List (CircCall Φ))
    (h : callsBinaryOp layout op = .ok cs) :
    match op with
    | .sx q => ∃ v, indexE layout q = .ok v ∧ cs = [.SX v [.p q, .T1 q, .T2 q]]
    | .x q => ∃ v, indexE layout q = .ok v ∧ cs = [.X v [.p q, .T1 q, .T2 q]]
    | .cx c t => ∃ cv tv, indexE layout c = .ok cv ∧ indexE layout t = .ok tv ∧ cs = [.CNOT cv tv (twoQubitPars c t)]
    | .ecr c t => ∃ cv tv, indexE layout c = .ok cv ∧ indexE layout t = .ok tv ∧ cs = [.ECR cv tv (twoQubitPars c t)]
    | .delay q d => ∃ v, indexE layout q = .ok v ∧ cs = [.relaxation v [.durDt d, .T1 q, .T2 q]]
    | .rz q th => ∃ v, indexE layout q = .ok v ∧ cs = [.Rz v th]
    | _ => cs = [] := by
  cases op with
  | rz q th =>
    simp only [callsBinaryOp, bind, Except.bind, pure, Except.pure] at h ⊢
    cases h1 : indexE layout q with
    | error e => simp [h1] at h
    | ok v => simp [h1] at h; exact ⟨v, rfl, h.symm⟩
  | sx q =>
    simp only [callsBinaryOp, bind, Except.bind, pure, Except.pure] at h ⊢
    cases h1 : indexE layout q with
    | error e => simp [h1] at h
    | ok v => simp [h1] at h; exact ⟨v, rfl, h.symm⟩
  | x q =>
    simp only [callsBinaryOp, bind, Except.bind, pure, Except.pure] at h ⊢
    cases h1 : indexE layout q with
    | error e => simp [h1] at h
    | ok v => simp [h1] at h; exact ⟨v, rfl, h.symm⟩
  | delay q d =>
    simp only [callsBinaryOp, bind, Except.bind, pure, Except.pure] at h ⊢
    cases h1 : indexE layout q with
    | error e => simp [h1] at h
    | ok v => simp [h1] at h; exact ⟨v, rfl, h.symm⟩
  | cx c t =>
    simp only [callsBinaryOp, bind, Except.bind, pure, Except.pure] at h ⊢
    cases h1 : indexE layout c with
    | error e => simp [h1] at h
    | ok cv =>
      cases h2 : indexE layout t with
      | error e => simp [h1, h2] at h
      | ok tv => simp [h1, h2] at h; exact ⟨cv, tv, rfl, rfl, h.symm⟩
  | ecr c t =>
    simp only [callsBinaryOp, bind, Except.bind, pure, Except.pure] at h ⊢
    cases h1 : indexE layout c with
    | error e => simp [h1] at h
    | ok cv =>
      cases h2 : indexE layout t with
      | error e => simp [h1, h2] at h
      | ok tv => simp [h1, h2] at h; exact ⟨cv, tv, rfl, rfl, h.symm⟩
  | barrier qs => simp [callsBinaryOp, pure, Except.pure] at h ⊢; exact h
  | measure q c => simp [callsBinaryOp, pure, Except.pure] at h ⊢; exact h

/-- the final readout bit-flips: position `k` of the layout gets `tm, rout` of the physical qubit there -/
theorem binary_bitflips_own {Φ : Type} (n : Nat) (layout : List Nat) (data : List (Op Φ)) (cs : List (CircCall Φ))
    (h : callsBinary n layout data = .ok cs) (k : Nat) (hk : k < n) :
    ∃ q, layout[k]? = some q ∧ CircCall.bitflip k [.tm q, .rout q] ∈ cs := by
  unfold callsBinary at h
  cases hb : concatE (data.map (callsBinaryOp layout)) with
  | error e => simp [hb, bind, Except.bind] at h
  | ok body =>
    cases hf : flipCalls (Φ := Φ) n layout with
    | error e => simp [hb, hf, bind, Except.bind] at h
    | ok flips =>
      simp [hb, hf, bind, Except.bind, pure, Except.pure] at h
      subst h
      have key : ∀ (l : List Nat) (out : List (CircCall Φ)), concatE (l.map (flipCall layout)) = .ok out →
          ∀ k ∈ l, ∃ q, layout[k]? = some q ∧ CircCall.bitflip k [.tm q, .rout q] ∈ out := by
        intro l
        induction l with
        | nil => intro out _ k hk; simp at hk
        | cons x xs ih =>
          intro out ho k hk
          simp only [List.map_cons, concatE, bind, Except.bind] at ho
          cases hx : flipCall (Φ := Φ) layout x with
          | error e => simp [hx] at ho
          | ok fx =>
            simp only [hx] at ho
            cases hr : concatE (xs.map (flipCall (Φ := Φ) layout)) with
            | error e => simp [hr] at ho
            | ok rest =>
              simp [hr, pure, Except.pure] at ho
              subst ho
              rcases List.mem_cons.mp hk with rfl | hk'
              · unfold flipCall at hx
                cases hq : layout[k]? with
                | none => simp [hq] at hx
                | some q => simp [hq] at hx; subst hx; exact ⟨q, rfl, by simp⟩
              · obtain ⟨q', h1, h2⟩ := ih rest hr k hk'
                exact ⟨q', h1, by simp [h2]⟩
      obtain ⟨q, h1, h2⟩ := key (List.range n) flips hf k (List.mem_range.mpr hk)
      exact ⟨q, h1, List.mem_append_right _ h2⟩

/-- layered branch: the physical label is the row, and the row's own table entries are passed -/
theorem layered_calls_own {Φ : Type} (n : Nat) (c t : Nat) (hc : c < n) :
    (CircCall.CNOT c t (twoQubitPars c t) : CircCall Φ) ∈ callsLayeredOp n (.cx c t) ∧
    (CircCall.ECR c t (twoQubitPars c t) : CircCall Φ) ∈ callsLayeredOp n (.ecr c t) ∧
    (CircCall.SX c [.p c, .T1 c, .T2 c] : CircCall Φ) ∈ callsLayeredOp n (.sx c) ∧
    (CircCall.X c [.p c, .T1 c, .T2 c] : CircCall Φ) ∈ callsLayeredOp n (.x c) := by
  refine ⟨?_, ?_, ?_, ?_⟩ <;>
    simp only [callsLayeredOp, layerLoop, List.mem_flatMap, List.mem_range] <;>
    exact ⟨c, hc, by simp⟩

/-- a layer of the layered branch is complete: every operation issues exactly `n` gate units
(the two-qubit gate counts two, the target row is skipped) -/
theorem layered_layer_complete {Φ : Type} (n q : Nat) (hq : q < n) :
    (callsLayeredOp (Φ := Φ) n (.sx q)).length = n ∧ (callsLayeredOp (Φ := Φ) n (.x q)).length = n := by
  have key : ∀ (f : Nat → Option (List (CircCall Φ))), (∀ k, (f k = none) ∨ ∃ c, f k = some [c]) →
      (layerLoop n f).length = n := by
    intro f hf
    unfold layerLoop
    rw [List.length_flatMap, List.map_congr_left (g := fun _ => 1)]
    · simp
    · intro k _
      rcases hf k with h | ⟨c, h⟩ <;> simp [h]
  constructor
  · exact key _ (fun k => by by_cases h : k = q <;> simp [h])
  · exact key _ (fun k => by by_cases h : k = q <;> simp [h])

/-! ## tensor slots -/

/-- index-based class: a two-qubit matrix is registered on `(lower row, higher row)` — slot 0 on the lower row —
together with the call that sampled it -/
theorem binary_two_qubit_slots {Φ : Type} (P : PhaseOps Φ) (st st' : BinState Φ) (i k : Nat) (pars : List Par)
    (hne : i ≠ k) :
    (st.step P (.CNOT i k pars) = .ok st' → ∃ t, twoQCNOT P st.phi i k pars = .ok t ∧
        st'.items = ⟨some t.call, min i k, ((max i k : Nat) : Int)⟩ :: st.items ∧ st'.phi = t.phi) ∧
    (st.step P (.ECR i k pars) = .ok st' → ∃ t, twoQECR st.phi i k pars = .ok t ∧
        st'.items = ⟨some t.call, min i k, ((max i k : Nat) : Int)⟩ :: st.items ∧ st'.phi = t.phi) := by
  constructor
  · intro h
    simp only [BinState.step, bind, Except.bind] at h
    cases ht : twoQCNOT P st.phi i k pars with
    | error e => simp [ht] at h
    | ok t =>
      simp [ht, pure, Except.pure] at h; subst h
      refine ⟨t, rfl, ?_, rfl⟩
      by_cases hik : i < k
      · simp [hik, Nat.min_eq_left hik.le, Nat.max_eq_right hik.le]
      · have hki : k < i := by omega
        simp [hik, Nat.min_eq_right hki.le, Nat.max_eq_left hki.le]
  · intro h
    simp only [BinState.step, bind, Except.bind] at h
    cases ht : twoQECR st.phi i k pars with
    | error e => simp [ht] at h
    | ok t =>
      simp [ht, pure, Except.pure] at h; subst h
      refine ⟨t, rfl, ?_, rfl⟩
      by_cases hik : i < k
      · simp [hik, Nat.min_eq_left hik.le, Nat.max_eq_right hik.le]
      · have hki : k < i := by omega
        simp [hik, Nat.min_eq_right hki.le, Nat.max_eq_left hki.le]

/-! ## relabelling -/

def relabelPar (π : Nat → Nat) : Par → Par
  | .T1 q => .T1 (π q) | .T2 q => .T2 (π q) | .p q => .p (π q) | .rout q => .rout (π q) | .tm q => .tm (π q)
  | .pint c t => .pint (π c) (π t) | .tint c t => .tint (π c) (π t) | .durDt d => .durDt d

def relabelOp {Φ : Type} (π : Nat → Nat) : Op Φ → Op Φ
  | .rz q th => .rz (π q) th | .sx q => .sx (π q) | .x q => .x (π q)
  | .cx c t => .cx (π c) (π t) | .ecr c t => .ecr (π c) (π t)
  | .delay q d => .delay (π q) d | .barrier qs => .barrier (qs.map π) | .measure q c => .measure (π q) c

def relabelCall {Φ : Type} (π : Nat → Nat) : CircCall Φ → CircCall Φ
  | .Rz i th => .Rz i th | .I i => .I i
  | .X i ps => .X i (ps.map (relabelPar π)) | .SX i ps => .SX i (ps.map (relabelPar π))
  | .CNOT i k ps => .CNOT i k (ps.map (relabelPar π)) | .ECR i k ps => .ECR i k (ps.map (relabelPar π))
  | .relaxation i ps => .relaxation i (ps.map (relabelPar π)) | .bitflip i ps => .bitflip i (ps.map (relabelPar π))

private theorem indexOf_go_map (π : Nat → Nat) (hinj : Function.Injective π) (l : List Nat) (q k : Nat) :
    indexOf?.go (π q) (l.map π) k = indexOf?.go q l k := by
  induction l generalizing k with
  | nil => rfl
  | cons y ys ih =>
    simp only [List.map_cons, indexOf?.go]
    by_cases h : y = q
    · simp [h]
    · have : π y ≠ π q := fun e => h (hinj e)
      simp [h, this, ih]

private theorem indexE_map (π : Nat → Nat) (hinj : Function.Injective π) (l : List Nat) (q : Nat) :
    indexE (l.map π) (π q) = indexE l q := by
  unfold indexE indexOf?
  rw [indexOf_go_map π hinj]

/-- **relabelling the physical qubits together with their calibration data**: for an injective relabelling the
calls issued for one operation are the same calls on the same rows with every calibration token relabelled — the
circuit object is driven identically, only the table entries are looked up under the new labels -/
theorem relabel_calls {Φ : Type} (π : Nat → Nat) (hinj : Function.Injective π) (layout : List Nat) (op : Op Φ) :
    callsBinaryOp (layout.map π) (relabelOp π op) = (callsBinaryOp layout op).map (List.map (relabelCall π)) := by
  cases op with
  | rz q th =>
    simp only [callsBinaryOp, relabelOp, indexE_map π hinj, bind, Except.bind, pure, Except.pure, Except.map]
    cases h1 : indexE layout q <;> simp [relabelCall]
  | sx q =>
    simp only [callsBinaryOp, relabelOp, indexE_map π hinj, bind, Except.bind, pure, Except.pure, Except.map]
    cases h1 : indexE layout q <;> simp [relabelCall, relabelPar]
  | x q =>
    simp only [callsBinaryOp, relabelOp, indexE_map π hinj, bind, Except.bind, pure, Except.pure, Except.map]
    cases h1 : indexE layout q <;> simp [relabelCall, relabelPar]
  | delay q d =>
    simp only [callsBinaryOp, relabelOp, indexE_map π hinj, bind, Except.bind, pure, Except.pure, Except.map]
    cases h1 : indexE layout q <;> simp [relabelCall, relabelPar]
  | cx c t =>
    simp only [callsBinaryOp, relabelOp, indexE_map π hinj, bind, Except.bind, pure, Except.pure, Except.map]
    cases h1 : indexE layout c <;> cases h2 : indexE layout t <;> simp [relabelCall, relabelPar, twoQubitPars]
  | ecr c t =>
    simp only [callsBinaryOp, relabelOp, indexE_map π hinj, bind, Except.bind, pure, Except.pure, Except.map]
    cases h1 : indexE layout c <;> cases h2 : indexE layout t <;> simp [relabelCall, relabelPar, twoQubitPars]
  | barrier qs => simp [callsBinaryOp, relabelOp, pure, Except.pure, Except.map]
  | measure q c => simp [callsBinaryOp, relabelOp, pure, Except.pure, Except.map]

/-! non-vacuity: the reversed gates on a scattered layout -/
example : callsBinaryOp (Φ := Int) [2, 5, 9] (.ecr 9 2) = .ok [.ECR 2 0 (twoQubitPars 9 2)] := by decide
example : (twoQECR (Φ := Int) [0, 10, 20] 2 0 (twoQubitPars 9 2)).map (·.call) =
    .ok ⟨"ECR_inv", [0, 20], [.tint 9 2, .pint 9 2, .p 2, .p 9, .T1 2, .T2 2, .T1 9, .T2 9]⟩ := by decide
example : Own (Φ := Int) 2 9 9 2 ⟨"ECR_inv", [0, 20], [.tint 9 2, .pint 9 2, .p 2, .p 9, .T1 2, .T2 2, .T1 9, .T2 9]⟩ = true := by
  decide

end QG.C08
