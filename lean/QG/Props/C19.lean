import QG.Lemmas.Merge
import QG.Lemmas.Pool

/-!
# C19 — batch helpers run every job exactly once; the merge is exact and refuses to clobber

Property theorems only (models: `QG/Model/Merge.lean`, `QG/Model/Pool.lean`; helper lemmas and the
specification vocabulary `leftSum`, `meanRow`, `fieldArith`: `QG/Lemmas/Merge.lean`, `QG/Lemmas/Pool.lean`).

The models describe the code after the minimal repairs of D13 (`not any` in the third assertion of
the merge) and D14 (no `concurrent.futures.wait` on result values).  The last section shows, as
`example`s, that for the code as found both statements are false.

## Merge
`fs` is the file system before the call (path ↦ array), `src`/`tgt`/`split` the arguments.
`c i e` is entry `e` of source file `i`, `len j` the number of entries of the arrays of group `j`
(hypothesis `hsrc` says exactly this, so every list of arrays whose groups have a common shape is
covered).  Explicit hypotheses that are not part of the code's own checks: the arrays of one group
have the same shape (part of `hsrc`; otherwise numpy raises or broadcasts) and, for `merge_spec`,
the target names are pairwise distinct (`hnd`).  That targets and sources are disjoint is NOT a
hypothesis: it follows from "all sources exist, no target exists".  Paths are compared as strings.

## Helpers
A `Schedule` says which worker runs which task and in which order the tasks complete; `Valid`
says that it runs every task exactly once on one of the pool's workers — the trusted behaviour of
`multiprocessing.Pool.imap_unordered` / `ProcessPoolExecutor.map`.  The theorems hold for every
valid schedule, every number of cores / workers and every argument list (multiset equality is
`List.Perm`).
-/
namespace QG.C19
open QG.Model.Merge QG.Model.Pool QG.Lemmas.Merge QG.Lemmas.Pool

variable {α : Type}

/-! ## Merge -/

/-- the refusal condition of the property: the counts do not fit, a source is missing, ANY target
already exists, or the split is smaller than 2 -/
def Refusal (fs : FS α) (src tgt : List String) (split : Int) : Prop :=
  split * (tgt.length : Int) ≠ (src.length : Int) ∨ (∃ s ∈ src, read fs s = none) ∨
    (∃ t ∈ tgt, read fs t ≠ none) ∨ split < 2

private theorem all_isFile {fs : FS α} {src : List String} (h : ¬ ∃ s ∈ src, read fs s = none) :
    src.all (isFile fs) = true := by
  rw [List.all_eq_true]
  intro s hs
  rw [isFile_eq_true]
  by_contra hno
  exact h ⟨s, hs, by
    cases hr : read fs s with
    | none => rfl
    | some a => exact absurd ⟨a, hr⟩ hno⟩

private theorem any_isFile {fs : FS α} {tgt : List String} (h : ¬ ∃ t ∈ tgt, read fs t ≠ none) :
    tgt.any (isFile fs) = false := by
  rw [List.any_eq_false]
  intro t ht
  simp only [Bool.not_eq_true, isFile_eq_false]
  by_contra hno
  exact h ⟨t, ht, hno⟩

private theorem merge_runs_loop (A : Arith α) (fs : FS α) (src tgt : List String) (split : Int)
    (h : ¬ Refusal fs src tgt split) :
    postProcessSplit A fs src tgt split = mergeLoop A src split.toNat 0 tgt fs := by
  unfold Refusal at h
  push Not at h
  obtain ⟨h1, h2, h3, h4⟩ := h
  have hall := all_isFile (fs := fs) (src := src) (by push Not; exact h2)
  have hany := any_isFile (fs := fs) (tgt := tgt) (by push Not; exact h3)
  have h4' : split > 1 := by omega
  simp [postProcessSplit, h1, hall, hany, h4']

/-- general form (no distinctness hypothesis): every target name holds the mean of the LAST group
written under that name; everything that is not a target is untouched. -/
private theorem merge_spec_general (A : Arith α) (fs : FS α) (src tgt : List String) (split : Int)
    (c : Nat → Nat → α) (len : Nat → Nat)
    (hsplit : 2 ≤ split)
    (hcount : split * (tgt.length : Int) = (src.length : Int))
    (hsrc : ∀ i (h : i < src.length),
      read fs src[i] = some ((List.range (len (i / split.toNat))).map (c i)))
    (htgt : ∀ t ∈ tgt, read fs t = none) :
    ∃ post, postProcessSplit A fs src tgt split = (post, .ok ()) ∧
      (∀ j (hj : j < tgt.length), (∀ j' (hj' : j' < tgt.length), j < j' → tgt[j'] ≠ tgt[j]) →
        read post tgt[j] = some (meanRow A c split.toNat (len j) j)) ∧
      (∀ p, p ∉ tgt → read post p = read fs p) := by
  have hsp : ((split.toNat : Nat) : Int) = split := Int.toNat_of_nonneg (by omega)
  have hnr : ¬ Refusal fs src tgt split := by
    unfold Refusal
    push Not
    refine ⟨hcount, ?_, ?_, by omega⟩
    · intro s hs
      obtain ⟨i, hi, rfl⟩ := List.getElem_of_mem hs
      rw [hsrc i hi]; simp
    · intro t ht; exact htgt t ht
  rw [merge_runs_loop A fs src tgt split hnr]
  have hc : (0 + tgt.length) * split.toNat = src.length := by
    have : ((split.toNat : Nat) : Int) * (tgt.length : Int) = (src.length : Int) := by rw [hsp]; exact hcount
    have : split.toNat * tgt.length = src.length := by exact_mod_cast this
    rw [Nat.zero_add, Nat.mul_comm]; exact this
  obtain ⟨post, hpost, hframe, hval⟩ := mergeLoop_spec A src split.toNat (by omega) c len tgt 0 fs hc hsrc
    (by
      intro t ht idx h heq
      have h1 := hsrc idx h
      rw [heq, htgt t ht] at h1
      cases h1)
  rw [Nat.zero_mul] at hpost
  refine ⟨post, hpost, ?_, hframe⟩
  intro j hj hlast
  have := hval j hj hlast
  simpa using this

/-- **C19, merge, main statement.**  For every `split ≥ 2`, every number of targets, all array
contents and every file system in which all sources and no target exist (target names pairwise
distinct): the call returns normally; afterwards target `j` holds, entry by entry, the sum of the
sources `j*split … (j+1)*split-1` (added in this order) divided by `split`; every path that is not
a target — in particular every source — holds what it held before. -/
theorem merge_spec (A : Arith α) (fs : FS α) (src tgt : List String) (split : Int)
    (c : Nat → Nat → α) (len : Nat → Nat)
    (hsplit : 2 ≤ split)
    (hcount : split * (tgt.length : Int) = (src.length : Int))
    (hsrc : ∀ i (h : i < src.length),
      read fs src[i] = some ((List.range (len (i / split.toNat))).map (c i)))
    (htgt : ∀ t ∈ tgt, read fs t = none)
    (hnd : tgt.Nodup) :
    ∃ post, postProcessSplit A fs src tgt split = (post, .ok ()) ∧
      (∀ j (hj : j < tgt.length), read post tgt[j] = some (meanRow A c split.toNat (len j) j)) ∧
      (∀ p, p ∉ tgt → read post p = read fs p) ∧
      (∀ s ∈ src, read post s = read fs s) := by
  obtain ⟨post, hpost, hval, hframe⟩ := merge_spec_general A fs src tgt split c len hsplit hcount hsrc htgt
  refine ⟨post, hpost, ?_, hframe, ?_⟩
  · intro j hj
    apply hval j hj
    intro j' hj' hlt heq
    have := (List.Nodup.getElem_inj_iff hnd).mp heq
    omega
  · intro s hs
    apply hframe
    intro hst
    obtain ⟨i, hi, rfl⟩ := List.getElem_of_mem hs
    have h1 := hsrc i hi
    rw [htgt _ hst] at h1
    cases h1

/-- the same over any division ring (`ℚ`, `ℝ`, …) with its own `+` and `/`: target `j` holds the
element-wise arithmetic mean `(Σ_{i<split} source_{j*split+i}) / split`. -/
theorem merge_spec_field {K : Type} [DivisionRing K] (fs : FS K) (src tgt : List String) (split : Int)
    (c : Nat → Nat → K) (len : Nat → Nat)
    (hsplit : 2 ≤ split)
    (hcount : split * (tgt.length : Int) = (src.length : Int))
    (hsrc : ∀ i (h : i < src.length),
      read fs src[i] = some ((List.range (len (i / split.toNat))).map (c i)))
    (htgt : ∀ t ∈ tgt, read fs t = none)
    (hnd : tgt.Nodup) :
    ∃ post, postProcessSplit (fieldArith K) fs src tgt split = (post, .ok ()) ∧
      (∀ j (hj : j < tgt.length), read post tgt[j] = some ((List.range (len j)).map fun e =>
        (∑ i ∈ Finset.range split.toNat, c (j * split.toNat + i) e) / (split.toNat : K))) ∧
      (∀ p, p ∉ tgt → read post p = read fs p) ∧
      (∀ s ∈ src, read post s = read fs s) := by
  obtain ⟨post, hpost, hval, hframe, hsrc'⟩ :=
    merge_spec (fieldArith K) fs src tgt split c len hsplit hcount hsrc htgt hnd
  refine ⟨post, hpost, ?_, hframe, hsrc'⟩
  intro j hj
  rw [hval j hj]
  unfold meanRow
  congr 1
  apply List.map_congr_left
  intro e _
  rw [leftSum_field _ _ (by omega)]
  rfl

/-- **refusal.**  If the counts do not fit, a source is missing, any target exists or `split < 2`,
the call raises one of the four `AssertionError`s and the file system is the one it was called on. -/
theorem merge_refuses (A : Arith α) (fs : FS α) (src tgt : List String) (split : Int)
    (h : Refusal fs src tgt split) :
    ∃ e, postProcessSplit A fs src tgt split = (fs, .error e) ∧ e.isAssertion = true := by
  unfold postProcessSplit
  split_ifs with h1 h2 h3 h4
  · exact ⟨.assertCount, rfl, rfl⟩
  · exact ⟨.assertSource, rfl, rfl⟩
  · exact ⟨.assertTarget, rfl, rfl⟩
  · exfalso
    rcases h with h | ⟨s, hs, hr⟩ | ⟨t, ht, hr⟩ | h
    · exact h1 h
    · have : src.all (isFile fs) = true := by simpa using h2
      have := List.all_eq_true.mp this s hs
      rw [isFile_eq_true, hr] at this
      obtain ⟨a, ha⟩ := this
      cases ha
    · have : tgt.any (isFile fs) = false := by simpa using h3
      have := List.any_eq_false.mp this t ht
      simp only [Bool.not_eq_true, isFile_eq_false] at this
      exact hr this
    · omega
  · exact ⟨.assertSplit, rfl, rfl⟩

/-- **the call is refused exactly under the refusal condition**: an `AssertionError` is raised iff
the counts do not fit, a source is missing, any target exists or `split < 2`. -/
theorem merge_refuses_iff (A : Arith α) (fs : FS α) (src tgt : List String) (split : Int) :
    (∃ e, (postProcessSplit A fs src tgt split).2 = .error e ∧ e.isAssertion = true) ↔
      Refusal fs src tgt split := by
  constructor
  · rintro ⟨e, he, hass⟩
    by_contra hnr
    rw [merge_runs_loop A fs src tgt split hnr] at he
    have := mergeLoop_err A src split.toNat tgt 0 fs e he
    rw [this] at hass
    cases hass
  · intro h
    obtain ⟨e, he, hass⟩ := merge_refuses A fs src tgt split h
    exact ⟨e, by rw [he], hass⟩

/-- the four assertions are evaluated in the order of the code: counts, sources, targets, split -/
theorem merge_refusal_order (A : Arith α) (fs : FS α) (src tgt : List String) (split : Int) :
    (split * (tgt.length : Int) ≠ (src.length : Int) →
      postProcessSplit A fs src tgt split = (fs, .error .assertCount)) ∧
    (split * (tgt.length : Int) = (src.length : Int) → (∃ s ∈ src, read fs s = none) →
      postProcessSplit A fs src tgt split = (fs, .error .assertSource)) ∧
    (split * (tgt.length : Int) = (src.length : Int) → (¬ ∃ s ∈ src, read fs s = none) →
      (∃ t ∈ tgt, read fs t ≠ none) →
      postProcessSplit A fs src tgt split = (fs, .error .assertTarget)) ∧
    (split * (tgt.length : Int) = (src.length : Int) → (¬ ∃ s ∈ src, read fs s = none) →
      (¬ ∃ t ∈ tgt, read fs t ≠ none) → split < 2 →
      postProcessSplit A fs src tgt split = (fs, .error .assertSplit)) := by
  refine ⟨?_, ?_, ?_, ?_⟩
  · intro h; simp [postProcessSplit, h]
  · rintro h ⟨s, hs, hr⟩
    have : src.all (isFile fs) = false := by
      rw [List.all_eq_false]
      exact ⟨s, hs, by simp [isFile_eq_false, hr]⟩
    simp [postProcessSplit, h, this]
  · rintro h h2 ⟨t, ht, hr⟩
    have hall := all_isFile h2
    have : tgt.any (isFile fs) = true := by
      rw [List.any_eq_true]
      refine ⟨t, ht, ?_⟩
      rw [isFile_eq_true]
      cases hrt : read fs t with
      | none => exact absurd hrt hr
      | some a => exact ⟨a, rfl⟩
    simp [postProcessSplit, h, hall, this]
  · intro h h2 h3 h4
    have hall := all_isFile h2
    have hany := any_isFile h3
    have : ¬ split > 1 := by omega
    simp [postProcessSplit, h, hall, hany, this]

/-- **nothing else is written, whatever happens**: for every input — valid or not, and also when
the loop stops with an exception half-way — a path that is not among the targets holds after the
call what it held before. -/
theorem merge_frame (A : Arith α) (fs : FS α) (src tgt : List String) (split : Int)
    (p : String) (hp : p ∉ tgt) :
    read (postProcessSplit A fs src tgt split).1 p = read fs p := by
  unfold postProcessSplit
  split_ifs
  · rfl
  · rfl
  · rfl
  · exact mergeLoop_frame A src split.toNat tgt 0 fs p hp
  · rfl

/-- remark made precise (not demanded by the property): without the distinctness hypothesis the
call still succeeds and a target name that occurs several times ends up holding the mean of the
LAST group written under it — earlier groups are silently overwritten. -/
theorem merge_duplicate_targets_last_wins (A : Arith α) (fs : FS α) (src tgt : List String) (split : Int)
    (c : Nat → Nat → α) (len : Nat → Nat)
    (hsplit : 2 ≤ split)
    (hcount : split * (tgt.length : Int) = (src.length : Int))
    (hsrc : ∀ i (h : i < src.length),
      read fs src[i] = some ((List.range (len (i / split.toNat))).map (c i)))
    (htgt : ∀ t ∈ tgt, read fs t = none) :
    ∃ post, postProcessSplit A fs src tgt split = (post, .ok ()) ∧
      (∀ j (hj : j < tgt.length), (∀ j' (hj' : j' < tgt.length), j < j' → tgt[j'] ≠ tgt[j]) →
        read post tgt[j] = some (meanRow A c split.toNat (len j) j)) :=
  let ⟨post, h1, h2, _⟩ := merge_spec_general A fs src tgt split c len hsplit hcount hsrc htgt
  ⟨post, h1, h2⟩

/-! ### non-vacuity (merge) -/

/-- a concrete instance of the hypotheses of `merge_spec` / `merge_spec_field`: four sources with
three rational entries, two targets, `split = 2`, an unrelated file; and the mean the theorem then
puts into the second target. -/
example :
    let rows : List (List ℚ) := [[1, 2, 3], [3, 4, 6], [10, 20, 30], [0, 0, 1]]
    let c : Nat → Nat → ℚ := fun i e => (rows.getD i []).getD e 0
    let fs : FS ℚ := [("s0", [1, 2, 3]), ("s1", [3, 4, 6]), ("s2", [10, 20, 30]), ("s3", [0, 0, 1]), ("x", [5])]
    let src := ["s0", "s1", "s2", "s3"]
    let tgt := ["t0", "t1"]
    let len : Nat → Nat := fun _ => 3
    ((2 : Int) * (tgt.length : Int) = (src.length : Int)) ∧
    (∀ i (h : i < src.length), read fs src[i] = some ((List.range (len (i / (2 : Int).toNat))).map (c i))) ∧
    (∀ t ∈ tgt, read fs t = none) ∧ tgt.Nodup ∧
    (List.range 3).map (fun e => (∑ i ∈ Finset.range 2, c (1 * 2 + i) e) / (2 : ℚ)) = [5, 10, 31 / 2] := by
  refine ⟨by decide, ?_, by decide, by decide, ?_⟩
  · intro i h
    have : i = 0 ∨ i = 1 ∨ i = 2 ∨ i = 3 := by simp at h; omega
    rcases this with rfl | rfl | rfl | rfl <;>
      (simp only [List.getElem_cons_zero, List.getElem_cons_succ]; decide +kernel)
  · simp [List.range, List.range.loop, Finset.sum_range_succ]
    norm_num

/-- every disjunct of `Refusal` is inhabited (here: one of two targets is left over from an
interrupted earlier merge — the situation the pinned code overwrites). -/
example : Refusal (α := ℚ) [("s0", [1]), ("s1", [3]), ("s2", [1]), ("s3", [3]), ("t1", [9])]
    ["s0", "s1", "s2", "s3"] ["t0", "t1"] 2 :=
  Or.inr (Or.inr (Or.inl ⟨"t1", by simp, by simp [Model.Merge.read]⟩))

/-! ## Helpers -/

/-- **chunking.**  For every number of cores and every argument list: at least two workers, chunk
size ≥ 1 (so the pool accepts it), at most as many chunks as workers, every chunk non-empty and
not longer than the chunk size, and the chunks in order are exactly the argument list — nothing is
dropped, duplicated or reordered by the helper's arithmetic. -/
theorem chunks_partition (cpu : Nat) (args : List α) :
    2 ≤ nProcesses cpu ∧ 1 ≤ chunksize args.length (nProcesses cpu) ∧
      (chunks (chunksize args.length (nProcesses cpu)) args).length ≤ nProcesses cpu ∧
      (∀ c ∈ chunks (chunksize args.length (nProcesses cpu)) args,
        c ≠ [] ∧ c.length ≤ chunksize args.length (nProcesses cpu)) ∧
      (chunks (chunksize args.length (nProcesses cpu)) args).flatten = args := by
  have hn := nProcesses_ge_two cpu
  have hcs := chunksize_pos args.length (nProcesses cpu)
  exact ⟨hn, hcs, chunks_length_le hcs _ args (le_chunksize_mul _ _ (by omega)), mem_chunks hcs args,
    chunks_flatten hcs args⟩

/-- the same for an arbitrary worker count `n ≥ 1` (the formula does not depend on the 80 % rule) -/
theorem chunks_partition_of_workers (n : Nat) (hn : 1 ≤ n) (args : List α) :
    1 ≤ chunksize args.length n ∧ (chunks (chunksize args.length n) args).length ≤ n ∧
      (∀ c ∈ chunks (chunksize args.length n) args, c ≠ [] ∧ c.length ≤ chunksize args.length n) ∧
      (chunks (chunksize args.length n) args).flatten = args := by
  have hcs := chunksize_pos args.length n
  exact ⟨hcs, chunks_length_le hcs _ args (le_chunksize_mul _ _ hn), mem_chunks hcs args,
    chunks_flatten hcs args⟩

private theorem pool_run (cpu : Nat) (args : List α) (sim : α → Res) (s : Schedule)
    (elapsed label : α → String)
    (hs : s.Valid (chunks (chunksize args.length (nProcesses cpu)) args).length (nProcesses cpu))
    (hsim : ∀ a ∈ args, sim a = .pair (elapsed a) (label a)) :
    (poolHelper cpu args sim s).calls
        = s.order.flatMap (fun i => (((chunks (chunksize args.length (nProcesses cpu)) args)[i]?).getD []).map
            (fun a => ((s.worker[i]?).getD 0, a))) ∧
    (poolHelper cpu args sim s).printed
        = s.order.flatMap (fun i => ((((chunks (chunksize args.length (nProcesses cpu)) args)[i]?).getD []).map sim).filterMap line?) ∧
    (poolHelper cpu args sim s).outcome = .ok () := by
  obtain ⟨_, hcs, _, _, hflat⟩ := chunks_partition cpu args
  obtain ⟨hw, _, hperm⟩ := hs
  have hnot : ¬ chunksize args.length (nProcesses cpu) < 1 := by omega
  simp only [poolHelper, hnot, if_false]
  apply consumePool_ok
  · intro task ht a ha
    have : a ∈ (chunks (chunksize args.length (nProcesses cpu)) args).flatten :=
      List.mem_flatten.mpr ⟨task, ht, ha⟩
    rw [hflat] at this
    exact ⟨_, _, hsim a this⟩
  · intro i hi
    have := List.mem_range.mp (hperm.subset hi)
    exact ⟨this, by omega⟩

/-- **pool variant, exactly once.**  For every number of cores, every argument list, every
simulation returning `(elapsed, label)` pairs and every valid schedule of the chunks on the
pool's workers: the multiset of arguments `simulation` was called with is the argument list. -/
theorem helper_runs_each_once_pool (cpu : Nat) (args : List α) (sim : α → Res) (s : Schedule)
    (elapsed label : α → String)
    (hs : s.Valid (chunks (chunksize args.length (nProcesses cpu)) args).length (nProcesses cpu))
    (hsim : ∀ a ∈ args, sim a = .pair (elapsed a) (label a)) :
    ((poolHelper cpu args sim s).calls.map (·.2)).Perm args := by
  obtain ⟨hcalls, _, _⟩ := pool_run cpu args sim s elapsed label hs hsim
  obtain ⟨_, _, _, _, hflat⟩ := chunks_partition cpu args
  rw [hcalls, List.map_flatMap]
  simp only [List.map_map, Function.comp_def, List.map_id']
  refine (List.Perm.flatMap_right _ hs.2.2).trans ?_
  rw [flatMap_range_getElem?, hflat]

/-- **pool variant, returns normally** (the unpacking `for time, nqubit in …` succeeds on every
result, the pool is closed and joined). -/
theorem helper_returns_normally_pool (cpu : Nat) (args : List α) (sim : α → Res) (s : Schedule)
    (elapsed label : α → String)
    (hs : s.Valid (chunks (chunksize args.length (nProcesses cpu)) args).length (nProcesses cpu))
    (hsim : ∀ a ∈ args, sim a = .pair (elapsed a) (label a)) :
    (poolHelper cpu args sim s).outcome = .ok () :=
  (pool_run cpu args sim s elapsed label hs hsim).2.2

/-- the pool variant prints the `(label, elapsed)` line of every argument exactly once -/
theorem pool_prints_each_result_once (cpu : Nat) (args : List α) (sim : α → Res) (s : Schedule)
    (elapsed label : α → String)
    (hs : s.Valid (chunks (chunksize args.length (nProcesses cpu)) args).length (nProcesses cpu))
    (hsim : ∀ a ∈ args, sim a = .pair (elapsed a) (label a)) :
    (poolHelper cpu args sim s).printed.Perm (args.map fun a => (label a, elapsed a)) := by
  obtain ⟨_, hpr, _⟩ := pool_run cpu args sim s elapsed label hs hsim
  obtain ⟨_, _, _, _, hflat⟩ := chunks_partition cpu args
  rw [hpr]
  refine (List.Perm.flatMap_right _ hs.2.2).trans ?_
  rw [flatMap_range_getElem?_comp _ (fun t => (t.map sim).filterMap line?)]
  have : ∀ l : List α, (∀ a ∈ l, a ∈ args) →
      (l.map sim).filterMap line? = l.map fun a => (label a, elapsed a) := by
    intro l hl
    induction l with
    | nil => rfl
    | cons a l ih =>
      have ih' := ih (fun b hb => hl b (by simp [hb]))
      simp [hsim a (hl a (by simp)), line?, ih']
  have h2 : (chunks (chunksize args.length (nProcesses cpu)) args).flatMap
        (fun t => (t.map sim).filterMap line?)
      = (chunks (chunksize args.length (nProcesses cpu)) args).flatMap
        (fun t => t.map fun a => (label a, elapsed a)) := by
    apply List.flatMap_congr
    intro t ht
    apply this
    intro a ha
    have : a ∈ (chunks (chunksize args.length (nProcesses cpu)) args).flatten :=
      List.mem_flatten.mpr ⟨t, ht, ha⟩
    rwa [hflat] at this
  rw [h2, ← List.map_flatMap, List.flatMap_id', hflat]

/-- every call of the pool variant is made by one of the `max(int(0.8·cpu), 2)` pool workers -/
theorem pool_calls_on_pool_workers (cpu : Nat) (args : List α) (sim : α → Res) (s : Schedule)
    (elapsed label : α → String)
    (hs : s.Valid (chunks (chunksize args.length (nProcesses cpu)) args).length (nProcesses cpu))
    (hsim : ∀ a ∈ args, sim a = .pair (elapsed a) (label a)) :
    ∀ c ∈ (poolHelper cpu args sim s).calls, c.1 < nProcesses cpu := by
  obtain ⟨hcalls, _, _⟩ := pool_run cpu args sim s elapsed label hs hsim
  intro c hc
  rw [hcalls] at hc
  obtain ⟨i, hi, hc⟩ := List.mem_flatMap.mp hc
  obtain ⟨a, _, rfl⟩ := List.mem_map.mp hc
  have hlt : i < s.worker.length := by
    have := List.mem_range.mp (hs.2.2.subset hi)
    rw [hs.1]; exact this
  simp only [List.getElem?_eq_getElem hlt, Option.getD_some]
  exact hs.2.1 _ (List.getElem_mem hlt)

/-- **executor variant, exactly once.**  For every `max_workers` (`None` or positive), every
argument list, every simulation that does not raise (whatever it returns) and every valid
schedule of the one-argument tasks: the multiset of arguments called is the argument list. -/
theorem helper_runs_each_once_executor (maxWorkers : Option Int) (cpu : Nat) (args : List α)
    (sim : α → Res) (s : Schedule)
    (hw : ∀ w, maxWorkers = some w → 0 < w)
    (hs : s.Valid args.length (executorWorkers maxWorkers cpu))
    (hsim : ∀ a ∈ args, ∀ e, sim a ≠ .raised e) :
    ((executorHelper maxWorkers args sim s).calls.map (·.2)).Perm args := by
  have hfr : firstRaise (args.map sim) = none := firstRaise_none _ (by
    intro r hr
    obtain ⟨a, ha, rfl⟩ := List.mem_map.mp hr
    exact hsim a ha)
  have hcalls : (executorHelper maxWorkers args sim s).calls = executorCalls args s := by
    unfold executorHelper
    cases maxWorkers with
    | none => simp [hfr]
    | some w =>
      have : ¬ w ≤ 0 := by have := hw w rfl; omega
      simp [this, hfr]
  rw [hcalls, executorCalls_map_snd args s (by
    intro i hi
    have := List.mem_range.mp (hs.2.2.subset hi)
    exact ⟨this, by rw [hs.1]; exact this⟩)]
  refine (List.Perm.flatMap_right _ hs.2.2).trans ?_
  have := flatMap_range_getElem? (args.map fun a => [a])
  rw [List.length_map] at this
  rw [this]
  simp [List.flatten_eq_flatMap, List.flatMap_map]

/-- every call of the executor variant is made by one of the executor's workers -/
theorem executor_calls_on_executor_workers (maxWorkers : Option Int) (cpu : Nat) (args : List α)
    (sim : α → Res) (s : Schedule)
    (hs : s.Valid args.length (executorWorkers maxWorkers cpu)) :
    ∀ c ∈ (executorHelper maxWorkers args sim s).calls, c.1 < executorWorkers maxWorkers cpu := by
  intro c hc
  have hsub : c ∈ executorCalls args s := by
    unfold executorHelper at hc
    cases maxWorkers with
    | none => dsimp only at hc; split at hc <;> exact hc
    | some w =>
      dsimp only at hc
      split at hc
      · simp at hc
      · split at hc <;> exact hc
  exact hs.2.1 _ (executorCalls_worker args s c hsub)

/-- **executor variant, returns normally** (the repaired helper does nothing with the results). -/
theorem helper_returns_normally_executor (maxWorkers : Option Int) (args : List α)
    (sim : α → Res) (s : Schedule)
    (hw : ∀ w, maxWorkers = some w → 0 < w)
    (hsim : ∀ a ∈ args, ∀ e, sim a ≠ .raised e) :
    (executorHelper maxWorkers args sim s).outcome = .ok () := by
  have hfr : firstRaise (args.map sim) = none := firstRaise_none _ (by
    intro r hr
    obtain ⟨a, ha, rfl⟩ := List.mem_map.mp hr
    exact hsim a ha)
  unfold executorHelper
  cases maxWorkers with
  | none => simp [hfr]
  | some w =>
    have : ¬ w ≤ 0 := by have := hw w rfl; omega
    simp [this, hfr]

/-- a non-positive `max_workers` is rejected by the executor before any job runs -/
theorem executor_rejects_nonpositive_workers (w : Int) (hw : w ≤ 0) (args : List α)
    (sim : α → Res) (s : Schedule) :
    (executorHelper (some w) args sim s).calls = [] ∧
      (executorHelper (some w) args sim s).outcome = .error "ValueError" := by
  simp [executorHelper, hw]

/-- **sequential mock, exactly once** — even in order: the list of arguments called, in call
order, IS the argument list (all in the calling process). -/
theorem helper_runs_each_once_mock (args : List α) (sim : α → Res)
    (hsim : ∀ a ∈ args, ∀ e, sim a ≠ .raised e) :
    (mockHelper sim args).calls = args.map (fun a => (0, a)) ∧
      ((mockHelper sim args).calls.map (·.2)).Perm args := by
  have h1 : (mockHelper sim args).calls = args.map (fun a => (0, a)) := by
    induction args with
    | nil => simp [mockHelper]
    | cons a as ih =>
      have ih' := ih (fun b hb => hsim b (by simp [hb]))
      have ha := hsim a (by simp)
      cases hsa : sim a with
      | raised e => exact absurd hsa (ha e)
      | pair t l => simp [mockHelper, hsa, ih']
      | value e => simp [mockHelper, hsa, ih']
  refine ⟨h1, ?_⟩
  rw [h1]
  simp [Function.comp_def]

/-- **sequential mock, returns normally** -/
theorem helper_returns_normally_mock (args : List α) (sim : α → Res)
    (hsim : ∀ a ∈ args, ∀ e, sim a ≠ .raised e) :
    (mockHelper sim args).outcome = .ok () := by
  induction args with
  | nil => simp [mockHelper]
  | cons a as ih =>
    have ih' := ih (fun b hb => hsim b (by simp [hb]))
    have ha := hsim a (by simp)
    cases hsa : sim a with
    | raised e => exact absurd hsa (ha e)
    | pair t l => simp [mockHelper, hsa, ih']
    | value e => simp [mockHelper, hsa, ih']

/-- error behaviour of the mock (why "when every call succeeds" is needed): the first failing call
ends the run, its exception propagates, later arguments are never called. -/
theorem mock_stops_at_first_failure (pre post : List α) (a : α) (e : String) (sim : α → Res)
    (hpre : ∀ b ∈ pre, ∀ e', sim b ≠ .raised e') (ha : sim a = .raised e) :
    (mockHelper sim (pre ++ a :: post)).calls.map (·.2) = pre ++ [a] ∧
      (mockHelper sim (pre ++ a :: post)).outcome = .error e := by
  induction pre with
  | nil => simp [mockHelper, ha]
  | cons b pre ih =>
    obtain ⟨ih1, ih2⟩ := ih (fun x hx => hpre x (by simp [hx]))
    have hb := hpre b (by simp)
    cases hsb : sim b with
    | raised e' => exact absurd hsb (hb e')
    | pair t l => simp [mockHelper, hsb, ih1, ih2]
    | value e' => simp [mockHelper, hsb, ih1, ih2]

/-! ### non-vacuity (helpers) -/

/-- five jobs on a 4-core machine: 3 workers, chunk size 2, chunks `[0,1] [2,3] [4]`; a schedule in
which worker 2 takes the first and worker 0 the two other chunks, completing in the order 1, 2, 0,
is valid; the model then calls `2 3 4 0 1`. -/
example :
    let args := [0, 1, 2, 3, 4]
    let sim : Nat → Res := fun a => .pair (toString a) (toString (10 * a))
    let s : Schedule := ⟨[2, 0, 0], [1, 2, 0]⟩
    nProcesses 4 = 3 ∧ chunksize 5 3 = 2 ∧ chunks 2 args = [[0, 1], [2, 3], [4]] ∧
    s.Valid (chunks (chunksize args.length (nProcesses 4)) args).length (nProcesses 4) ∧
    (∀ a ∈ args, sim a = .pair (toString a) (toString (10 * a))) ∧
    (poolHelper 4 args sim s).calls = [(0, 2), (0, 3), (0, 4), (2, 0), (2, 1)] := by
  have hch : chunks 2 [0, 1, 2, 3, 4] = [[0, 1], [2, 3], [4]] := by
    simp [chunks_of_ne_nil, chunks_of_nil]
  have hn : nProcesses 4 = 3 := by decide
  have hc : chunksize 5 3 = 2 := by decide
  refine ⟨hn, hc, hch, ?_, fun a _ => rfl, ?_⟩
  · rw [← validB_iff]
    simp only [List.length_cons, List.length_nil, hn, hc, hch]
    decide
  · simp only [poolHelper, List.length_cons, List.length_nil, hn, hc, hch]
    decide

/-- a valid executor schedule and a simulation that returns something that is not a pair -/
example :
    let s : Schedule := ⟨[1, 0, 1], [2, 0, 1]⟩
    s.Valid [7, 8, 9].length (executorWorkers (some 2) 16) ∧
    (executorHelper (some 2) [7, 8, 9] (fun _ => Res.value "TypeError") s).calls = [(1, 9), (1, 7), (0, 8)] := by
  refine ⟨?_, by decide⟩
  rw [← validB_iff]
  decide

/-! ## The code as found (defects D13, D14): both statements are false for it -/

/-- D13: with `not all(...)` a merge onto two targets of which one is left over from an earlier
run is NOT refused: the model of the pinned code returns normally and the old content `[9]` of
`t1` is replaced (the repaired model refuses: `merge_refuses`). -/
example :
    let fs : FS ℚ := [("s0", [1]), ("s1", [3]), ("s2", [1]), ("s3", [3]), ("t1", [9])]
    let r := postProcessSplitPinned ratArith fs ["s0", "s1", "s2", "s3"] ["t0", "t1"] 2
    r.2 = .ok () ∧ read r.1 "t1" = some [2] ∧ read fs "t1" = some [9] := by
  decide +kernel

/-- D14: with `concurrent.futures.wait(<results>)` the executor variant raises `AttributeError`
for a single successful job — after the job has run. -/
example :
    let r := executorHelperPinned (some 2) [7] (fun _ => Res.pair "0.1" "7") ⟨[0], [0]⟩
    r.calls = [(0, 7)] ∧ r.outcome = .error "AttributeError" := by
  decide

end QG.C19
