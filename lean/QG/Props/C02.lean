import QG.Model.Optimizer
import QG.Model.Binary
/-! # C02 (stage-1 placeholder; the property theorems follow) -/
namespace QG.C02
open QG.Model.Optimizer

/-- the constructor rejects levels outside 0..4 -/
theorem optimize_level_out_of_range {M2 M4 : Type} (ops : MatOps M2 M4) (level : Int) (nq : Nat)
    (raw : List (Raw M2 M4)) (h : level > 4 ∨ level < 0) : optimize ops level nq raw = .error .value := by
  simp [optimize, h]

end QG.C02
