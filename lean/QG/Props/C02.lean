import QG.Spec.GateAlgebra
import QG.Lemmas.OptimizerRuns
import QG.Lemmas.OptimizerSnippet
import QG.Lemmas.OptimizerRegroup
import QG.Spec.Register
import QG.Lemmas.BinaryApply
import QG.Lemmas.BinaryListOps

/-!
# C02 — gate fusion never changes what a gate list computes

Property theorems only.  Model: `QG/Model/Optimizer.lean`, `QG/Model/Binary.lean` (the code after the
repairs D1-D3); interface: `QG/Spec/GateAlgebra.lean`; helper lemmas: `QG/Lemmas/Optimizer*.lean`.

`S : GateAlgebra ops n Op` is *any* interpretation of one- and two-qubit matrices as elements of a
monoid of `n`-qubit operators that satisfies the gate-algebra laws (`QG.Spec.Register` is the
concrete one: matrices over a commutative semiring, numpy's index convention).  `S.sem l` is the
product of the embeddings of the items of `l` in list order.  `WFList n l`: every qubit `< n`, the two
qubits of a two-qubit item distinct — adjacent or not, ascending or not.
-/
namespace QG.C02
open QG.Model.Optimizer QG.Spec QG.Spec.GateAlgebra QG.Lemmas.Optimizer

section abstract
variable {M2 M4 Op : Type} [Monoid Op] {ops : MatOps M2 M4} {n : Nat}

/-! ### the four levels and `process_snippet` -/

/-- level 1 (merging runs of one-qubit gates on one qubit) preserves the operator -/
theorem sem_level1 (S : GateAlgebra ops n Op) (l : List (Item M2 M4)) (h : WFList n l) :
    S.sem (level1 ops l) = S.sem l := level1_sem S l h

/-- after level 1, adjacent one-qubit items act on different qubits (the precondition of level 2) -/
theorem level1_no_adjacent_same (l : List (Item M2 M4)) : NoAdjSame (level1 ops l) :=
  level1_noAdjSame l

/-- `process_snippet` preserves the operator of every well-formed snippet (a two-qubit gate on a pair
of distinct qubits, any one-qubit gates in front, at most two behind which act on different
qubits) -/
theorem sem_process_snippet (S : GateAlgebra ops n Op) (s : Snippet M2 M4) (h : WFSnippet n s) :
    S.sem (processSnippet ops s) = S.sem s.items := processSnippet_sem S s h

/-- level 2 never raises and preserves the operator, **provided** adjacent one-qubit items act on
different qubits (`hadj`; established by level 1, discharged in `optimize_sem`) -/
theorem sem_level2 (S : GateAlgebra ops n Op) (l : List (Item M2 M4)) (h : WFList n l)
    (hadj : NoAdjSame l) :
    ∃ l', level2 ops l = .ok l' ∧ S.sem l' = S.sem l ∧ l'.length ≤ l.length ∧ WFList n l' :=
  level2_spec S l h hadj

/-- level 3 (merging runs of two-qubit gates on the same ordered pair) preserves the operator -/
theorem sem_level3 (S : GateAlgebra ops n Op) (l : List (Item M2 M4)) (h : WFList n l) :
    S.sem (level3 ops l) = S.sem l := level3_sem S l h

/-- level 4 (regrouping the trailing one-qubit gates per qubit) never raises on a non-empty
well-formed list and preserves the operator; `nq = len(qubit_list)` must cover the qubits -/
theorem sem_level4 (S : GateAlgebra ops n Op) (nq : Nat) (hnq : n ≤ nq) (l : List (Item M2 M4))
    (h : WFList n l) (hne : l ≠ []) :
    ∃ l', level4 ops nq l = .ok l' ∧ S.sem l' = S.sem l ∧ l'.length ≤ l.length ∧ WFList n l' :=
  level4_spec S nq hnq l h hne

/-! ### `Optimizer(level, items, qubit_list).optimize()` -/

/-- **C02, optimizer.**  For every level `0..4`, every qubit count, every `qubit_list` at least as long
as the register and every well-formed list (one-qubit items given as `[q]` or `[q,-1]`), the model of
`optimize` does not raise, and returns a well-formed list that computes the same operator and is not
longer. -/
theorem optimize_sem (S : GateAlgebra ops n Op) (level : Int) (h0 : 0 ≤ level) (h4 : level ≤ 4)
    (nq : Nat) (hnq : n ≤ nq) (raw : List (Raw M2 M4)) (hwf : WFList n (raw.map normalize)) :
    ∃ l', optimize ops level nq raw = .ok l' ∧ S.sem l' = S.sem (raw.map normalize) ∧
      l'.length ≤ raw.length ∧ WFList n l' := by
  have hlvl : ¬ (level > 4 ∨ level < 0) := by omega
  set gl := raw.map normalize with hgl
  have hlen : gl.length = raw.length := by simp [hgl]
  have h1s := level1_sem S gl hwf
  have h1w : WFList n (level1 ops gl) := level1_wf gl hwf
  have h1l := level1_length_le (ops := ops) gl
  obtain ⟨l2, h2, h2s, h2l, h2w⟩ := level2_spec S (level1 ops gl) h1w (level1_noAdjSame gl)
  have h3s := level3_sem S l2 h2w
  have h3w : WFList n (level3 ops l2) := level3_wf l2 h2w
  have h3l := level3_length_le (ops := ops) l2
  unfold optimize
  simp only [hlvl, if_false, ← hgl]
  by_cases c : raw.length ≤ 2 ∨ nq = 1
  · have hl0 : (if raw.length ≤ 2 then (0 : Int) else if nq = 1 then 0 else level) = 0 := by
      rcases c with c | c
      · simp [c]
      · simp [c]
    simp only [hl0, if_true]
    exact ⟨gl, rfl, rfl, by omega, hwf⟩
  · have c1 : ¬ raw.length ≤ 2 := fun h => c (Or.inl h)
    have c2 : ¬ nq = 1 := fun h => c (Or.inr h)
    have hl : (if raw.length ≤ 2 then (0 : Int) else if nq = 1 then 0 else level) = level := by
      simp [c1, c2]
    simp only [hl]
    split_ifs with d0 d1 d2 d3
    · exact ⟨gl, rfl, rfl, by omega, hwf⟩
    · exact ⟨_, rfl, h1s, by omega, h1w⟩
    · exact ⟨l2, h2, by rw [h2s, h1s], by omega, h2w⟩
    · simp only [h2]
      exact ⟨_, rfl, by rw [h3s, h2s, h1s], by omega, h3w⟩
    · simp only [h2]
      have hne : level3 ops l2 ≠ [] := by
        apply level3_ne_nil
        apply level2_ne_nil _ _ h2
        apply level1_ne_nil
        intro hnil
        have hr : raw.length = 0 := by rw [← hlen, hnil]; rfl
        omega
      obtain ⟨l4, h4', h4s, h4l, h4w⟩ := level4_spec S nq hnq (level3 ops l2) h3w hne
      exact ⟨l4, h4', by rw [h4s, h3s, h2s, h1s], by omega, h4w⟩

/-- outside `0..4` the constructor raises `ValueError` -/
theorem optimize_level_out_of_range (level : Int) (nq : Nat) (raw : List (Raw M2 M4))
    (h : level > 4 ∨ level < 0) : optimize ops level nq raw = .error .value := by
  simp [optimize, h]

/-- lists of at most two items and one-qubit layouts are returned unchanged (after rewriting `[q,-1]`) -/
theorem optimize_clamp (level : Int) (h0 : 0 ≤ level) (h4 : level ≤ 4) (nq : Nat) (raw : List (Raw M2 M4))
    (h : raw.length ≤ 2 ∨ nq = 1) : optimize ops level nq raw = .ok (raw.map normalize) := by
  have hlvl : ¬ (level > 4 ∨ level < 0) := by omega
  unfold optimize
  rcases h with h | h <;> simp [hlvl, h]

/-! ### non-vacuity -/

/-- the list that currently fails on the pinned tree (D2) is well-formed for three qubits -/
example (A B : M2) (G : M4) : WFList 3 [Item.one A 0, Item.two G 1 0, Item.one B 2] := by
  simp [WFList, WFItem]

/-- … and so are a list without two-qubit gates that leaves qubit 0 idle (D3) and a trailing run on
one qubit (D1), with `[q,-1]` forms -/
example (A B C : M2) :
    WFList 3 ([Raw.single A 1, Raw.padded B 2, Raw.single C 1].map (normalize (M4 := M4))) := by
  simp [WFList, WFItem, QG.Model.Optimizer.normalize]
example (A B C : M2) :
    WFList 1 ([Raw.single A 0, Raw.padded B 0, Raw.single C 0].map (normalize (M4 := M4))) := by
  simp [WFList, WFItem, QG.Model.Optimizer.normalize]

/-- a well-formed snippet with gates on both sides, reversed pair -/
example (A B C D : M2) (G : M4) :
    WFSnippet 3 (⟨[⟨A, 0⟩, ⟨B, 2⟩], G, 2, 0, [⟨C, 1⟩, ⟨D, 2⟩]⟩ : Snippet M2 M4) :=
  ⟨by simp, by simp, by simp, by simp, by simp, by
    intro a1 a2 h
    simp only [List.cons.injEq, and_true] at h
    obtain ⟨rfl, rfl⟩ := h
    simp⟩

/-- `NoAdjSame` holds for a list with equal qubits that are not adjacent, fails for adjacent ones -/
example (A B : M2) (G : M4) : NoAdjSame [Item.one A 0, Item.two G 0 1, Item.one B 0] := by
  simp [NoAdjSame, oneQ]
example (A B : M2) : ¬ NoAdjSame ([Item.one A 0, Item.one B 0] : List (Item M2 M4)) := by
  simp [NoAdjSame, oneQ]

end abstract

/-! ### the concrete register: the interface is not vacuous, and the statements hold for matrices

`Register.gateAlgebra R n` interprets one- and two-qubit matrices over any commutative semiring `R`
(`ℂ`: the code's intent; the Gaussian integers: what the correspondence runs) as operators on
`n`-qubit states `(Fin n → Bool) → R` in numpy's index convention, and satisfies every gate-algebra
law.  Equality of operators is equality of their action on every state. -/
section register
open QG.Model.Binary QG.Spec.Register QG.Lemmas.Binary
variable {R : Type} [CommSemiring R]

/-- the register is a model of the interface -/
example (n : Nat) : GateAlgebra (matOps R) n (Op R n) := gateAlgebra R n

/-- **C02, optimizer, for matrices**: at every level the returned list acts on every `n`-qubit state
exactly like the input list, is not longer, and nothing is raised. -/
theorem optimize_sem_register (n : Nat) (level : Int) (h0 : 0 ≤ level) (h4 : level ≤ 4)
    (raw : List (Raw (M2 R) (M4 R))) (hwf : WFList n (raw.map normalize)) :
    ∃ l', optimize (matOps R) level n raw = .ok l' ∧ l'.length ≤ raw.length ∧
      ∀ ψ : State R n, (gateAlgebra R n).sem l' ψ = (gateAlgebra R n).sem (raw.map normalize) ψ := by
  obtain ⟨l', h1, h2, h3, _⟩ := optimize_sem (gateAlgebra R n) level h0 h4 n (le_refl n) raw hwf
  exact ⟨l', h1, h3, fun ψ => by rw [h2]⟩

/-! ### the index-based backend -/

/-- `create_sparse` for a one-qubit item `[g, [q]]` on `N` qubits (`q_n_used = range(N)` without `q`):
it raises nothing, and the sum of its triplets applied to a state is the embedding `E1 g q` -/
theorem create_sparse_spec_one (N q : Nat) (hq : q < N) (g : M2 R) :
    ∃ T, createSparse (regEntries R) (Item.one g q) ((List.range N).erase q) [q] N = .ok T ∧
      ∀ psi : List R, psi.length = 2 ^ N →
        spmv (semiringScalar R) (2 ^ N) T psi = .ok (listOf (E1 g ⟨q, hq⟩ (vecOf psi))) :=
  createSparse_one N q hq g

/-- `create_sparse` for a two-qubit item `[g, [a, b]]` on any ordered pair of distinct qubits:
the sum of its triplets applied to a state is the embedding `E2 g a b` -/
theorem create_sparse_spec_two (N a b : Nat) (ha : a < N) (hb : b < N) (hab : a ≠ b) (g : M4 R) :
    ∃ T, createSparse (regEntries R) (Item.two g a b) (((List.range N).erase a).erase b) [a, b] N = .ok T ∧
      ∀ psi : List R, psi.length = 2 ^ N →
        spmv (semiringScalar R) (2 ^ N) T psi = .ok (listOf (E2 g ⟨a, ha⟩ ⟨b, hb⟩ (vecOf psi))) :=
  createSparse_two N a b ha hb hab g

/-- `create_dense` on a one-qubit register assembles the matrix of `E1 g 0` (`E1_eq_matrix`: with no
other qubit the entry `(x, y)` of the embedding is `g (x 0) (y 0)`) -/
theorem create_dense_spec_one (g : M2 R) :
    createDense (regEntries R) (Item.one g 0) [] [0] 1 =
      .ok ((List.range (2 ^ 1)).map fun i => (List.range (2 ^ 1)).map fun j =>
        g (bitsFn 1 i (0 : Fin 1)) (bitsFn 1 j (0 : Fin 1))) :=
  createDense_one g

/-- `create_dense` for a two-qubit gate on a two-qubit register, either order of the pair, assembles
the matrix of `E2 g a b` (entry `(x, y)` = `g (x a, x b) (y a, y b)`) -/
theorem create_dense_spec_two (g : M4 R) (a b : Fin 2) (hab : a ≠ b) :
    createDense (regEntries R) (Item.two g a.val b.val) [] [a.val, b.val] 2 =
      .ok ((List.range (2 ^ 2)).map fun i => (List.range (2 ^ 2)).map fun j =>
        g (bitsFn 2 i a, bitsFn 2 i b) (bitsFn 2 j a, bitsFn 2 j b)) :=
  createDense_two g a b hab

/-- one pass of `for item in mp_list_opt:` (dense or sparse, whichever the code picks) applies the
embedding of the item to the state and raises nothing -/
theorem apply_item_spec (N : Nat) (item : Item (M2 R) (M4 R)) (hwf : WFItem N item) (psi : List R)
    (hpsi : psi.length = 2 ^ N) :
    applyItem (semiringScalar R) (regEntries R) N psi item =
      .ok (listOf ((gateAlgebra R N).item item (vecOf psi))) :=
  applyItem_spec N item hwf psi hpsi

/-- **C02, backend.**  For every qubit count, every non-empty well-formed list and every state vector
of length `2^N`, `BinaryBackend(N).statevector` raises nothing and returns exactly the state obtained
by applying the items one after another. -/
theorem binary_spec (N : Nat) (raw : List (Raw (M2 R) (M4 R))) (hwf : WFList N (raw.map normalize))
    (hne : raw ≠ []) (psi : List R) (hpsi : psi.length = 2 ^ N) :
    statevector (semiringScalar R) (matOps R) (regEntries R) N raw psi =
      .ok (listOf ((gateAlgebra R N).sem (raw.map normalize) (vecOf psi))) := by
  obtain ⟨l', h1, h2, _, h4⟩ := optimize_sem (gateAlgebra R N) 4 (by norm_num) (le_refl _) N (le_refl N) raw hwf
  unfold statevector
  have : raw.isEmpty = false := by
    cases raw with
    | nil => exact absurd rfl hne
    | cons x xs => rfl
  simp only [this, Bool.false_eq_true, if_false, h1]
  rw [applyItems_spec N l' h4 psi hpsi, h2]

/-- an empty list is refused (`assert len(mp_list) > 0`) -/
theorem binary_empty (N : Nat) (psi : List R) :
    statevector (semiringScalar R) (matOps R) (regEntries R) N [] psi = .error .assertion := rfl

/-- non-vacuity of `binary_spec`: a reversed, non-adjacent pair with one-qubit gates around it on three
qubits, `[q,-1]` form included, and a state vector of the right length -/
example (A B : M2 R) (G : M4 R) :
    WFList 3 ([Raw.single A 0, Raw.pair G 2 0, Raw.padded B 1].map normalize) ∧
      ([Raw.single A 0, Raw.pair G 2 0, Raw.padded B 1] : List (Raw (M2 R) (M4 R))) ≠ [] ∧
      (List.replicate 8 (1 : R)).length = 2 ^ 3 := by
  refine ⟨by simp [WFList, WFItem, QG.Model.Optimizer.normalize], by simp, by simp⟩

/-! ### the same statements for exactly what the model driver executes

The correspondence runs `optimize (listOps gint)` and `statevector gint (listOps gint) (listEntries gint)`:
matrices as lists of rows, scalars as pairs of integers.  `listGateAlgebra` interprets such a matrix through
its entries (`toM2`, `toM4`) and is a gate algebra for the list arithmetic (`Mat.identity`, `Mat.mul`,
`Mat.kron2`), and `gint` is the scalar dictionary of the ring `ℤ[i]` on `Int × Int` (`gint_eq`), so the
functions the driver runs satisfy the property — not just an idealised copy of them. -/

/-- the optimizer as the driver runs it (list-of-rows matrices over any commutative semiring) -/
theorem optimize_sem_driver (n : Nat) (level : Int) (h0 : 0 ≤ level) (h4 : level ≤ 4)
    (raw : List (Raw (Mat R) (Mat R))) (hwf : WFList n (raw.map normalize)) :
    ∃ l', optimize (listOps (semiringScalar R)) level n raw = .ok l' ∧ l'.length ≤ raw.length ∧ WFList n l' ∧
      (listGateAlgebra R n).sem l' = (listGateAlgebra R n).sem (raw.map normalize) := by
  obtain ⟨l', h1, h2, h3, h4'⟩ := optimize_sem (listGateAlgebra R n) level h0 h4 n (le_refl n) raw hwf
  exact ⟨l', h1, h3, h4', h2⟩

/-- the backend as the driver runs it -/
theorem binary_spec_driver (N : Nat) (raw : List (Raw (Mat R) (Mat R))) (hwf : WFList N (raw.map normalize))
    (hne : raw ≠ []) (psi : List R) (hpsi : psi.length = 2 ^ N) :
    statevector (semiringScalar R) (listOps (semiringScalar R)) (listEntries (semiringScalar R)) N raw psi =
      .ok (listOf ((listGateAlgebra R N).sem (raw.map normalize) (vecOf psi))) := by
  obtain ⟨l', h1, h2, _, h4⟩ :=
    optimize_sem (listGateAlgebra R N) 4 (by norm_num) (le_refl _) N (le_refl N) raw hwf
  unfold statevector
  have : raw.isEmpty = false := by
    cases raw with
    | nil => exact absurd rfl hne
    | cons x xs => rfl
  simp only [this, Bool.false_eq_true, if_false, h1]
  rw [applyItems_list N l' h4 psi hpsi, h2]

/-- … over the Gaussian integers `Int × Int` with the driver's own `gint` operations -/
theorem binary_spec_gint (N : Nat) (raw : List (Raw (Mat GInt) (Mat GInt)))
    (hwf : WFList N (raw.map normalize)) (hne : raw ≠ []) (psi : List GInt) (hpsi : psi.length = 2 ^ N) :
    letI : CommSemiring GInt := gintCommRing.toCommSemiring
    statevector gint (listOps gint) (listEntries gint) N raw psi =
      .ok (listOf ((listGateAlgebra GInt N).sem (raw.map normalize) (vecOf psi))) := by
  rw [gint_eq]
  exact @binary_spec_driver GInt gintCommRing.toCommSemiring N raw hwf hne psi hpsi

/-- … and the optimizer over the Gaussian integers -/
theorem optimize_sem_gint (n : Nat) (level : Int) (h0 : 0 ≤ level) (h4 : level ≤ 4)
    (raw : List (Raw (Mat GInt) (Mat GInt))) (hwf : WFList n (raw.map normalize)) :
    letI : CommSemiring GInt := gintCommRing.toCommSemiring
    ∃ l', optimize (listOps gint) level n raw = .ok l' ∧ l'.length ≤ raw.length ∧ WFList n l' ∧
      (listGateAlgebra GInt n).sem l' = (listGateAlgebra GInt n).sem (raw.map normalize) := by
  rw [gint_eq]
  exact @optimize_sem_driver GInt gintCommRing.toCommSemiring n level h0 h4 raw hwf

end register

end QG.C02
