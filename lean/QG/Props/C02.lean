import QG.Spec.GateAlgebra
import QG.Lemmas.OptimizerRuns
import QG.Lemmas.OptimizerSnippet
import QG.Lemmas.OptimizerRegroup

/-!
# C02 — gate fusion never changes what a gate list computes

Property theorems only.  Model: `QG/Model/Optimizer.lean`, `QG/Model/Binary.lean` (the code after the
repairs D1-D3); interface: `QG/Spec/GateAlgebra.lean`; helper lemmas: `QG/Lemmas/Optimizer*.lean`.

`S : GateAlgebra ops n Op` is *any* interpretation of one- and two-qubit matrices as elements of a
monoid of `n`-qubit operators that satisfies the gate-algebra laws (`QG.Spec.Register` is the
concrete one: matrices over a commutative semiring, numpy's index convention).  `S.sem l` is the
product of the embeddings of the items of `l` in list order.  `WFList n l`: every qubit `< n`, the two
qubits of a two-qubit item distinct — adjacent or not, ascending or not.
-/
namespace QG.C02
open QG.Model.Optimizer QG.Spec QG.Spec.GateAlgebra QG.Lemmas.Optimizer

variable {M2 M4 Op : Type} [Monoid Op] {ops : MatOps M2 M4} {n : Nat}

/-! ### the four levels and `process_snippet` -/

/-- level 1 (merging runs of one-qubit gates on one qubit) preserves the operator -/
theorem sem_level1 (S : GateAlgebra ops n Op) (l : List (Item M2 M4)) (h : WFList n l) :
    S.sem (level1 ops l) = S.sem l := level1_sem S l h

/-- after level 1, adjacent one-qubit items act on different qubits (the precondition of level 2) -/
theorem level1_no_adjacent_same (l : List (Item M2 M4)) : NoAdjSame (level1 ops l) :=
  level1_noAdjSame l

/-- `process_snippet` preserves the operator of every well-formed snippet (a two-qubit gate on a pair
of distinct qubits, any one-qubit gates in front, at most two behind which act on different
qubits) -/
theorem sem_process_snippet (S : GateAlgebra ops n Op) (s : Snippet M2 M4) (h : WFSnippet n s) :
    S.sem (processSnippet ops s) = S.sem s.items := processSnippet_sem S s h

/-- level 2 never raises and preserves the operator, **provided** adjacent one-qubit items act on
different qubits (`hadj`; established by level 1, discharged in `optimize_sem`) -/
theorem sem_level2 (S : GateAlgebra ops n Op) (l : List (Item M2 M4)) (h : WFList n l)
    (hadj : NoAdjSame l) :
    ∃ l', level2 ops l = .ok l' ∧ S.sem l' = S.sem l ∧ l'.length ≤ l.length ∧ WFList n l' :=
  level2_spec S l h hadj

/-- level 3 (merging runs of two-qubit gates on the same ordered pair) preserves the operator -/
theorem sem_level3 (S : GateAlgebra ops n Op) (l : List (Item M2 M4)) (h : WFList n l) :
    S.sem (level3 ops l) = S.sem l := level3_sem S l h

/-- level 4 (regrouping the trailing one-qubit gates per qubit) never raises on a non-empty
well-formed list and preserves the operator; `nq = len(qubit_list)` must cover the qubits -/
theorem sem_level4 (S : GateAlgebra ops n Op) (nq : Nat) (hnq : n ≤ nq) (l : List (Item M2 M4))
    (h : WFList n l) (hne : l ≠ []) :
    ∃ l', level4 ops nq l = .ok l' ∧ S.sem l' = S.sem l ∧ l'.length ≤ l.length ∧ WFList n l' :=
  level4_spec S nq hnq l h hne

/-! ### `Optimizer(level, items, qubit_list).optimize()` -/

/-- **C02, optimizer.**  For every level `0..4`, every qubit count, every `qubit_list` at least as long
as the register and every well-formed list (one-qubit items given as `[q]` or `[q,-1]`), the model of
`optimize` does not raise, and returns a well-formed list that computes the same operator and is not
longer. -/
theorem optimize_sem (S : GateAlgebra ops n Op) (level : Int) (h0 : 0 ≤ level) (h4 : level ≤ 4)
    (nq : Nat) (hnq : n ≤ nq) (raw : List (Raw M2 M4)) (hwf : WFList n (raw.map normalize)) :
    ∃ l', optimize ops level nq raw = .ok l' ∧ S.sem l' = S.sem (raw.map normalize) ∧
      l'.length ≤ raw.length ∧ WFList n l' := by
  have hlvl : ¬ (level > 4 ∨ level < 0) := by omega
  set gl := raw.map normalize with hgl
  have hlen : gl.length = raw.length := by simp [hgl]
  have h1s := level1_sem S gl hwf
  have h1w : WFList n (level1 ops gl) := level1_wf gl hwf
  have h1l := level1_length_le (ops := ops) gl
  obtain ⟨l2, h2, h2s, h2l, h2w⟩ := level2_spec S (level1 ops gl) h1w (level1_noAdjSame gl)
  have h3s := level3_sem S l2 h2w
  have h3w : WFList n (level3 ops l2) := level3_wf l2 h2w
  have h3l := level3_length_le (ops := ops) l2
  unfold optimize
  simp only [hlvl, if_false, ← hgl]
  by_cases c : raw.length ≤ 2 ∨ nq = 1
  · have hl0 : (if raw.length ≤ 2 then (0 : Int) else if nq = 1 then 0 else level) = 0 := by
      rcases c with c | c
      · simp [c]
      · simp [c]
    simp only [hl0, if_true]
    exact ⟨gl, rfl, rfl, by omega, hwf⟩
  · have c1 : ¬ raw.length ≤ 2 := fun h => c (Or.inl h)
    have c2 : ¬ nq = 1 := fun h => c (Or.inr h)
    have hl : (if raw.length ≤ 2 then (0 : Int) else if nq = 1 then 0 else level) = level := by
      simp [c1, c2]
    simp only [hl]
    split_ifs with d0 d1 d2 d3
    · exact ⟨gl, rfl, rfl, by omega, hwf⟩
    · exact ⟨_, rfl, h1s, by omega, h1w⟩
    · exact ⟨l2, h2, by rw [h2s, h1s], by omega, h2w⟩
    · simp only [h2]
      exact ⟨_, rfl, by rw [h3s, h2s, h1s], by omega, h3w⟩
    · simp only [h2]
      have hne : level3 ops l2 ≠ [] := by
        apply level3_ne_nil
        apply level2_ne_nil _ _ h2
        apply level1_ne_nil
        intro hnil
        have hr : raw.length = 0 := by rw [← hlen, hnil]; rfl
        omega
      obtain ⟨l4, h4', h4s, h4l, h4w⟩ := level4_spec S nq hnq (level3 ops l2) h3w hne
      exact ⟨l4, h4', by rw [h4s, h3s, h2s, h1s], by omega, h4w⟩

/-- outside `0..4` the constructor raises `ValueError` -/
theorem optimize_level_out_of_range (level : Int) (nq : Nat) (raw : List (Raw M2 M4))
    (h : level > 4 ∨ level < 0) : optimize ops level nq raw = .error .value := by
  simp [optimize, h]

/-- lists of at most two items and one-qubit layouts are returned unchanged (after rewriting `[q,-1]`) -/
theorem optimize_clamp (level : Int) (h0 : 0 ≤ level) (h4 : level ≤ 4) (nq : Nat) (raw : List (Raw M2 M4))
    (h : raw.length ≤ 2 ∨ nq = 1) : optimize ops level nq raw = .ok (raw.map normalize) := by
  have hlvl : ¬ (level > 4 ∨ level < 0) := by omega
  unfold optimize
  rcases h with h | h <;> simp [hlvl, h]

/-! ### non-vacuity -/

/-- the list that currently fails on the pinned tree (D2) is well-formed for three qubits -/
example (A B : M2) (G : M4) : WFList 3 [Item.one A 0, Item.two G 1 0, Item.one B 2] := by
  simp [WFList, WFItem]

/-- … and so are a list without two-qubit gates that leaves qubit 0 idle (D3) and a trailing run on
one qubit (D1), with `[q,-1]` forms -/
example (A B C : M2) :
    WFList 3 ([Raw.single A 1, Raw.padded B 2, Raw.single C 1].map (normalize (M4 := M4))) := by
  simp [WFList, WFItem, QG.Model.Optimizer.normalize]
example (A B C : M2) :
    WFList 1 ([Raw.single A 0, Raw.padded B 0, Raw.single C 0].map (normalize (M4 := M4))) := by
  simp [WFList, WFItem, QG.Model.Optimizer.normalize]

/-- a well-formed snippet with gates on both sides, reversed pair -/
example (A B C D : M2) (G : M4) :
    WFSnippet 3 (⟨[⟨A, 0⟩, ⟨B, 2⟩], G, 2, 0, [⟨C, 1⟩, ⟨D, 2⟩]⟩ : Snippet M2 M4) :=
  ⟨by simp, by simp, by simp, by simp, by simp, by
    intro a1 a2 h
    simp only [List.cons.injEq, and_true] at h
    obtain ⟨rfl, rfl⟩ := h
    simp⟩

/-- `NoAdjSame` holds for a list with equal qubits that are not adjacent, fails for adjacent ones -/
example (A B : M2) (G : M4) : NoAdjSame [Item.one A 0, Item.two G 0 1, Item.one B 0] := by
  simp [NoAdjSame, oneQ]
example (A B : M2) : ¬ NoAdjSame ([Item.one A 0, Item.one B 0] : List (Item M2 M4)) := by
  simp [NoAdjSame, oneQ]

end QG.C02
