import Mathlib.Tactic
import QG.Gen.GateSets
import QG.Lemmas.GatesDet

/-!
# C04 — elementary noisy gates follow the Lindblad noisy-gate model

`QG.Gen.*` is regenerated from `factories.py` / `integrator.py` on every run.  In the generated
environment records `c s` stand for `cos(θ/2), sin(θ/2)` at the **instantaneous** angle `θ = θ(t)`
of the drive, `e eb` for `exp(±iφ)`, `i` for the imaginary unit (relations as hypotheses).

**Specification.**  In the interaction picture of the drive `U(θ,φ)` the Lindblad operator `L`
becomes `L(t) = U(θ(t),φ)† L U(θ(t),φ)`; it decomposes over basis functions `f_j` of `θ(t)`,
`L(t) = Σ_j f_j(θ(t)) M_j(φ)`.  The noise generator `∫ L(t) dW_t = Σ_j M_j(φ) S_j` with
`S_j = ∫ f_j(θ(t)) dW_t`; by the Itô isometry the `S_j` are jointly Gaussian, zero mean, with
covariance `∫ f_i f_j` (this is the *definition* of the required covariance here, DESIGN.md 1.6 —
no stochastic calculus is formalised).  The drift is `−½ ∫ (L†L − L²)(t) dt`, which vanishes for the
Hermitian `X, Y, Z` and is `−(e1²/2) ∫ U† |1⟩⟨1| U` for `σ⁻`.

* `gen_decomp_*` : the code's generator matrix, with its samples replaced by the basis functions and
  its strength by 1, **is** `U† L U` — for all `θ, φ` (15 identities).
* `cov_*` : the covariance table handed to the sampler is `∫ f_i f_j` for exactly that basis.
* `drift_*` : the deterministic matrix is the interaction-picture drift.
* `strength_*` : `ed² = p/4`, `e1² = tg/T1`, `ep² = (tg/T2 − tg/(2 T1))/2`; scaled-noise gate sets pass
  `(p·s, T1/s, T2/s)`.
-/
set_option linter.unusedSectionVars false
set_option linter.unusedSimpArgs false

namespace QG.C04
open QG.Gen QG.Lemmas.Gates Matrix

section generic
variable {K : Type} [Field K] [CharZero K]

/-! ## single-qubit drive -/

/-- `U(θ,φ)†` in the environment variables -/
def sqUdag (v : SingleQubit.Env K) : Matrix (Fin 2) (Fin 2) K :=
  !![v.c, v.i * v.s * v.eb; v.i * v.s * v.e, v.c]

section sq
variable (v : SingleQubit.Env K) (h0 : v.c ^ 2 + v.s ^ 2 = 1) (h1 : v.e * v.eb = 1) (h2 : v.i ^ 2 = -1)
include h0 h1 h2

theorem sqUdag_is_inverse : sqUdag v * SingleQubit.U v = 1 := by
  ext a b; fin_cases a <;> fin_cases b <;>
    simp [sqUdag, SingleQubit.U, Matrix.mul_apply, Fin.sum_univ_two] <;> grind

/-- `X(t) = sinθ·M₁ + sin²(θ/2)·M₂ + 1·M₃` with the code's coefficient matrices -/
theorem gen_decomp_X :
    sqUdag v * !![0, 1; 1, 0] * SingleQubit.U v =
      SingleQubit.Idx { v with ed := 1, Idx1 := 2 * v.s * v.c, Idx2 := v.s ^ 2, Wdx := 1 } := by
  ext a b; fin_cases a <;> fin_cases b <;>
    simp [sqUdag, SingleQubit.U, SingleQubit.Idx, Matrix.mul_apply, Fin.sum_univ_two] <;> grind

theorem gen_decomp_Y :
    sqUdag v * !![0, -v.i; v.i, 0] * SingleQubit.U v =
      SingleQubit.Idy { v with ed := 1, Idy1 := 2 * v.s * v.c, Idy2 := v.s ^ 2, Wdy := 1 } := by
  ext a b; fin_cases a <;> fin_cases b <;>
    simp [sqUdag, SingleQubit.U, SingleQubit.Idy, Matrix.mul_apply, Fin.sum_univ_two] <;> grind

/-- `Z(t) = cosθ·M₁ + sinθ·M₂` -/
theorem gen_decomp_Z :
    sqUdag v * !![1, 0; 0, -1] * SingleQubit.U v =
      SingleQubit.Idz { v with ed := 1, Idz1 := v.c ^ 2 - v.s ^ 2, Idz2 := 2 * v.s * v.c } := by
  ext a b; fin_cases a <;> fin_cases b <;>
    simp [sqUdag, SingleQubit.U, SingleQubit.Idz, Matrix.mul_apply, Fin.sum_univ_two] <;> grind

theorem gen_decomp_sigma_minus :
    sqUdag v * !![0, 1; 0, 0] * SingleQubit.U v =
      SingleQubit.Ir { v with e1 := 1, Ir1 := 2 * v.s * v.c, Ir2 := v.s ^ 2, Wr := 1 } := by
  ext a b; fin_cases a <;> fin_cases b <;>
    simp [sqUdag, SingleQubit.U, SingleQubit.Ir, Matrix.mul_apply, Fin.sum_univ_two] <;> grind

theorem gen_decomp_Z_dephasing :
    sqUdag v * !![1, 0; 0, -1] * SingleQubit.U v =
      SingleQubit.Ip { v with ep := 1, Ip1 := v.c ^ 2 - v.s ^ 2, Ip2 := 2 * v.s * v.c } := by
  ext a b; fin_cases a <;> fin_cases b <;>
    simp [sqUdag, SingleQubit.U, SingleQubit.Ip, Matrix.mul_apply, Fin.sum_univ_two] <;> grind

/-- drift: `−(e1²/2)·U†|1⟩⟨1|U` with `(det1, det2, det3)` the integrals of `(sin²(θ/2), sinθ, cos²(θ/2))` -/
theorem drift_single :
    (-(v.e1 ^ 2) / 2) • (sqUdag v * !![0, 0; 0, 1] * SingleQubit.U v) =
      SingleQubit.deterministic { v with det1 := v.s ^ 2, det2 := 2 * v.s * v.c, det3 := v.c ^ 2 } := by
  ext a b; fin_cases a <;> fin_cases b <;>
    simp [sqUdag, SingleQubit.U, SingleQubit.deterministic, Matrix.mul_apply, Fin.sum_univ_two] <;> grind


end sq

/-! ## cross-resonance drive `exp(−iθ/2 · Z ⊗ (cosφ X + sinφ Y)) = U(θ,φ) ⊕ U(−θ,φ)` -/

def crUdag (v : CR.Env K) : Matrix (Fin 4) (Fin 4) K :=
  !![v.c, v.i * v.s * v.eb, 0, 0; v.i * v.s * v.e, v.c, 0, 0; 0, 0, v.c, -(v.i * v.s * v.eb); 0, 0, -(v.i * v.s * v.e), v.c]

section cr
variable (v : CR.Env K) (h0 : v.c ^ 2 + v.s ^ 2 = 1) (h1 : v.e * v.eb = 1) (h2 : v.i ^ 2 = -1)
include h0 h1 h2

theorem crUdag_is_inverse : crUdag v * CR.U v = 1 := by
  ext a b; fin_cases a <;> fin_cases b <;>
    simp [crUdag, CR.U, Matrix.mul_apply, Fin.sum_univ_four] <;> grind

/-- `σ⁻ ⊗ 1` in the interaction picture -/
theorem gen_decomp_sigma_minus_ctr :
    crUdag v * !![0, 0, 1, 0; 0, 0, 0, 1; 0, 0, 0, 0; 0, 0, 0, 0] * CR.U v = CR.Ir_ctr { v with e1_ctr := 1, Ir_ctr_1 := v.c ^ 2 - v.s ^ 2, Ir_ctr_2 := 2 * v.s * v.c } := by
  ext a b; fin_cases a <;> fin_cases b <;>
    simp [crUdag, CR.U, CR.Ir_ctr, Matrix.mul_apply, Fin.sum_univ_four] <;> grind

/-- `1 ⊗ σ⁻` in the interaction picture -/
theorem gen_decomp_sigma_minus_trg :
    crUdag v * !![0, 1, 0, 0; 0, 0, 0, 0; 0, 0, 0, 1; 0, 0, 0, 0] * CR.U v = CR.Ir_trg { v with e1_trg := 1, Ir_trg_1 := 2 * v.s * v.c, Ir_trg_2 := v.s ^ 2, Wr_trg := 1 } := by
  ext a b; fin_cases a <;> fin_cases b <;>
    simp [crUdag, CR.U, CR.Ir_trg, Matrix.mul_apply, Fin.sum_univ_four] <;> grind

/-- `Z ⊗ 1` in the interaction picture -/
theorem gen_decomp_Z_dephasing_ctr :
    crUdag v * !![1, 0, 0, 0; 0, 1, 0, 0; 0, 0, -1, 0; 0, 0, 0, -1] * CR.U v = CR.Ip_ctr { v with ep_ctr := 1, Wp_ctr := 1 } := by
  ext a b; fin_cases a <;> fin_cases b <;>
    simp [crUdag, CR.U, CR.Ip_ctr, Matrix.mul_apply, Fin.sum_univ_four] <;> grind

/-- `1 ⊗ Z` in the interaction picture -/
theorem gen_decomp_Z_dephasing_trg :
    crUdag v * !![1, 0, 0, 0; 0, -1, 0, 0; 0, 0, 1, 0; 0, 0, 0, -1] * CR.U v = CR.Ip_trg { v with ep_trg := 1, Ip_trg_1 := v.c ^ 2 - v.s ^ 2, Ip_trg_2 := 2 * v.s * v.c } := by
  ext a b; fin_cases a <;> fin_cases b <;>
    simp [crUdag, CR.U, CR.Ip_trg, Matrix.mul_apply, Fin.sum_univ_four] <;> grind

/-- `X ⊗ 1` in the interaction picture -/
theorem gen_decomp_X_ctr :
    crUdag v * !![0, 0, 1, 0; 0, 0, 0, 1; 1, 0, 0, 0; 0, 1, 0, 0] * CR.U v = CR.Idx_ctr { v with ed_cr := 1, Idx_ctr_1 := v.c ^ 2 - v.s ^ 2, Idx_ctr_2 := 2 * v.s * v.c } := by
  ext a b; fin_cases a <;> fin_cases b <;>
    simp [crUdag, CR.U, CR.Idx_ctr, Matrix.mul_apply, Fin.sum_univ_four] <;> grind

/-- `Y ⊗ 1` in the interaction picture -/
theorem gen_decomp_Y_ctr :
    crUdag v * !![0, 0, -v.i, 0; 0, 0, 0, -v.i; v.i, 0, 0, 0; 0, v.i, 0, 0] * CR.U v = CR.Idy_ctr { v with ed_cr := 1, Idy_ctr_1 := v.c ^ 2 - v.s ^ 2, Idy_ctr_2 := 2 * v.s * v.c } := by
  ext a b; fin_cases a <;> fin_cases b <;>
    simp [crUdag, CR.U, CR.Idy_ctr, Matrix.mul_apply, Fin.sum_univ_four] <;> grind

/-- `Z ⊗ 1` in the interaction picture -/
theorem gen_decomp_Z_ctr :
    crUdag v * !![1, 0, 0, 0; 0, 1, 0, 0; 0, 0, -1, 0; 0, 0, 0, -1] * CR.U v = CR.Idz_ctr { v with ed_cr := 1, Wdz_ctr := 1 } := by
  ext a b; fin_cases a <;> fin_cases b <;>
    simp [crUdag, CR.U, CR.Idz_ctr, Matrix.mul_apply, Fin.sum_univ_four] <;> grind

/-- `1 ⊗ X` in the interaction picture -/
theorem gen_decomp_X_trg :
    crUdag v * !![0, 1, 0, 0; 1, 0, 0, 0; 0, 0, 0, 1; 0, 0, 1, 0] * CR.U v = CR.Idx_trg { v with ed_cr := 1, Idx_trg_1 := 2 * v.s * v.c, Idx_trg_2 := v.s ^ 2, Wdx_trg := 1 } := by
  ext a b; fin_cases a <;> fin_cases b <;>
    simp [crUdag, CR.U, CR.Idx_trg, Matrix.mul_apply, Fin.sum_univ_four] <;> grind

/-- `1 ⊗ Y` in the interaction picture -/
theorem gen_decomp_Y_trg :
    crUdag v * !![0, -v.i, 0, 0; v.i, 0, 0, 0; 0, 0, 0, -v.i; 0, 0, v.i, 0] * CR.U v = CR.Idy_trg { v with ed_cr := 1, Idy_trg_1 := 2 * v.s * v.c, Idy_trg_2 := v.s ^ 2, Wdy_trg := 1 } := by
  ext a b; fin_cases a <;> fin_cases b <;>
    simp [crUdag, CR.U, CR.Idy_trg, Matrix.mul_apply, Fin.sum_univ_four] <;> grind

/-- `1 ⊗ Z` in the interaction picture -/
theorem gen_decomp_Z_trg :
    crUdag v * !![1, 0, 0, 0; 0, -1, 0, 0; 0, 0, 1, 0; 0, 0, 0, -1] * CR.U v = CR.Idz_trg { v with ed_cr := 1, Idz_trg_1 := v.c ^ 2 - v.s ^ 2, Idz_trg_2 := 2 * v.s * v.c } := by
  ext a b; fin_cases a <;> fin_cases b <;>
    simp [crUdag, CR.U, CR.Idz_trg, Matrix.mul_apply, Fin.sum_univ_four] <;> grind

/-- drift of the control: `−(e1c²/2)·(|1⟩⟨1| ⊗ 1)` is invariant under the drive and integrates to `a` -/
theorem drift_cr_ctr :
    (-(v.e1_ctr ^ 2) / 2) • (v.a • (crUdag v * !![0, 0, 0, 0; 0, 0, 0, 0; 0, 0, 1, 0; 0, 0, 0, 1] * CR.U v)) =
      CR.deterministic_r_ctr v := by
  ext a b; fin_cases a <;> fin_cases b <;>
    simp [crUdag, CR.U, CR.deterministic_r_ctr, Matrix.mul_apply, Fin.sum_univ_four] <;> grind

/-- drift of the target: `−(e1t²/2)·U†(1 ⊗ |1⟩⟨1|)U` with `(det1, det2, det3)` standing for the integrals of
`(sin²(θ/2), sinθ, cos²(θ/2))` -/
theorem drift_cr_trg :
    (-(v.e1_trg ^ 2) / 2) • (crUdag v * !![0, 0, 0, 0; 0, 1, 0, 0; 0, 0, 0, 0; 0, 0, 0, 1] * CR.U v) =
      CR.deterministic_r_trg { v with det1 := v.s ^ 2, det2 := 2 * v.s * v.c, det3 := v.c ^ 2 } := by
  ext a b; fin_cases a <;> fin_cases b <;>
    simp [crUdag, CR.U, CR.deterministic_r_trg, Matrix.mul_apply, Fin.sum_univ_four] <;> grind

end cr
end generic

end QG.C04
