import Mathlib.Tactic
import QG.Gen.GateSets
import QG.Lemmas.GatesDet
import QG.Lemmas.RelaxationChannel
import QG.Lemmas.Integrator
import QG.Lemmas.ExactSamplers

/-!
# C04 — elementary noisy gates follow the Lindblad noisy-gate model

`QG.Gen.*` is regenerated from `factories.py` / `integrator.py` on every run.  In the generated
environment records `c s` stand for `cos(θ/2), sin(θ/2)` at the **instantaneous** angle `θ = θ(t)`
of the drive, `e eb` for `exp(±iφ)`, `i` for the imaginary unit (relations as hypotheses).

**Specification.**  In the interaction picture of the drive `U(θ,φ)` the Lindblad operator `L`
becomes `L(t) = U(θ(t),φ)† L U(θ(t),φ)`; it decomposes over basis functions `f_j` of `θ(t)`,
`L(t) = Σ_j f_j(θ(t)) M_j(φ)`.  The noise generator `∫ L(t) dW_t = Σ_j M_j(φ) S_j` with
`S_j = ∫ f_j(θ(t)) dW_t`; by the Itô isometry the `S_j` are jointly Gaussian, zero mean, with
covariance `∫ f_i f_j` (this is the *definition* of the required covariance here, DESIGN.md 1.6 —
no stochastic calculus is formalised).  The drift is `−½ ∫ (L†L − L²)(t) dt`, which vanishes for the
Hermitian `X, Y, Z` and is `−(e1²/2) ∫ U† |1⟩⟨1| U` for `σ⁻`.

* `gen_decomp_*` : the code's generator matrix, with its samples replaced by the basis functions and
  its strength by 1, **is** `U† L U` — for all `θ, φ` (15 identities).
* `cov_*` : the covariance table handed to the sampler is `∫ f_i f_j` for exactly that basis.
* `drift_*` : the deterministic matrix is the interaction-picture drift.
* `strength_*` : `ed² = p/4`, `e1² = tg/T1`, `ep² = (tg/T2 − tg/(2 T1))/2`; scaled-noise gate sets pass
  `(p·s, T1/s, T2/s)`.
-/
set_option linter.unusedSectionVars false
set_option linter.unusedSimpArgs false

namespace QG.C04
open QG.Gen QG.Lemmas.Gates Matrix

section generic
variable {K : Type} [Field K] [CharZero K]

/-! ## single-qubit drive -/

/-- `U(θ,φ)†` in the environment variables -/
def sqUdag (v : SingleQubit.Env K) : Matrix (Fin 2) (Fin 2) K :=
  !![v.c, v.i * v.s * v.eb; v.i * v.s * v.e, v.c]

section sq
variable (v : SingleQubit.Env K) (h0 : v.c ^ 2 + v.s ^ 2 = 1) (h1 : v.e * v.eb = 1) (h2 : v.i ^ 2 = -1)
include h0 h1 h2

theorem sqUdag_is_inverse : sqUdag v * SingleQubit.U v = 1 := by
  ext a b; fin_cases a <;> fin_cases b <;>
    simp [sqUdag, SingleQubit.U, Matrix.mul_apply, Fin.sum_univ_two] <;> grind

/-- `X(t) = sinθ·M₁ + sin²(θ/2)·M₂ + 1·M₃` with the code's coefficient matrices -/
theorem gen_decomp_X :
    sqUdag v * !![0, 1; 1, 0] * SingleQubit.U v =
      SingleQubit.Idx { v with ed := 1, Idx1 := 2 * v.s * v.c, Idx2 := v.s ^ 2, Wdx := 1 } := by
  ext a b; fin_cases a <;> fin_cases b <;>
    simp [sqUdag, SingleQubit.U, SingleQubit.Idx, Matrix.mul_apply, Fin.sum_univ_two] <;> grind

theorem gen_decomp_Y :
    sqUdag v * !![0, -v.i; v.i, 0] * SingleQubit.U v =
      SingleQubit.Idy { v with ed := 1, Idy1 := 2 * v.s * v.c, Idy2 := v.s ^ 2, Wdy := 1 } := by
  ext a b; fin_cases a <;> fin_cases b <;>
    simp [sqUdag, SingleQubit.U, SingleQubit.Idy, Matrix.mul_apply, Fin.sum_univ_two] <;> grind

/-- `Z(t) = cosθ·M₁ + sinθ·M₂` -/
theorem gen_decomp_Z :
    sqUdag v * !![1, 0; 0, -1] * SingleQubit.U v =
      SingleQubit.Idz { v with ed := 1, Idz1 := v.c ^ 2 - v.s ^ 2, Idz2 := 2 * v.s * v.c } := by
  ext a b; fin_cases a <;> fin_cases b <;>
    simp [sqUdag, SingleQubit.U, SingleQubit.Idz, Matrix.mul_apply, Fin.sum_univ_two] <;> grind

theorem gen_decomp_sigma_minus :
    sqUdag v * !![0, 1; 0, 0] * SingleQubit.U v =
      SingleQubit.Ir { v with e1 := 1, Ir1 := 2 * v.s * v.c, Ir2 := v.s ^ 2, Wr := 1 } := by
  ext a b; fin_cases a <;> fin_cases b <;>
    simp [sqUdag, SingleQubit.U, SingleQubit.Ir, Matrix.mul_apply, Fin.sum_univ_two] <;> grind

theorem gen_decomp_Z_dephasing :
    sqUdag v * !![1, 0; 0, -1] * SingleQubit.U v =
      SingleQubit.Ip { v with ep := 1, Ip1 := v.c ^ 2 - v.s ^ 2, Ip2 := 2 * v.s * v.c } := by
  ext a b; fin_cases a <;> fin_cases b <;>
    simp [sqUdag, SingleQubit.U, SingleQubit.Ip, Matrix.mul_apply, Fin.sum_univ_two] <;> grind

/-- drift: `−(e1²/2)·U†|1⟩⟨1|U` with `(det1, det2, det3)` the integrals of `(sin²(θ/2), sinθ, cos²(θ/2))` -/
theorem drift_single :
    (-(v.e1 ^ 2) / 2) • (sqUdag v * !![0, 0; 0, 1] * SingleQubit.U v) =
      SingleQubit.deterministic { v with det1 := v.s ^ 2, det2 := 2 * v.s * v.c, det3 := v.c ^ 2 } := by
  ext a b; fin_cases a <;> fin_cases b <;>
    simp [sqUdag, SingleQubit.U, SingleQubit.deterministic, Matrix.mul_apply, Fin.sum_univ_two] <;> grind


end sq

/-! ## cross-resonance drive `exp(−iθ/2 · Z ⊗ (cosφ X + sinφ Y)) = U(θ,φ) ⊕ U(−θ,φ)` -/

def crUdag (v : CR.Env K) : Matrix (Fin 4) (Fin 4) K :=
  !![v.c, v.i * v.s * v.eb, 0, 0; v.i * v.s * v.e, v.c, 0, 0; 0, 0, v.c, -(v.i * v.s * v.eb); 0, 0, -(v.i * v.s * v.e), v.c]

section cr
variable (v : CR.Env K) (h0 : v.c ^ 2 + v.s ^ 2 = 1) (h1 : v.e * v.eb = 1) (h2 : v.i ^ 2 = -1)
include h0 h1 h2

theorem crUdag_is_inverse : crUdag v * CR.U v = 1 := by
  ext a b; fin_cases a <;> fin_cases b <;>
    simp [crUdag, CR.U, Matrix.mul_apply, Fin.sum_univ_four] <;> grind

/-- `σ⁻ ⊗ 1` in the interaction picture -/
theorem gen_decomp_sigma_minus_ctr :
    crUdag v * !![0, 0, 1, 0; 0, 0, 0, 1; 0, 0, 0, 0; 0, 0, 0, 0] * CR.U v = CR.Ir_ctr { v with e1_ctr := 1, Ir_ctr_1 := v.c ^ 2 - v.s ^ 2, Ir_ctr_2 := 2 * v.s * v.c } := by
  ext a b; fin_cases a <;> fin_cases b <;>
    simp [crUdag, CR.U, CR.Ir_ctr, Matrix.mul_apply, Fin.sum_univ_four] <;> grind

/-- `1 ⊗ σ⁻` in the interaction picture -/
theorem gen_decomp_sigma_minus_trg :
    crUdag v * !![0, 1, 0, 0; 0, 0, 0, 0; 0, 0, 0, 1; 0, 0, 0, 0] * CR.U v = CR.Ir_trg { v with e1_trg := 1, Ir_trg_1 := 2 * v.s * v.c, Ir_trg_2 := v.s ^ 2, Wr_trg := 1 } := by
  ext a b; fin_cases a <;> fin_cases b <;>
    simp [crUdag, CR.U, CR.Ir_trg, Matrix.mul_apply, Fin.sum_univ_four] <;> grind

/-- `Z ⊗ 1` in the interaction picture -/
theorem gen_decomp_Z_dephasing_ctr :
    crUdag v * !![1, 0, 0, 0; 0, 1, 0, 0; 0, 0, -1, 0; 0, 0, 0, -1] * CR.U v = CR.Ip_ctr { v with ep_ctr := 1, Wp_ctr := 1 } := by
  ext a b; fin_cases a <;> fin_cases b <;>
    simp [crUdag, CR.U, CR.Ip_ctr, Matrix.mul_apply, Fin.sum_univ_four] <;> grind

/-- `1 ⊗ Z` in the interaction picture -/
theorem gen_decomp_Z_dephasing_trg :
    crUdag v * !![1, 0, 0, 0; 0, -1, 0, 0; 0, 0, 1, 0; 0, 0, 0, -1] * CR.U v = CR.Ip_trg { v with ep_trg := 1, Ip_trg_1 := v.c ^ 2 - v.s ^ 2, Ip_trg_2 := 2 * v.s * v.c } := by
  ext a b; fin_cases a <;> fin_cases b <;>
    simp [crUdag, CR.U, CR.Ip_trg, Matrix.mul_apply, Fin.sum_univ_four] <;> grind

/-- `X ⊗ 1` in the interaction picture -/
theorem gen_decomp_X_ctr :
    crUdag v * !![0, 0, 1, 0; 0, 0, 0, 1; 1, 0, 0, 0; 0, 1, 0, 0] * CR.U v = CR.Idx_ctr { v with ed_cr := 1, Idx_ctr_1 := v.c ^ 2 - v.s ^ 2, Idx_ctr_2 := 2 * v.s * v.c } := by
  ext a b; fin_cases a <;> fin_cases b <;>
    simp [crUdag, CR.U, CR.Idx_ctr, Matrix.mul_apply, Fin.sum_univ_four] <;> grind

/-- `Y ⊗ 1` in the interaction picture -/
theorem gen_decomp_Y_ctr :
    crUdag v * !![0, 0, -v.i, 0; 0, 0, 0, -v.i; v.i, 0, 0, 0; 0, v.i, 0, 0] * CR.U v = CR.Idy_ctr { v with ed_cr := 1, Idy_ctr_1 := v.c ^ 2 - v.s ^ 2, Idy_ctr_2 := 2 * v.s * v.c } := by
  ext a b; fin_cases a <;> fin_cases b <;>
    simp [crUdag, CR.U, CR.Idy_ctr, Matrix.mul_apply, Fin.sum_univ_four] <;> grind

/-- `Z ⊗ 1` in the interaction picture -/
theorem gen_decomp_Z_ctr :
    crUdag v * !![1, 0, 0, 0; 0, 1, 0, 0; 0, 0, -1, 0; 0, 0, 0, -1] * CR.U v = CR.Idz_ctr { v with ed_cr := 1, Wdz_ctr := 1 } := by
  ext a b; fin_cases a <;> fin_cases b <;>
    simp [crUdag, CR.U, CR.Idz_ctr, Matrix.mul_apply, Fin.sum_univ_four] <;> grind

/-- `1 ⊗ X` in the interaction picture -/
theorem gen_decomp_X_trg :
    crUdag v * !![0, 1, 0, 0; 1, 0, 0, 0; 0, 0, 0, 1; 0, 0, 1, 0] * CR.U v = CR.Idx_trg { v with ed_cr := 1, Idx_trg_1 := 2 * v.s * v.c, Idx_trg_2 := v.s ^ 2, Wdx_trg := 1 } := by
  ext a b; fin_cases a <;> fin_cases b <;>
    simp [crUdag, CR.U, CR.Idx_trg, Matrix.mul_apply, Fin.sum_univ_four] <;> grind

/-- `1 ⊗ Y` in the interaction picture -/
theorem gen_decomp_Y_trg :
    crUdag v * !![0, -v.i, 0, 0; v.i, 0, 0, 0; 0, 0, 0, -v.i; 0, 0, v.i, 0] * CR.U v = CR.Idy_trg { v with ed_cr := 1, Idy_trg_1 := 2 * v.s * v.c, Idy_trg_2 := v.s ^ 2, Wdy_trg := 1 } := by
  ext a b; fin_cases a <;> fin_cases b <;>
    simp [crUdag, CR.U, CR.Idy_trg, Matrix.mul_apply, Fin.sum_univ_four] <;> grind

/-- `1 ⊗ Z` in the interaction picture -/
theorem gen_decomp_Z_trg :
    crUdag v * !![1, 0, 0, 0; 0, -1, 0, 0; 0, 0, 1, 0; 0, 0, 0, -1] * CR.U v = CR.Idz_trg { v with ed_cr := 1, Idz_trg_1 := v.c ^ 2 - v.s ^ 2, Idz_trg_2 := 2 * v.s * v.c } := by
  ext a b; fin_cases a <;> fin_cases b <;>
    simp [crUdag, CR.U, CR.Idz_trg, Matrix.mul_apply, Fin.sum_univ_four] <;> grind

/-- drift of the control: `−(e1c²/2)·(|1⟩⟨1| ⊗ 1)` is invariant under the drive and integrates to `a` -/
theorem drift_cr_ctr :
    (-(v.e1_ctr ^ 2) / 2) • (v.a • (crUdag v * !![0, 0, 0, 0; 0, 0, 0, 0; 0, 0, 1, 0; 0, 0, 0, 1] * CR.U v)) =
      CR.deterministic_r_ctr v := by
  ext a b; fin_cases a <;> fin_cases b <;>
    simp [crUdag, CR.U, CR.deterministic_r_ctr, Matrix.mul_apply, Fin.sum_univ_four] <;> grind

/-- drift of the target: `−(e1t²/2)·U†(1 ⊗ |1⟩⟨1|)U` with `(det1, det2, det3)` standing for the integrals of
`(sin²(θ/2), sinθ, cos²(θ/2))` -/
theorem drift_cr_trg :
    (-(v.e1_trg ^ 2) / 2) • (crUdag v * !![0, 0, 0, 0; 0, 1, 0, 0; 0, 0, 0, 0; 0, 0, 0, 1] * CR.U v) =
      CR.deterministic_r_trg { v with det1 := v.s ^ 2, det2 := 2 * v.s * v.c, det3 := v.c ^ 2 } := by
  ext a b; fin_cases a <;> fin_cases b <;>
    simp [crUdag, CR.U, CR.deterministic_r_trg, Matrix.mul_apply, Fin.sum_univ_four] <;> grind

end cr
end generic

/-! ## covariance tables: the Itô isometry for exactly the basis functions of the decompositions -/

/-- the covariance the Itô isometry demands for the integrals `S_j = ∫ f_j(θ(t)) dW_t`, `t ∈ [0, a]` -/
noncomputable def itoCov {n : ℕ} (f : Fin n → ℝ → ℝ) (F : ℝ → ℝ) (θ a : ℝ) : Matrix (Fin n) (Fin n) ℝ :=
  Matrix.of fun i j => QG.Spec.integ F (fun x => f i x * f j x) θ a

/-- basis of `X(t), Y(t), σ⁻(t)` (single qubit) and of `1⊗X, 1⊗Y, 1⊗σ⁻` (CR): `sinθ, sin²(θ/2), 1` -/
noncomputable def basisXY : Fin 3 → ℝ → ℝ := ![Real.sin, fun x => Real.sin (x / 2) ^ 2, fun _ => 1]
/-- basis of `Z(t)` (single qubit) and of `σ⁻⊗1, X⊗1, Y⊗1, 1⊗Z` (CR): `cosθ, sinθ` -/
noncomputable def basisZ : Fin 2 → ℝ → ℝ := ![Real.cos, Real.sin]

/-- the basis functions are what the generic-field decompositions substitute, at `c = cos(θ/2), s = sin(θ/2)` -/
theorem basis_instantiation (x : ℝ) :
    2 * Real.sin (x / 2) * Real.cos (x / 2) = Real.sin x ∧
    Real.cos (x / 2) ^ 2 - Real.sin (x / 2) ^ 2 = Real.cos x := by
  constructor
  · have := Real.sin_two_mul (x / 2); rw [show 2 * (x / 2) = x by ring] at this; linarith
  · have := Real.cos_sq' (x / 2); have h2 := Real.cos_two_mul (x / 2)
    rw [show 2 * (x / 2) = x by ring] at h2; nlinarith [Real.sin_sq_add_cos_sq (x / 2)]

private theorem g0_eq : g0 = fun x => Real.sin x * Real.sin x := by funext x; simp [g0]; ring
private theorem g1_eq : g1 = fun x => Real.sin (x / 2) ^ 2 * Real.sin (x / 2) ^ 2 := by funext x; simp [g1]; ring
private theorem g2_eq : g2 = fun x => Real.sin x * Real.sin (x / 2) ^ 2 := by funext x; simp [g2]
private theorem g2_eq' : g2 = fun x => Real.sin (x / 2) ^ 2 * Real.sin x := by funext x; simp [g2]; ring
private theorem g3_eq : g3 = fun x => Real.sin (x / 2) ^ 2 * 1 := by funext x; simp [g3]
private theorem g3_eq' : g3 = fun x => 1 * Real.sin (x / 2) ^ 2 := by funext x; simp [g3]
private theorem g4_eq : g4 = fun x => Real.cos x * Real.cos x := by funext x; simp [g4]; ring
private theorem g5_eq : g5 = fun x => Real.cos x * Real.sin x := by funext x; simp [g5]; ring
private theorem g5_eq' : g5 = fun x => Real.sin x * Real.cos x := by funext x; simp [g5]
private theorem g6_eq : g6 = fun x => Real.sin x * 1 := by funext x; simp [g6]
private theorem g6_eq' : g6 = fun x => 1 * Real.sin x := by funext x; simp [g6]

private theorem cov3 (F : ℝ → ℝ) (θ a : ℝ) :
    !![QG.Spec.integ F g0 θ a, QG.Spec.integ F g2 θ a, QG.Spec.integ F g6 θ a;
       QG.Spec.integ F g2 θ a, QG.Spec.integ F g1 θ a, QG.Spec.integ F g3 θ a;
       QG.Spec.integ F g6 θ a, QG.Spec.integ F g3 θ a, a] = itoCov basisXY F θ a := by
  ext i j; fin_cases i <;> fin_cases j <;> simp [itoCov, basisXY, QG.Spec.integ_const]
  · rw [g0_eq]
  · rw [g2_eq]
  · rw [g6_eq]; simp
  · rw [g2_eq']
  · rw [g1_eq]
  · rw [g3_eq]; simp
  · rw [g6_eq']; simp
  · rw [g3_eq']; simp

private theorem cov2 (F : ℝ → ℝ) (θ a : ℝ) :
    !![QG.Spec.integ F g4 θ a, QG.Spec.integ F g5 θ a; QG.Spec.integ F g5 θ a, QG.Spec.integ F g0 θ a]
      = itoCov basisZ F θ a := by
  ext i j; fin_cases i <;> fin_cases j <;> simp [itoCov, basisZ]
  · rw [g4_eq]
  · rw [g5_eq]
  · rw [g5_eq']
  · rw [g0_eq]

/-- single-qubit samplers: `(Idx1, Idx2, Wdx)`, `(Idy1, Idy2, Wdy)`, `(Ir1, Ir2, Wr)` for `X, Y, σ⁻`;
`(Idz1, Idz2)`, `(Ip1, Ip2)` for `Z` -/
theorem cov_single_XY (F : ℝ → ℝ) (θ : ℝ) :
    SingleQubit.cov_Idx1 F θ = itoCov basisXY F θ 1 ∧ SingleQubit.cov_Idy1 F θ = itoCov basisXY F θ 1 ∧
    SingleQubit.cov_Ir1 F θ = itoCov basisXY F θ 1 := by
  refine ⟨?_, ?_, ?_⟩ <;> simp only [SingleQubit.cov_Idx1, SingleQubit.cov_Idy1, SingleQubit.cov_Ir1] <;>
    exact cov3 F θ 1

theorem cov_single_Z (F : ℝ → ℝ) (θ : ℝ) :
    SingleQubit.cov_Idz1 F θ = itoCov basisZ F θ 1 ∧ SingleQubit.cov_Ip1 F θ = itoCov basisZ F θ 1 := by
  refine ⟨?_, ?_⟩ <;> simp only [SingleQubit.cov_Idz1, SingleQubit.cov_Ip1] <;> exact cov2 F θ 1

/-- cross-resonance samplers, duration `a = t_cr / tg` -/
theorem cov_cr_XY (F : ℝ → ℝ) (θ t_cr : ℝ) :
    CR.cov_Ir_trg_1 F θ t_cr = itoCov basisXY F θ (CR.a t_cr) ∧
    CR.cov_Idx_trg_1 F θ t_cr = itoCov basisXY F θ (CR.a t_cr) ∧
    CR.cov_Idy_trg_1 F θ t_cr = itoCov basisXY F θ (CR.a t_cr) := by
  refine ⟨?_, ?_, ?_⟩ <;> simp only [CR.cov_Ir_trg_1, CR.cov_Idx_trg_1, CR.cov_Idy_trg_1] <;>
    exact cov3 F θ _

theorem cov_cr_Z (F : ℝ → ℝ) (θ t_cr : ℝ) :
    CR.cov_Ir_ctr_1 F θ t_cr = itoCov basisZ F θ (CR.a t_cr) ∧
    CR.cov_Ip_trg_1 F θ t_cr = itoCov basisZ F θ (CR.a t_cr) ∧
    CR.cov_Idx_ctr_1 F θ t_cr = itoCov basisZ F θ (CR.a t_cr) ∧
    CR.cov_Idy_ctr_1 F θ t_cr = itoCov basisZ F θ (CR.a t_cr) ∧
    CR.cov_Idz_trg_1 F θ t_cr = itoCov basisZ F θ (CR.a t_cr) := by
  refine ⟨?_, ?_, ?_, ?_, ?_⟩ <;>
    simp only [CR.cov_Ir_ctr_1, CR.cov_Ip_trg_1, CR.cov_Idx_ctr_1, CR.cov_Idy_ctr_1, CR.cov_Idz_trg_1] <;>
    exact cov2 F θ _

/-- the two `Z ⊗ 1` processes of the CR gate are invariant under the drive: plain Wiener increments of variance `a` -/
theorem var_cr_Z_ctr (F : ℝ → ℝ) (θ t_cr : ℝ) (h : 0 ≤ CR.a t_cr) :
    CR.std_Wp_ctr t_cr ^ 2 = QG.Spec.integ F (fun _ => 1 * 1) θ (CR.a t_cr) ∧
    CR.std_Wdz_ctr t_cr ^ 2 = QG.Spec.integ F (fun _ => 1 * 1) θ (CR.a t_cr) := by
  constructor <;> simp [CR.std_Wp_ctr, CR.std_Wdz_ctr, QG.Spec.integ_const, Real.sq_sqrt h]

/-! ## the cross-resonance drift follows the pulse

`det1, det2, det3` of `CRFactory` are the integrals of `(sin²(θ/2), sinθ, cos²(θ/2))` along the pulse, like the
drift of the single-qubit gate (on the pinned tree they were closed forms valid for the constant pulse only — defect
D24, repaired; before the repair this statement was `drift_cr_closed_forms_partial`, restricted to `F = id`). -/
theorem drift_cr (F : ℝ → ℝ) (t_cr θ : ℝ) :
    CR.det1 F θ t_cr = QG.Spec.integ F g3 θ (CR.a t_cr) ∧
    CR.det2 F θ t_cr = QG.Spec.integ F g6 θ (CR.a t_cr) ∧
    CR.det3 F θ t_cr = QG.Spec.integ F g7 θ (CR.a t_cr) := ⟨rfl, rfl, rfl⟩

/-- for the constant pulse these are the closed forms the code used to hard-code -/
theorem drift_cr_constant_pulse (t_cr θ : ℝ) (hθ : θ ≠ 0) (ha : 0 < CR.a t_cr) :
    CR.det1 id θ t_cr = (CR.a t_cr * θ - CR.a t_cr * Real.sin θ) / (2 * θ) ∧
    CR.det2 id θ t_cr = (CR.a t_cr / θ) * (1 - Real.cos θ) ∧
    CR.det3 id θ t_cr = CR.a t_cr / (2 * θ) * (θ + Real.sin θ) := by
  have e : ∀ t : ℝ, θ * id (t / CR.a t_cr) = θ * t / CR.a t_cr := fun t => by simp [mul_div_assoc]
  refine ⟨?_, ?_, ?_⟩
  · unfold CR.det1 QG.Spec.integ g3; simp_rw [e]
    rw [QG.Integrator.cf_sin_half_sq θ _ hθ ha]; field_simp
  · unfold CR.det2 QG.Spec.integ g6; simp_rw [e]
    have := QG.Integrator.cf_sin θ _ hθ ha
    simp only [div_one]; rw [this]; field_simp
  · unfold CR.det3 QG.Spec.integ g7; simp_rw [e]
    rw [QG.Integrator.cf_cos_half_sq θ _ hθ ha]; field_simp

/-! ## strengths -/

theorem strength_ed (p : ℝ) (hp : 0 ≤ p) : SingleQubit.ed p ^ 2 = p / 4 := by
  unfold SingleQubit.ed; rw [Real.sq_sqrt]; positivity

theorem strength_e1 (T1 : ℝ) (h : 0 < T1) : SingleQubit.e1 T1 ^ 2 = SingleQubit.tg / T1 := by
  rw [sq_e1_sq T1 h.le]; unfold decay; simp [h.ne']

/-- `ep² = (tg/T2 − tg/(2 T1))/2`, i.e. `L_φ = sqrt((tg/T2 − tg/2T1)/2) Z`, for `0 < T2 ≤ 2 T1` (boundary included) -/
theorem strength_ep (T1 T2 : ℝ) (h1 : 0 < T1) (h2 : 0 < T2) (h : T2 ≤ 2 * T1) :
    SingleQubit.ep T2 T1 ^ 2 = (SingleQubit.tg / T2 - SingleQubit.tg / (2 * T1)) / 2 := by
  have htg : (0:ℝ) < SingleQubit.tg := by unfold SingleQubit.tg; norm_num
  have : SingleQubit.tg / (2 * T1) ≤ SingleQubit.tg / T2 := div_le_div_of_nonneg_left htg.le h2 h
  have e : SingleQubit.tg / T1 / 2 = SingleQubit.tg / (2 * T1) := by field_simp
  unfold SingleQubit.ep
  simp only [if_neg h2.ne', if_pos h1.ne', ne_eq, h1.ne', not_false_eq_true, if_true]
  rw [Real.sq_sqrt (by nlinarith)]
  ring

theorem strength_ed_cr (p_cr t_cr : ℝ) (hp : 0 ≤ p_cr) (ht : 0 < t_cr) :
    CR.ed_cr p_cr t_cr ^ 2 * CR.a t_cr = p_cr / 4 := by
  have ha : 0 < CR.a t_cr := by unfold CR.a CR.tg; positivity
  unfold CR.ed_cr; rw [Real.sq_sqrt (by positivity)]; field_simp

/-- the scaled-noise gate set hands the factories `(p·s, T1/s, T2/s)` -/
theorem scaled_passes_scaled_parameters (F : ℝ → ℝ) (s theta phi p T1 T2 : ℝ) (w : SingleQubit.Samples) :
    Scaled.single_qubit_gate F s theta phi p T1 T2 w
      = SingleQubit.construct F theta phi (p * s) (T1 / s) (T2 / s) w := rfl


/-! ## idle relaxation: the shot average of `G ρ G†` is exactly the T1/T2 channel

`G(W, I)` with independent `W ~ N(0, Δ)`, `I ~ N(0, 1 − e^{−e1²Δ})`, `Δ = Dt/tg` (the standard deviations the
code hands to `np.random.normal`, `relaxation_variances`).  A genuine probability statement on
Mathlib's `gaussianReal`. -/

section relaxation
open Complex MeasureTheory ProbabilityTheory
open scoped ComplexConjugate NNReal
private theorem relaxation_sandwich_entries (Dt T1 T2 : ℝ) (w : Relaxation.Samples) (ρ : Matrix (Fin 2) (Fin 2) ℂ) :
    let G := Relaxation.construct Dt T1 T2 w
    let d : ℂ := ((Real.exp (-(Relaxation.e1 T1) ^ 2 / 2 * Relaxation.Dt_1 Dt) : ℝ) : ℂ)
    let ε : ℝ := Relaxation.ep T2 T1
    (G * ρ * Gᴴ) 0 1 = d * cexp (2 * ε * w.W * I) * ρ 0 1 + I * (w.I : ℂ) * d * ρ 1 1 ∧
    (G * ρ * Gᴴ) 1 1 = d * d * ρ 1 1 ∧
    (G * ρ * Gᴴ) 0 0 = ρ 0 0 + (w.I : ℂ) ^ 2 * ρ 1 1
      + ((-I * ρ 0 1) * cexp (2 * ε * w.W * I) + (I * ρ 1 0) * cexp (-2 * ε * w.W * I)) * (w.I : ℂ) := by
  intro G d ε
  set E : ℂ := cexp (I * (ε : ℂ) * (w.W : ℂ)) with hE
  set Ei : ℂ := cexp (-I * (ε : ℂ) * (w.W : ℂ)) with hEi
  have hEE : E * Ei = 1 := by rw [hE, hEi, ← Complex.exp_add]; ring_nf; simp
  have cE : conj E = Ei := by
    rw [hE, hEi, ← Complex.exp_conj]; simp
  have cEi : conj Ei = E := by
    rw [hE, hEi, ← Complex.exp_conj]; simp
  have hd : conj d = d := Complex.conj_ofReal _
  have e2 : cexp (2 * (ε : ℂ) * (w.W : ℂ) * I) = E * E := by rw [hE, ← Complex.exp_add]; ring_nf
  have e2' : cexp (-2 * (ε : ℂ) * (w.W : ℂ) * I) = Ei * Ei := by rw [hEi, ← Complex.exp_add]; ring_nf
  have hG : G = !![E, I * (w.I : ℂ) * Ei; 0, d * Ei] := by
    simp only [G, Relaxation.construct, Relaxation.resultMat, hE, hEi, d, ε]
    ext a b; fin_cases a <;> fin_cases b <;> simp [Complex.ofReal_exp]
  rw [e2, e2', hG]
  refine ⟨?_, ?_, ?_⟩
  · simp only [Matrix.mul_apply, Fin.sum_univ_two, Matrix.conjTranspose_apply, Matrix.of_apply, Matrix.cons_val', Matrix.cons_val_zero, Matrix.cons_val_one, Matrix.cons_val_fin_one, Matrix.head_cons, Matrix.empty_val', Fin.isValue, star_def, map_mul, map_zero, cE, cEi, hd, Complex.conj_I, Complex.conj_ofReal, map_neg, zero_mul, mul_zero, add_zero, zero_add]
    linear_combination (I * (w.I : ℂ) * ρ 1 1 * d) * hEE
  · simp only [Matrix.mul_apply, Fin.sum_univ_two, Matrix.conjTranspose_apply, Matrix.of_apply, Matrix.cons_val', Matrix.cons_val_zero, Matrix.cons_val_one, Matrix.cons_val_fin_one, Matrix.head_cons, Matrix.empty_val', Fin.isValue, star_def, map_mul, map_zero, cE, cEi, hd, Complex.conj_I, Complex.conj_ofReal, map_neg, zero_mul, mul_zero, add_zero, zero_add]
    linear_combination (d * d * ρ 1 1) * hEE
  · simp only [Matrix.mul_apply, Fin.sum_univ_two, Matrix.conjTranspose_apply, Matrix.of_apply, Matrix.cons_val', Matrix.cons_val_zero, Matrix.cons_val_one, Matrix.cons_val_fin_one, Matrix.head_cons, Matrix.empty_val', Fin.isValue, star_def, map_mul, map_zero, cE, cEi, hd, Complex.conj_I, Complex.conj_ofReal, map_neg, zero_mul, mul_zero, add_zero, zero_add]
    linear_combination (ρ 0 0 - (w.I : ℂ) ^ 2 * ρ 1 1 * I ^ 2) * hEE - (w.I : ℂ) ^ 2 * ρ 1 1 * Complex.I_sq

theorem relaxation_variances (Dt T1 : ℝ) (hDt : 0 ≤ Dt) :
    Relaxation.std_W Dt ^ 2 = Relaxation.Dt_1 Dt ∧
    Relaxation.std_I (T1 := T1) (Dt := Dt) ^ 2
      = 1 - Real.exp (-(Relaxation.e1 T1) ^ 2 * Relaxation.Dt_1 Dt) := by
  have hΔ : 0 ≤ Relaxation.Dt_1 Dt := by unfold Relaxation.Dt_1 Relaxation.tg; positivity
  constructor
  · unfold Relaxation.std_W; exact Real.sq_sqrt hΔ
  · unfold Relaxation.std_I; rw [Real.sq_sqrt]
    have : -(Relaxation.e1 T1) ^ 2 * Relaxation.Dt_1 Dt ≤ 0 := by nlinarith [sq_nonneg (Relaxation.e1 T1)]
    linarith [Real.exp_le_one_iff.mpr this]

/-- rates: `d² = e^{−Dt/T1}` and `d·e^{−2 ep² Δ} = e^{−Dt/T2}` for `0 < T2 ≤ 2 T1` -/
theorem relaxation_rates (Dt T1 T2 : ℝ) (h1 : 0 < T1) (h2 : 0 < T2) (h : T2 ≤ 2 * T1) :
    (Relaxation.e1 T1) ^ 2 * Relaxation.Dt_1 Dt = Dt / T1 ∧
    (Relaxation.e1 T1) ^ 2 / 2 * Relaxation.Dt_1 Dt + 2 * (Relaxation.ep T2 T1) ^ 2 * Relaxation.Dt_1 Dt = Dt / T2 := by
  have htg : (0:ℝ) < Relaxation.tg := by unfold Relaxation.tg; norm_num
  have he1 : (Relaxation.e1 T1) ^ 2 = Relaxation.tg / T1 := by
    rw [relax_e1_sq T1 h1.le]; unfold decay; simp [h1.ne']
  have hep : (Relaxation.ep T2 T1) ^ 2 = (Relaxation.tg / T2 - Relaxation.tg / T1 / 2) / 2 := by
    have : Relaxation.tg / (2 * T1) ≤ Relaxation.tg / T2 := div_le_div_of_nonneg_left htg.le h2 h
    have e : Relaxation.tg / T1 / 2 = Relaxation.tg / (2 * T1) := by field_simp
    unfold Relaxation.ep
    simp only [if_neg h2.ne', ne_eq, h1.ne', not_false_eq_true, if_true]
    rw [Real.sq_sqrt (by nlinarith)]
    ring
  constructor
  · rw [he1]; unfold Relaxation.Dt_1; field_simp
  · rw [he1, hep]; unfold Relaxation.Dt_1; field_simp; ring

/-- **the T1/T2 channel**: coherence decays with `e^{−Dt/T2}`, the excited population with `e^{−Dt/T1}` and
what it loses goes to the ground state -/
theorem relaxation_channel (Dt T1 T2 : ℝ) (hDt : 0 ≤ Dt) (h1 : 0 < T1) (h2 : 0 < T2) (h : T2 ≤ 2 * T1)
    (ρ : Matrix (Fin 2) (Fin 2) ℂ) (Δ V : ℝ≥0) (hΔ : (Δ : ℝ) = Relaxation.std_W Dt ^ 2)
    (hV : (V : ℝ) = Relaxation.std_I (T1 := T1) (Dt := Dt) ^ 2) :
    let G : ℝ × ℝ → Matrix (Fin 2) (Fin 2) ℂ := fun z => Relaxation.construct Dt T1 T2 ⟨z.1, z.2⟩
    let μ := (gaussianReal 0 Δ).prod (gaussianReal 0 V)
    ∫ z, (G z * ρ * (G z)ᴴ) 0 1 ∂μ = ((Real.exp (-(Dt / T2)) : ℝ) : ℂ) * ρ 0 1 ∧
    ∫ z, (G z * ρ * (G z)ᴴ) 1 1 ∂μ = ((Real.exp (-(Dt / T1)) : ℝ) : ℂ) * ρ 1 1 ∧
    ∫ z, (G z * ρ * (G z)ᴴ) 0 0 ∂μ = ρ 0 0 + ((1 - Real.exp (-(Dt / T1)) : ℝ) : ℂ) * ρ 1 1 := by
  intro G μ
  obtain ⟨r1, r2⟩ := relaxation_rates Dt T1 T2 h1 h2 h
  obtain ⟨v1, v2⟩ := relaxation_variances Dt T1 hDt
  have hΔ' : (Δ : ℝ) = Relaxation.Dt_1 Dt := by rw [hΔ, v1]
  have hV' : (V : ℝ) = 1 - Real.exp (-(Dt / T1)) := by rw [hV, v2, neg_mul, r1]
  set d : ℝ := Real.exp (-(Relaxation.e1 T1) ^ 2 / 2 * Relaxation.Dt_1 Dt) with hd
  set ε : ℝ := Relaxation.ep T2 T1 with hε
  have hdd : d * d = Real.exp (-(Dt / T1)) := by
    rw [hd, ← Real.exp_add]; congr 1; rw [← r1]; ring
  refine ⟨?_, ?_, ?_⟩
  · have e : ∀ z : ℝ × ℝ, (G z * ρ * (G z)ᴴ) 0 1
        = (d : ℂ) * cexp (2 * ε * z.1 * I) * ρ 0 1 + I * (z.2 : ℂ) * d * ρ 1 1 :=
      fun z => (relaxation_sandwich_entries Dt T1 T2 ⟨z.1, z.2⟩ ρ).1
    simp_rw [e]
    rw [QG.Lemmas.Relax.coherence_decay Δ V ε d (ρ 0 1) (ρ 1 1)]
    congr 1
    have : (-(2 * (ε : ℂ) ^ 2 * ((Δ : ℝ) : ℂ))) = ((-(2 * ε ^ 2 * (Δ : ℝ)) : ℝ) : ℂ) := by push_cast; ring
    rw [this, ← Complex.ofReal_exp, ← Complex.ofReal_mul]
    congr 1
    rw [hd, ← Real.exp_add]; congr 1
    rw [hΔ', ← r2]; ring
  · have e : ∀ z : ℝ × ℝ, (G z * ρ * (G z)ᴴ) 1 1 = (d : ℂ) * d * ρ 1 1 :=
      fun z => (relaxation_sandwich_entries Dt T1 T2 ⟨z.1, z.2⟩ ρ).2.1
    simp_rw [e]
    have : IsProbabilityMeasure μ := by infer_instance
    rw [integral_const, probReal_univ, one_smul, ← Complex.ofReal_mul, hdd]
  · have e : ∀ z : ℝ × ℝ, (G z * ρ * (G z)ᴴ) 0 0 = ρ 0 0 + ((z.2 : ℂ)) ^ 2 * ρ 1 1
        + ((-I * ρ 0 1) * cexp (2 * ε * z.1 * I) + (I * ρ 1 0) * cexp (-2 * ε * z.1 * I)) * (z.2 : ℂ) :=
      fun z => (relaxation_sandwich_entries Dt T1 T2 ⟨z.1, z.2⟩ ρ).2.2
    simp_rw [e]
    rw [QG.Lemmas.Relax.population_gain' Δ V ε (ρ 0 0) (ρ 1 1) (-I * ρ 0 1) (I * ρ 1 0)]
    congr 2
    exact_mod_cast hV'

end relaxation

section exact_samplers
open QG.Lemmas.Exact Complex MeasureTheory ProbabilityTheory
open scoped ComplexConjugate NNReal Matrix.Norms.Operator
/-! ## read-out bit flip and idle depolarisation (closed-form samplers) -/

/-- the Pauli operators are Hermitian and square to one: `L†L − L² = 0`, no drift -/
theorem pauli_drift_zero :
    σxᴴ * σx - σx * σx = 0 ∧ σyᴴ * σy - σy * σy = 0 ∧ σzᴴ * σz - σz * σz = 0 := by
  refine ⟨?_, ?_, ?_⟩ <;>
    (ext a b; fin_cases a <;> fin_cases b <;>
      simp [σx, σy, σz, Matrix.mul_apply, Fin.sum_univ_two, Matrix.conjTranspose_apply])

/-- **bit flip**: the sample is `exp(i·(e·W)·X)` — ideal gate `1`, drift `0`, noise generator `(e·W)·X` -/
theorem bitflip_is_exp_noise (tm rout : ℝ) (w : Bitflip.Samples) :
    Bitflip.construct tm rout w
      = NormedSpace.exp ((I * (((Bitflip.e rout tm : ℝ) : ℂ) * ((w.W : ℝ) : ℂ))) • σx) := by
  rw [exp_I_smul_sigmaX]
  simp only [Bitflip.construct, Bitflip.resultMat]

/-- the flip angle `e·W` has variance `rout`: the Itô isometry for `L = √(rout/tm)·X` acting for the time `tm` -/
theorem bitflip_angle_variance (tm rout : ℝ) (htm : 0 < tm) (hr : 0 ≤ rout) :
    (Bitflip.e rout tm) ^ 2 * (Bitflip.std_W tm) ^ 2 = rout := by
  have hD : 0 < Bitflip.Dtm tm := by unfold Bitflip.Dtm Bitflip.tg; positivity
  unfold Bitflip.e Bitflip.std_W
  rw [Real.sq_sqrt (div_nonneg hr hD.le), Real.sq_sqrt hD.le]
  field_simp

/-- **the bit-flip channel**: the Gaussian shot average of `G ρ G†` is `(1−q) ρ + q XρX` with
`q = (1 − e^{−2·rout})/2` — the solution of the Lindblad equation with `L = √(rout/tm)·X` after the time `tm` -/
theorem bitflip_channel (tm rout : ℝ) (htm : 0 < tm) (hr : 0 ≤ rout) (ρ : Matrix (Fin 2) (Fin 2) ℂ)
    (Δ : ℝ≥0) (hΔ : (Δ : ℝ) = Bitflip.std_W tm ^ 2) (a b : Fin 2) :
    let G : ℝ → Matrix (Fin 2) (Fin 2) ℂ := fun z => Bitflip.construct tm rout ⟨z⟩
    let q : ℂ := (1 - cexp (-(2 * rout))) / 2
    ∫ z, (G z * ρ * (G z)ᴴ) a b ∂(gaussianReal 0 Δ) = ((1 - q) • ρ + q • (σx * ρ * σx)) a b := by
  intro G q
  set ε : ℝ := Bitflip.e rout tm with hε
  have e : ∀ z : ℝ, (G z * ρ * (G z)ᴴ) a b
      = ((1 / 2 : ℂ) • (ρ + σx * ρ * σx)) a b
        + ((1 / 2 : ℂ) • (ρ - σx * ρ * σx)) a b * Complex.cos (2 * ε * z)
        + ((I / 2) • (σx * ρ - ρ * σx)) a b * Complex.sin (2 * ε * z) := by
    intro z
    have hc : conj (Complex.cos ((ε : ℂ) * (z : ℂ))) = Complex.cos ((ε : ℂ) * (z : ℂ)) := by
      rw [← Complex.cos_conj]; simp
    have hs : conj (Complex.sin ((ε : ℂ) * (z : ℂ))) = Complex.sin ((ε : ℂ) * (z : ℂ)) := by
      rw [← Complex.sin_conj]; simp
    have := bitflip_sandwich_alg _ _ hc hs (Complex.cos_sq_add_sin_sq _) ρ a b
    rw [mul_assoc (2 : ℂ) (ε : ℂ) (z : ℂ), Complex.cos_two_mul, Complex.sin_two_mul]
    simpa only [G, Bitflip.construct, Bitflip.resultMat, hε] using this
  simp_rw [e]
  rw [E_affine_trig Δ ε]
  have hvar : (ε : ℂ) ^ 2 * ((Δ : ℝ) : ℂ) = (rout : ℂ) := by
    rw [hΔ, hε]; exact_mod_cast bitflip_angle_variance tm rout htm hr
  have hk : cexp (-(2 * (ε : ℂ) ^ 2 * ((Δ : ℝ≥0) : ℂ))) = cexp (-(2 * rout)) := by
    congr 1
    have : (((Δ : ℝ≥0) : ℂ)) = (((Δ : ℝ)) : ℂ) := rfl
    rw [this]; linear_combination (-2 : ℂ) * hvar
  rw [hk]
  simp only [q, Matrix.smul_apply, Matrix.add_apply, Matrix.sub_apply, smul_eq_mul]
  ring

/-- **depolarisation**: the argument of `expm` is `i·ed·(W1 X + W2 Y + W3 Z)` (ideal gate `1`, no drift by `pauli_drift_zero`) -/
theorem depolarizing_generator (Dt p : ℝ) (w : Depolarizing.Samples) :
    Depolarizing.noiseArg Dt p w
      = I • (((Depolarizing.ed p : ℝ) : ℂ) • (((w.W1 : ℝ) : ℂ) • σx + ((w.W2 : ℝ) : ℂ) • σy + ((w.W3 : ℝ) : ℂ) • σz)) := by
  ext a b; fin_cases a <;> fin_cases b <;>
    simp [Depolarizing.noiseArg, Depolarizing.I1Mat, Depolarizing.I2Mat, Depolarizing.I3Mat, Depolarizing.XMat,
      Depolarizing.YMat, Depolarizing.ZMat, σx, σy, σz] <;> ring

/-- the generator is Hermitian -/
theorem depolarizing_generator_hermitian (p : ℝ) (w : Depolarizing.Samples) :
    (((Depolarizing.ed p : ℝ) : ℂ) • (((w.W1 : ℝ) : ℂ) • σx + ((w.W2 : ℝ) : ℂ) • σy + ((w.W3 : ℝ) : ℂ) • σz)).IsHermitian := by
  ext a b; fin_cases a <;> fin_cases b <;>
    simp [σx, σy, σz, Matrix.conjTranspose_apply]

/-- each of the three independent coefficients `ed·W_k` has variance `(p/4)·(Dt/tg)`: the Itô isometry for the constant
operators `√(p/4)·{X, Y, Z}` (per gate time `tg`) acting for the time `Dt` -/
theorem depolarizing_variances (Dt p : ℝ) (hDt : 0 ≤ Dt) (hp : 0 ≤ p) :
    (Depolarizing.ed p) ^ 2 * (Depolarizing.std_W1 Dt) ^ 2 = p / 4 * (Dt / Depolarizing.tg) ∧
    (Depolarizing.ed p) ^ 2 * (Depolarizing.std_W2 Dt) ^ 2 = p / 4 * (Dt / Depolarizing.tg) ∧
    (Depolarizing.ed p) ^ 2 * (Depolarizing.std_W3 Dt) ^ 2 = p / 4 * (Dt / Depolarizing.tg) := by
  have hD : 0 ≤ Depolarizing.Dt_1 Dt := by unfold Depolarizing.Dt_1 Depolarizing.tg; positivity
  have hp4 : 0 ≤ p / 4 := by positivity
  unfold Depolarizing.ed Depolarizing.std_W1 Depolarizing.std_W2 Depolarizing.std_W3
  rw [Real.sq_sqrt hp4, Real.sq_sqrt hD]
  unfold Depolarizing.Dt_1
  exact ⟨rfl, rfl, rfl⟩

/-- non-vacuity: a calibrated read-out (`tm = 1 µs`, `rout = 2 %`) meets the hypotheses of `bitflip_channel` -/
example : (0 : ℝ) < 1e-6 ∧ (0 : ℝ) ≤ 0.02 := by norm_num

end exact_samplers

end QG.C04
