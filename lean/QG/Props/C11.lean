import QG.Lemmas.Reuse
import QG.Props.C10

/-!
# C11 — running is pure: objects are reusable

Theorems about histories of build calls / `statevector` evaluations / `reset()` on one circuit object
(`QG/Model/Reuse.lean` on top of the state machines of `QG/Model/Wiring.lean`; both tied to the real classes on
every run by exact correspondence on random histories, `harness/props/c11.py`).

* `*_reset_behaves_new`: after **any** history, `reset()` leaves an object on which **every** further history runs
  exactly as on a newly constructed object: same outcome (the same exception at the same point, or success), same
  counters, phases and placements, and every slot holds the matrix of the *same gate-set call with the same
  arguments*.  (The state machines number the gate-set calls; the reset object carries the old call log, so the
  equality is `rebase`: identical up to that numbering.  `view_*_rebase` says the numbering is invisible once slots
  are resolved to the calls that produced them.)
* `bin_eval_transparent`: for the index-based class — whose `statevector` rewrites the stored qubit lists in place —
  what the backend is handed after any history equals what it is handed after the same history with all
  evaluations deleted; with `bin_eval_idem`, `bin_eval_seen`: evaluating is repeatable, and gates applied after an
  evaluation are included in the next one.
* `bin_step_grows`, `layer_step_grows`: a build call never alters what is already registered (items / completed
  layers only grow), so a later evaluation includes everything an earlier one included.

The first sentence of the property (a run modifies none of its inputs) is about aliasing.  It is stated on the shot
loop of `QG.Model.IntegratorCache` (C10), in which a shot may do *anything* to the objects it is handed and what reaches
the caller's objects is decided by how `_perform_simulation` builds the argument dict of a shot — a table **regenerated
from simulator.py on every run** (`QG.Gen.Determinism.shotArgs`: `copy.deepcopy(...)` of the caller's object, a fresh
object built from deep copies, or the caller's object itself): `run_shot_arguments_are_copies`, `run_inputs_untouched`,
`run_repeatable`.  What the table cannot see (a write to a caller's object outside the shot dict, e.g. in the
pre-processing) is covered by the bit-exact before/after comparison of the real inputs in the harness.
-/
namespace QG.C11
open QG.Model.Wiring QG.Model.Reuse QG.Lemmas.Reuse

variable {Φ : Type}

/-! ## slots resolved to the calls that produced them -/

inductive Slot (Φ : Type)
  | one | ident | gate (c : GateCall Φ) | dangling

def slotOf (calls : List (GateCall Φ)) : Entry → Slot Φ
  | .one => .one
  | .ident => .ident
  | .tok k => match calls.reverse[k]? with
    | some c => .gate c
    | none => .dangling

theorem slotOf_rebase (calls log : List (GateCall Φ)) (e : Entry) :
    slotOf (calls ++ log) (shiftE log.length e) = slotOf calls e := by
  cases e with
  | one => rfl
  | ident => rfl
  | tok k =>
    simp only [shiftE_tok, slotOf, List.reverse_append]
    rw [List.getElem?_append_right (by simp)]
    simp

/-- what is observable of a grid object: counters, phases, and which call's matrix sits where -/
def viewG (st : GridState Φ) : Nat × Nat × Nat × Nat × List Φ × List (List (Slot Φ)) :=
  (st.nqubit, st.depth, st.j, st.s, st.phi, st.grid.map (List.map (slotOf st.calls)))

def viewL (st : LayerState Φ) : Nat × Nat × List Φ × List (Slot Φ) × List (List (Slot Φ)) :=
  (st.nqubit, st.s, st.phi, st.mp.map (slotOf st.calls), st.mpList.map (List.map (slotOf st.calls)))

theorem view_grid_rebase (log : List (GateCall Φ)) (st : GridState Φ) : viewG (rebaseG log st) = viewG st := by
  simp [viewG, rebaseG, Function.comp_def, slotOf_rebase]

theorem view_layer_rebase (log : List (GateCall Φ)) (st : LayerState Φ) : viewL (rebaseL log st) = viewL st := by
  simp [viewL, rebaseL, Function.comp_def, slotOf_rebase]

/-! ## reset() makes the object behave exactly like a newly constructed one -/

/-- `Circuit.reset()` after any history = a new `Circuit(nqubit, depth, gates)`, up to the call numbering -/
theorem grid_reset_eq_init (P : PhaseOps Φ) (st : GridState Φ) :
    st.reset P = rebaseG st.calls (GridState.init P st.nqubit st.depth) := grid_reset_rebase P st

/-- every further history (build calls, evaluations, more resets) runs on the reset object exactly as on a new one -/
theorem grid_reset_behaves_new (P : PhaseOps Φ) (st : GridState Φ) (h : List (HOp Φ)) :
    foldE (gridH P) (st.reset P) h
      = (foldE (gridH P) (GridState.init P st.nqubit st.depth) h).map (rebaseG st.calls) := by
  rw [grid_reset_eq_init]
  exact foldE_map (gridH P) (rebaseG st.calls) (gridH_rebase P st.calls) _ h

/-- ... in particular with identical observable content -/
theorem grid_reset_behaves_new_view (P : PhaseOps Φ) (st : GridState Φ) (h : List (HOp Φ)) :
    (foldE (gridH P) (st.reset P) h).map viewG
      = (foldE (gridH P) (GridState.init P st.nqubit st.depth) h).map viewG := by
  rw [grid_reset_behaves_new]
  cases foldE (gridH P) (GridState.init P st.nqubit st.depth) h with
  | error e => rfl
  | ok s => exact congrArg Except.ok (view_grid_rebase st.calls s)

theorem layer_reset_eq_init (P : PhaseOps Φ) (st : LayerState Φ) :
    st.reset P = rebaseL st.calls (LayerState.init P st.nqubit) := layer_reset_rebase P st

theorem layer_reset_behaves_new (P : PhaseOps Φ) (st : LayerState Φ) (h : List (HOp Φ)) :
    foldE (layerH P) (st.reset P) h
      = (foldE (layerH P) (LayerState.init P st.nqubit) h).map (rebaseL st.calls) := by
  rw [layer_reset_eq_init]
  exact foldE_map (layerH P) (rebaseL st.calls) (layerH_rebase P st.calls) _ h

theorem layer_reset_behaves_new_view (P : PhaseOps Φ) (st : LayerState Φ) (h : List (HOp Φ)) :
    (foldE (layerH P) (st.reset P) h).map viewL
      = (foldE (layerH P) (LayerState.init P st.nqubit) h).map viewL := by
  rw [layer_reset_behaves_new]
  cases foldE (layerH P) (LayerState.init P st.nqubit) h with
  | error e => rfl
  | ok s => exact congrArg Except.ok (view_layer_rebase st.calls s)

/-- `BinaryCircuit.reset()` after any history **is** a new object (this class keeps no call numbering) -/
theorem bin_reset_eq_init (P : PhaseOps Φ) (o : BinObj Φ) : o.reset P = BinObj.init P o.st.nqubit := rfl

theorem bin_reset_behaves_new (P : PhaseOps Φ) (o : BinObj Φ) (h : List (HOp Φ)) :
    foldE (binH P) (o.reset P) h = foldE (binH P) (BinObj.init P o.st.nqubit) h := by
  rw [bin_reset_eq_init]

/-- the constructor arguments are never changed by a history, so "a newly constructed one" above is the object
the user constructed -/
theorem bin_history_nqubit (P : PhaseOps Φ) (o o' : BinObj Φ) (h : List (HOp Φ)) (hr : foldE (binH P) o h = .ok o') :
    o'.st.nqubit = o.st.nqubit := by
  refine foldE_inv (binH P) (fun x => x.st.nqubit = o.st.nqubit) ?_ o o' h rfl hr
  intro s a s' hs hstep
  cases a with
  | call c =>
    obtain ⟨l, h1, _, _⟩ := bin_step_ok P s s' c hstep
    rw [(bin_step_items P s.st s'.st c h1).2, hs]
  | eval => cases hstep; exact hs
  | reset => cases hstep; exact hs

/-! ## evaluations -/

theorem ql_norm_idem (q : QL) : q.norm.norm = q.norm := QL.norm_idem q

/-- evaluating twice leaves the object as evaluating once -/
theorem bin_eval_idem (o : BinObj Φ) : o.eval.eval = o.eval := by
  simp [BinObj.eval, Function.comp_def, QL.norm_idem]

/-- the in-place rewrite does not change what the next evaluation hands to the backend -/
theorem bin_eval_seen (o : BinObj Φ) : o.eval.seen = o.seen := by
  simp [BinObj.eval, BinObj.seen, Function.comp_def, QL.norm_idem]

/-- on every object reachable from a new one, what the backend is handed is determined by the registered items
alone: each sampled matrix with the normalised form of the qubit list it was registered with -/
theorem bin_seen_reachable (P : PhaseOps Φ) (n : Nat) (h : List (HOp Φ)) (o : BinObj Φ)
    (hr : foldE (binH P) (BinObj.init P n) h = .ok o) : o.seen = seenOf o.st :=
  seen_of_inv o (foldE_inv (binH P) BinInv (fun s a s' hi hs => binInv_H P s s' a hi hs) _ o h (binInv_init P n) hr)

/-- **evaluations are transparent**: after any history, the backend is handed exactly what it is handed after the
same history with every evaluation deleted (same exception otherwise).  So an evaluation can be repeated, and
gates applied after an evaluation are included in the next one. -/
theorem bin_eval_transparent (P : PhaseOps Φ) (n : Nat) (h : List (HOp Φ)) :
    (foldE (binH P) (BinObj.init P n) h).map BinObj.seen
      = (foldE (binH P) (BinObj.init P n) (h.filter fun op => !op.isEval)).map BinObj.seen := by
  have hA := foldE_proj (binH P) (stH P) (·.st) (binH_st P) (BinObj.init P n) h
  have hB := foldE_proj (binH P) (stH P) (·.st) (binH_st P) (BinObj.init P n) (h.filter fun op => !op.isEval)
  rw [stH_filter] at hB
  have hAB := hA.trans hB.symm
  cases hA' : foldE (binH P) (BinObj.init P n) h with
  | error e =>
    cases hB' : foldE (binH P) (BinObj.init P n) (h.filter fun op => !op.isEval) with
    | error e' => rw [hA', hB'] at hAB; cases hAB; rfl
    | ok b => rw [hA', hB'] at hAB; cases hAB
  | ok a =>
    cases hB' : foldE (binH P) (BinObj.init P n) (h.filter fun op => !op.isEval) with
    | error e' => rw [hA', hB'] at hAB; cases hAB
    | ok b =>
      rw [hA', hB'] at hAB
      have hst : a.st = b.st := by injection hAB
      show Except.ok a.seen = Except.ok b.seen
      rw [bin_seen_reachable P n h a hA', bin_seen_reachable P n _ b hB', hst]

/-- grid and layered classes: `statevector` only reads, so deleting evaluations changes nothing at all.
(The content of this statement is the modelling decision `eval = identity`, which the correspondence checks by
comparing the real object before and after every `statevector` call.) -/
theorem grid_eval_transparent (P : PhaseOps Φ) (st : GridState Φ) (h : List (HOp Φ)) :
    foldE (gridH P) st (h.filter fun op => !op.isEval) = foldE (gridH P) st h := by
  induction h generalizing st with
  | nil => rfl
  | cons op ops ih =>
    cases op with
    | call c =>
      simp only [List.filter, HOp.isEval, Bool.not_false, foldE]
      cases gridH P st (.call c) with
      | error e => rfl
      | ok s1 => exact ih s1
    | eval => simp only [List.filter, HOp.isEval, Bool.not_true, foldE]; exact ih st
    | reset => simp only [List.filter, HOp.isEval, Bool.not_false, foldE]; exact ih _

theorem layer_eval_transparent (P : PhaseOps Φ) (st : LayerState Φ) (h : List (HOp Φ)) :
    foldE (layerH P) st (h.filter fun op => !op.isEval) = foldE (layerH P) st h := by
  induction h generalizing st with
  | nil => rfl
  | cons op ops ih =>
    cases op with
    | call c =>
      simp only [List.filter, HOp.isEval, Bool.not_false, foldE]
      cases layerH P st (.call c) with
      | error e => rfl
      | ok s1 => exact ih s1
    | eval => simp only [List.filter, HOp.isEval, Bool.not_true, foldE]; exact ih st
    | reset => simp only [List.filter, HOp.isEval, Bool.not_false, foldE]; exact ih _

/-! ## build calls only add -/

/-- index-based class: a build call prepends to the item list and touches nothing registered before -/
theorem bin_step_grows (P : PhaseOps Φ) (st st' : BinState Φ) (c : CircCall Φ) (h : st.step P c = .ok st') :
    ∃ l, st'.items = l ++ st.items := (bin_step_items P st st' c h).1

theorem flush_grows (st : LayerState Φ) : ∃ l, st.flush.mpList = l ++ st.mpList := by
  unfold LayerState.flush
  split
  · exact ⟨[st.mp], rfl⟩
  · exact ⟨[], rfl⟩

theorem lapply1_grows (st st' : LayerState Φ) (i : Nat) (e : Entry) (h : st.apply1 i e = .ok st') :
    ∃ l, st'.mpList = l ++ st.mpList := by
  unfold LayerState.apply1 at h
  simp only [bind, Except.bind, pure, Except.pure] at h
  split at h
  · cases h
  · cases h; exact flush_grows _

theorem lapply2_grows (st st' : LayerState Φ) (i : Nat) (e : Entry) (phi : List Φ) (h : st.apply2 i e phi = .ok st') :
    ∃ l, st'.mpList = l ++ st.mpList := by
  unfold LayerState.apply2 at h
  simp only [bind, Except.bind, pure, Except.pure] at h
  split at h
  · cases h
  · cases h; exact flush_grows _

/-- layered classes: completed layers are never altered or dropped by a build call -/
theorem layer_step_grows (P : PhaseOps Φ) (st st' : LayerState Φ) (c : CircCall Φ) (h : st.step P c = .ok st') :
    ∃ l, st'.mpList = l ++ st.mpList := by
  cases c with
  | Rz i th =>
    simp only [LayerState.step, bind, Except.bind] at h
    split at h
    · cases h
    · split at h
      · cases h
      · cases h; exact ⟨[], rfl⟩
  | I i => exact lapply1_grows st st' i _ h
  | X i pars =>
    simp only [LayerState.step, bind, Except.bind] at h
    split at h
    · cases h
    · have := lapply1_grows _ st' i _ h; exact this
  | SX i pars =>
    simp only [LayerState.step, bind, Except.bind] at h
    split at h
    · cases h
    · have := lapply1_grows _ st' i _ h; exact this
  | relaxation i pars =>
    simp only [LayerState.step, bind, Except.bind] at h
    split at h
    · cases h
    · have := lapply1_grows _ st' i _ h; exact this
  | bitflip i pars =>
    simp only [LayerState.step, bind, Except.bind] at h
    split at h
    · cases h
    · have := lapply1_grows _ st' i _ h; exact this
  | CNOT i k pars =>
    simp only [LayerState.step, bind, Except.bind] at h
    split at h
    · cases h
    · have := lapply2_grows _ st' i _ _ h; exact this
  | ECR i k pars =>
    simp only [LayerState.step, bind, Except.bind] at h
    split at h
    · cases h
    · have := lapply2_grows _ st' i _ _ h; exact this

/-! ## a run leaves its inputs untouched (shot loop of C10's model, regenerated argument table) -/

section Run
open QG.Model.IntegratorCache QG.IntegratorCache QG.Gen.Determinism
variable {V G M S : Type}

/-- every entry of the argument dict `_perform_simulation` builds for a shot — circuit data, circuit object (with its gate
set), device parameters, initial state, layout — is a deep copy of the caller's object or a fresh object built from deep
copies; none is the caller's object itself.  `decide` on the table regenerated from simulator.py: it stops checking when a
`copy.deepcopy` is removed. -/
theorem run_shot_arguments_are_copies : shotArgsIsolated shotArgs = true := QG.C10.shot_arguments_isolated

/-- whatever the shots do to the objects they are handed (`shot : S → Prog V (M × S)` returns an arbitrarily modified `S`),
the caller's objects `s` are exactly as before after a sequential run of any number of shots, from any generator state and
any cache history -/
theorem run_inputs_untouched (compute : Req → V) (rng : Rng G V) (shot : S → Prog V (M × S)) (s : S)
    (hshot : ∀ g c, ∀ r ∈ (shot s).reqs config compute rng g c, NoNegZero (r.seen config.coerced))
    (n : Nat) (g : G) (history : List Req) (hh : ∀ r ∈ history, NoNegZero (r.seen config.coerced)) :
    (runShots config compute rng (shotArgsIsolated shotArgs) shot n s g (runReqs config compute [] history).1).2.1 = s :=
  (QG.C10.run_seq_deterministic compute rng shot s hshot n g history hh).2.2.1

/-- hence repeating the run from the same generator state (a deterministic gate set, or the same seed) on the objects the
first run left behind gives the identical list of shot results -/
theorem run_repeatable (compute : Req → V) (rng : Rng G V) (shot : S → Prog V (M × S)) (s : S)
    (hshot : ∀ g c, ∀ r ∈ (shot s).reqs config compute rng g c, NoNegZero (r.seen config.coerced))
    (n : Nat) (g : G) (history : List Req) (hh : ∀ r ∈ history, NoNegZero (r.seen config.coerced)) :
    let warm := (runReqs config compute [] history).1
    let first := runShots config compute rng (shotArgsIsolated shotArgs) shot n s g warm
    let second := runShots config compute rng (shotArgsIsolated shotArgs) shot n first.2.1 g first.2.2.2
    second.1 = first.1 :=
  QG.C10.run_seq_repeatable compute rng shot s hshot n g history hh

/-- the model tells the faulty construction apart: with one shared (not copied) argument the loop is *not* isolated -/
example : shotArgsIsolated (("psi0", ShotArg.shared) :: shotArgs) = false := by decide

end Run

/-! ## non-vacuity: concrete histories -/

/-- a history with an evaluation between build calls, a reversed CNOT, a reset and a rebuild runs without error and
the rebuilt object is the new object's -/
example :
    (foldE (binH intPhase) (BinObj.init intPhase 2)
      [.call (.X 0 []), .eval, .call (.CNOT 1 0 []), .eval, .reset, .call (.Rz 1 7), .call (.SX 1 [])]).map BinObj.seen
    = .ok [(some ⟨"SX", [-7], []⟩, .one 1)] := by rfl

example :
    (foldE (binH intPhase) (BinObj.init intPhase 2) [.call (.X 0 []), .eval, .call (.CNOT 1 0 [])]).map (·.qls)
    = .ok [.two 0 1, .one 0] := by rfl

example :
    (foldE (layerH intPhase) (LayerState.init intPhase 2)
      [.call (.X 0 []), .call (.I 1), .eval, .reset, .call (.SX 1 []), .call (.I 0)]).map viewL
    = .ok (2, 0, [0, 0], [.one, .one], [[.ident, .gate ⟨"SX", [0], []⟩]]) := by rfl

end QG.C11
