import QG.Model.Backend
/-! C01 — placeholder while the proofs are being built (stage 1). -/
namespace QG.C01
open QG.Model.Backend

theorem stage1_stub : chunkList [1, 2, 3, 4, 5, 6, 7] 2 3 = .ok [[1, 2, 3], [4, 5, 6, 7]] := by rfl

end QG.C01
