import QG.Lemmas.BackendEfficient
import QG.Lemmas.BackendOnes
import QG.Lemmas.BackendCorollaries
import QG.Lemmas.BackendBinaryBridge
import QG.Props.C02
/-!
# C01 — every layer-based backend applies exactly the layered Kronecker product

The theorems are about the executable model `QG.Model.Backend` (tied to `backend.py` by the differential
correspondence of `harness/props/c01.py`), instantiated with the scalar dictionary `dictOf R` of an arbitrary
commutative semiring `R` with decidable equality (`ℂ` for the code's intent, Gaussian integers for what the
correspondence runs).

* Domain (`Admissible`): `n ≥ 1`, a non-empty list of layers each satisfying the decidable predicate `Layer.wf n`
  (2x2 / 4x4 matrices, every 4x4 with exactly one scalar placeholder immediately before or after it, `n` entries),
  `ψ` of length `2^n`.
* Right-hand side: `specApply n L ψ` — fold `ψ ↦ mulVec (2^n) (layerMat l) ψ` over `L`, first layer first, where
  `layerMat l = kronList (l.map blockLeg)` is the Kronecker product of the layer (`QG.Spec.KronFlat.kron` is `np.kron`'s
  index definition and is Mathlib's `Matrix.kroneckerMap (· * ·)` by `QG.Spec.KronFlat.kron_eq_kroneckerMap`).
* The code's own limit of 26 contraction letters is a hypothesis exactly where the code asserts it:
  `numOperands n min opt ≤ 13` in the chunked regime of `EfficientBackend`, `≤ 26` matrices per layer in
  `BackendForOnes`; without it the model returns the `AssertionError` (`efficient_too_many_operands`).
* Chunk settings: every `min`, every `opt ≥ 1` (in particular all `1 ≤ min ≤ opt`).

Not theorems (said here so that nothing is silently dropped):
* "the input vector is left unmodified" is a statement about aliasing of numpy buffers; the model is purely functional.
  It is observed by the harness on every case (bytes of `psi0` before / after).

The clause "the index-based backend fed the same matrices item by item returns the same vector" IS a theorem here
(`binary_layer_spec`): C02's `binary_spec` (QG.Props.C02: `BinaryBackend.statevector`, optimizer included, applies the
items one after another in the bit-vector register `QG.Spec.Register`) composed with the bridge
`QG.Lemmas.Backend.sem_layers` (the embedding `E1`/`E2` of a gate on qubit `q` / the adjacent pair `(q, q+1)` is
`1 ⊗ M ⊗ 1` on flat indices, and a layer's Kronecker product is the product of the embeddings of its blocks,
`layer_eq_prod_embed`).
-/
open Finset QG.Model.Backend QG.Lemmas.Backend
open QG.Spec.KronFlat hiding Leg

set_option linter.unusedSectionVars false

namespace QG.C01

variable {R : Type} [CommSemiring R] [DecidableEq R]

/-- the domain of the property -/
structure Admissible (n : ℕ) (L : List (Layer (Mat R))) (ψ : Array R) : Prop where
  n_pos : 1 ≤ n
  nonempty : L ≠ []
  wf : ∀ l ∈ L, Layer.wf n l = true
  size : ψ.size = 2 ^ n

private theorem wf_wfi {n : ℕ} {l : Layer (Mat R)} (h : Layer.wf n l = true) : WFI l ∧ l.length = n := by
  unfold Layer.wf at h
  simp only [Bool.and_eq_true, beq_iff_eq] at h
  exact ⟨wfi_of_wfBlocks l h.1, h.2⟩

/-! ## the three backends compute the layered Kronecker product -/

/-- `StandardBackend(n).statevector(L, ψ)` = `(kron of last layer) ⋯ (kron of first layer) ψ` -/
theorem standard_spec (n : ℕ) (L : List (Layer (Mat R))) (ψ : Array R) (h : Admissible n L ψ) :
    standard (dictOf R) n L ψ = .ok (specApply n L ψ) :=
  standard_ok h.n_pos L h.nonempty (fun l hl => wf_wfi (h.wf l hl)) ψ h.size

/-- `EfficientBackend(n, min, opt).statevector(L, ψ)`, every regime (`n < 4`: dense; `4 ≤ n < 2·opt`: one split at list
position `n / 2`; `n ≥ 2·opt`: chunks of `opt` entries with the short-tail merge), every `min`, every `opt ≥ 1` -/
theorem efficient_spec (n mn op : ℕ) (L : List (Layer (Mat R))) (ψ : Array R) (h : Admissible n L ψ)
    (hop : 1 ≤ op) (hlegs : n < 4 ∨ n < 2 * op ∨ numOperands n mn op ≤ 13) :
    efficient (dictOf R) n mn op L ψ = .ok (specApply n L ψ) := by
  unfold efficient
  rw [if_neg (by simpa using h.nonempty)]
  apply foldlM_steps (fun l ψ => do
    let p ← effLayer (matOps (dictOf R)) n mn op (l.map Block.toPy)
    applyPlan (dictOf R) p ψ) L _ ψ h.size
  intro l hl ψ' hψ'
  obtain ⟨hw, hlen⟩ := wf_wfi (h.wf l hl)
  obtain ⟨p, hp, hok⟩ := effLayer_ok (mn := mn) hw hlen h.n_pos hop hlegs
  obtain ⟨ψ'', h1, h2, h3⟩ := applyPlan_ok hok ψ' hψ'
  exact ⟨ψ'', by simp only [hp, bind, Except.bind]; exact h1, h2, h3⟩

/-- number of ndarray entries of a layer (`len([m for m in mp if isinstance(m, np.ndarray)])`) -/
def numMats (l : Layer (Mat R)) : ℕ := (matsOf l).length

/-- `BackendForOnes(n).statevector(L, ψ)`, both regimes (`n ≤ 6`: `_kronecker` divide and conquer; `n > 6`: identity scan,
both copies of the 19 / 11-or-14 / 8 splitting, contraction with untouched legs, all-identity shortcut) -/
theorem ones_spec (n : ℕ) (L : List (Layer (Mat R))) (ψ : Array R) (h : Admissible n L ψ)
    (hlegs : ∀ l ∈ L, numMats l ≤ 26) :
    ones (dictOf R) n L ψ = .ok (specApply n L ψ) := by
  unfold ones
  rw [if_neg (by simpa using h.nonempty)]
  apply foldlM_steps (fun l ψ => do
    let p ← onesLayer (matOps (dictOf R)) n (l.map Block.toPy)
    applyPlan (dictOf R) p ψ) L _ ψ h.size
  intro l hl ψ' hψ'
  obtain ⟨hw, hlen⟩ := wf_wfi (h.wf l hl)
  obtain ⟨p, hp, hok⟩ := onesLayer_ok hw hlen h.n_pos (hlegs l hl)
  obtain ⟨ψ'', h1, h2, h3⟩ := applyPlan_ok hok ψ' hψ'
  exact ⟨ψ'', by simp only [hp, bind, Except.bind]; exact h1, h2, h3⟩

/-! ## error behaviour at the edge of the domain -/

/-- no layers: the two einsum backends assert, `StandardBackend` returns the matrix `np.eye(2**n)` instead of a vector -/
theorem empty_layer_list (n mn op : ℕ) (ψ : Array R) :
    efficient (dictOf R) n mn op [] ψ = .error .assertion ∧ ones (dictOf R) n [] ψ = .error .assertion ∧
      standard (dictOf R) n [] ψ = .error .eyeMatrix := ⟨rfl, rfl, rfl⟩

/-- beyond the code's limit of 13 operands the chunked regime raises its AssertionError (so the hypothesis `hlegs` of
`efficient_spec` is exactly the code's own) -/
theorem efficient_too_many_operands (n mn op : ℕ) (L : List (Layer (Mat R))) (ψ : Array R) (h : Admissible n L ψ)
    (hop : 1 ≤ op) (h4 : 4 ≤ n) (h2 : 2 * op ≤ n) (hmany : 13 < numOperands n mn op) :
    efficient (dictOf R) n mn op L ψ = .error .assertion := by
  unfold efficient
  rw [if_neg (by simpa using h.nonempty)]
  obtain ⟨l, rest, rfl⟩ := List.exists_cons_of_ne_nil h.nonempty
  obtain ⟨hw, hlen⟩ := wf_wfi (h.wf l (by simp))
  obtain ⟨cs, hcs, hflat, hne⟩ := chunkList_ok (l.map Block.toPy) mn op hop (by simpa [hlen] using h2)
  have hnum : 13 < cs.length := by
    have := chunkList_length_le _ _ _ _ hcs
    rw [List.length_map, hlen] at this
    omega
  have hlayer : effLayer (matOps (dictOf R)) n mn op (l.map Block.toPy) = .error .assertion := by
    unfold effLayer
    rw [if_neg (by omega), if_pos (by omega), hcs]
    simp only [bind, Except.bind]
    rw [mapM_ok _ (fun c => PyVal.arr (chunkMat c))]
    · simp only [einsumMany]
      rw [if_pos (by simp; omega)]
    · intro c hc
      obtain ⟨⟨v, hv, hv'⟩, _⟩ := chunkMat_sem c (hne c hc)
      rw [hv]
      simp only [pure, Except.pure, hv']
  rw [List.foldlM_cons, hlayer]
  rfl

/-- the chunk-count hypothesis of `efficient_spec` in closed form: `⌈n / opt⌉` chunks, one less when the last chunk
(`n % opt` entries, or `opt` when `opt ∣ n`) is shorter than `min` and is therefore merged into its predecessor -/
theorem numOperands_closed_form (n mn op : ℕ) (hop : 1 ≤ op) (hn : 2 * op ≤ n) :
    numOperands n mn op =
      if (if n % op = 0 then op else n % op) < mn then (n + op - 1) / op - 1 else (n + op - 1) / op :=
  numOperands_eq n mn op hop hn

/-! ## linear in the input vector -/

/-- additive and homogeneous: if `χ = a·ψ + b·φ` entrywise then the same holds for the results -/
theorem standard_linear (n : ℕ) (L : List (Layer (Mat R))) (a b : R) (ψ φ χ : Array R)
    (hψ : Admissible n L ψ) (hφ : φ.size = 2 ^ n) (hχ : χ.size = 2 ^ n)
    (hlin : ∀ i < 2 ^ n, vfn χ i = a * vfn ψ i + b * vfn φ i) :
    ∃ rψ rφ rχ, standard (dictOf R) n L ψ = .ok rψ ∧ standard (dictOf R) n L φ = .ok rφ ∧
      standard (dictOf R) n L χ = .ok rχ ∧ ∀ i < 2 ^ n, vfn rχ i = a * vfn rψ i + b * vfn rφ i :=
  linear_of_spec (standard (dictOf R) n L)
    (fun ψ' hψ' => standard_spec n L ψ' ⟨hψ.n_pos, hψ.nonempty, hψ.wf, hψ'⟩) a b ψ φ χ hψ.size hφ hχ hlin

theorem efficient_linear (n mn op : ℕ) (L : List (Layer (Mat R))) (a b : R) (ψ φ χ : Array R)
    (hψ : Admissible n L ψ) (hφ : φ.size = 2 ^ n) (hχ : χ.size = 2 ^ n)
    (hop : 1 ≤ op) (hlegs : n < 4 ∨ n < 2 * op ∨ numOperands n mn op ≤ 13)
    (hlin : ∀ i < 2 ^ n, vfn χ i = a * vfn ψ i + b * vfn φ i) :
    ∃ rψ rφ rχ, efficient (dictOf R) n mn op L ψ = .ok rψ ∧ efficient (dictOf R) n mn op L φ = .ok rφ ∧
      efficient (dictOf R) n mn op L χ = .ok rχ ∧ ∀ i < 2 ^ n, vfn rχ i = a * vfn rψ i + b * vfn rφ i :=
  linear_of_spec (efficient (dictOf R) n mn op L)
    (fun ψ' hψ' => efficient_spec n mn op L ψ' ⟨hψ.n_pos, hψ.nonempty, hψ.wf, hψ'⟩ hop hlegs)
    a b ψ φ χ hψ.size hφ hχ hlin

theorem ones_linear (n : ℕ) (L : List (Layer (Mat R))) (a b : R) (ψ φ χ : Array R)
    (hψ : Admissible n L ψ) (hφ : φ.size = 2 ^ n) (hχ : χ.size = 2 ^ n)
    (hlegs : ∀ l ∈ L, numMats l ≤ 26)
    (hlin : ∀ i < 2 ^ n, vfn χ i = a * vfn ψ i + b * vfn φ i) :
    ∃ rψ rφ rχ, ones (dictOf R) n L ψ = .ok rψ ∧ ones (dictOf R) n L φ = .ok rφ ∧
      ones (dictOf R) n L χ = .ok rχ ∧ ∀ i < 2 ^ n, vfn rχ i = a * vfn rψ i + b * vfn rφ i :=
  linear_of_spec (ones (dictOf R) n L)
    (fun ψ' hψ' => ones_spec n L ψ' ⟨hψ.n_pos, hψ.nonempty, hψ.wf, hψ'⟩ hlegs) a b ψ φ χ hψ.size hφ hχ hlin

/-! ## identity entries (and every other entry) matter only through their denotation

`LayersEq L L'`: same shapes, corresponding matrices have the same dimension and the same entries.  For
`BackendForOnes` this is not a triviality: which code path an entry takes depends on `np.array_equal(m, np.eye(2))`,
i.e. on the *representation*; any two representations of the identity (skipped by the scan or multiplied in like any
other matrix) give the same vector, and so does any backend on either list. -/

theorem standard_identity_irrelevant (n : ℕ) (L L' : List (Layer (Mat R))) (ψ : Array R)
    (h : Admissible n L ψ) (h' : Admissible n L' ψ) (heq : LayersEq L L') :
    standard (dictOf R) n L ψ = standard (dictOf R) n L' ψ := by
  rw [standard_spec n L ψ h, standard_spec n L' ψ h', specApply_congr heq]

theorem efficient_identity_irrelevant (n mn op : ℕ) (L L' : List (Layer (Mat R))) (ψ : Array R)
    (h : Admissible n L ψ) (h' : Admissible n L' ψ) (heq : LayersEq L L')
    (hop : 1 ≤ op) (hlegs : n < 4 ∨ n < 2 * op ∨ numOperands n mn op ≤ 13) :
    efficient (dictOf R) n mn op L ψ = efficient (dictOf R) n mn op L' ψ := by
  rw [efficient_spec n mn op L ψ h hop hlegs, efficient_spec n mn op L' ψ h' hop hlegs, specApply_congr heq]

theorem ones_identity_irrelevant (n : ℕ) (L L' : List (Layer (Mat R))) (ψ : Array R)
    (h : Admissible n L ψ) (h' : Admissible n L' ψ) (heq : LayersEq L L')
    (hlegs : ∀ l ∈ L, numMats l ≤ 26) (hlegs' : ∀ l ∈ L', numMats l ≤ 26) :
    ones (dictOf R) n L ψ = ones (dictOf R) n L' ψ := by
  rw [ones_spec n L ψ h hlegs, ones_spec n L' ψ h' hlegs', specApply_congr heq]

/-- all three backends agree with each other -/
theorem backends_agree (n mn op : ℕ) (L : List (Layer (Mat R))) (ψ : Array R) (h : Admissible n L ψ)
    (hop : 1 ≤ op) (hlegs : n < 4 ∨ n < 2 * op ∨ numOperands n mn op ≤ 13) (hlegs' : ∀ l ∈ L, numMats l ≤ 26) :
    efficient (dictOf R) n mn op L ψ = standard (dictOf R) n L ψ ∧
      ones (dictOf R) n L ψ = standard (dictOf R) n L ψ := by
  rw [standard_spec n L ψ h, efficient_spec n mn op L ψ h hop hlegs, ones_spec n L ψ h hlegs']
  exact ⟨rfl, rfl⟩

/-! ## the first entry of a layer is the most significant qubit -/

/-- the layer `[I, …, I, A, I, …, I]` with `A` at list position `p` and `k` identities after it -/
def singleLayer (I A : Mat R) (p k : ℕ) : Layer (Mat R) :=
  List.replicate p (Block.mat I) ++ [Block.mat A] ++ List.replicate k (Block.mat I)

private theorem wfBlocks_replicate (I : Mat R) (hI : I.dim = 2) (k : ℕ) (rest : Layer (Mat R))
    (h : wfBlocks Mat.dim rest = true) : wfBlocks Mat.dim (List.replicate k (Block.mat I) ++ rest) = true := by
  induction k with
  | zero => simpa using h
  | succ k ih =>
    rw [List.replicate_succ, List.cons_append]
    unfold wfBlocks
    simp [hI, ih]

theorem singleLayer_wf (I A : Mat R) (hI : I.dim = 2) (hA : A.dim = 2) (p k : ℕ) :
    Layer.wf (p + 1 + k) (singleLayer I A p k) = true := by
  unfold Layer.wf singleLayer
  simp only [Bool.and_eq_true, beq_iff_eq]
  constructor
  · rw [List.append_assoc]
    apply wfBlocks_replicate I hI
    rw [List.singleton_append]
    unfold wfBlocks
    simp only [hA, beq_self_eq_true, if_true]
    have := wfBlocks_replicate I hI k [] rfl
    simpa using this
  · simp only [List.length_append, List.length_replicate, List.length_singleton]

/-- the result of applying the layer `[I,…,I, A, I,…,I]` (`A` at position `p`, `n = p + 1 + k`): the flat index is
`hi·2^(k+1) + a·2^k + lo` with `a` the bit of weight `2^k = 2^(n-1-p)`, and `A` acts on that bit — position 0 is the
most significant qubit -/
theorem msb_first (I A : Mat R) (hI : I.dim = 2) (hIf : fn I = idMat 2) (hA : A.dim = 2) (p k : ℕ) (ψ : Array R)
    (hi a lo : ℕ) (hhi : hi < 2 ^ p) (ha : a < 2) (hlo : lo < 2 ^ k) :
    vfn (specApply (p + 1 + k) [singleLayer I A p k] ψ) (hi * (2 * 2 ^ k) + a * 2 ^ k + lo) =
      ∑ b ∈ range 2, fn A a b * vfn ψ (hi * (2 * 2 ^ k) + b * 2 ^ k + lo) := by
  have hK : 0 < 2 ^ k := Nat.pow_pos (by omega)
  have hidx : hi * (2 * 2 ^ k) + a * 2 ^ k + lo < 2 ^ (p + 1 + k) := by
    have e : 2 ^ (p + 1 + k) = 2 ^ p * (2 * 2 ^ k) := by rw [pow_add, pow_add]; ring
    have h1 : (hi + 1) * (2 * 2 ^ k) ≤ 2 ^ p * (2 * 2 ^ k) := Nat.mul_le_mul_right _ (by omega)
    have h2 : a * 2 ^ k ≤ 1 * 2 ^ k := Nat.mul_le_mul_right _ (by omega)
    have h3 : (hi + 1) * (2 * 2 ^ k) = hi * (2 * 2 ^ k) + 2 * 2 ^ k := by ring
    omega
  rw [vfn_specApply _ _ _ _ hidx]
  simp only [specFn, List.foldl_cons, List.foldl_nil]
  -- the layer's Kronecker product is that of the three legs (identity, A, identity)
  obtain ⟨dp, kp⟩ := kronList_replicate_id (R := R) p (fn I) hIf
  obtain ⟨dk, kk⟩ := kronList_replicate_id (R := R) k (fn I) hIf
  have hmapI : ∀ m, (List.replicate m (Block.mat I)).map blockLeg = List.replicate m ((2, some (fn I)) : SLeg R) := by
    intro m; simp [blockLeg, Block.toPy, pvLeg, matLeg, hI]
  have hgoodI : ∀ m, ∀ x ∈ List.replicate m ((2, some (fn I)) : SLeg R), Leg.Good x := by
    intro m x hx
    rw [List.eq_of_mem_replicate hx]
    refine ⟨by simp, ?_⟩
    have := fn_isCut I
    rwa [hI] at this
  have hgoodA : Leg.Good ((2, some (fn A)) : SLeg R) := by
    refine ⟨by simp, ?_⟩
    have := fn_isCut A
    rwa [hA] at this
  have hLp : LEq (List.replicate p ((2, some (fn I)) : SLeg R)) [((2 ^ p, none) : SLeg R)] :=
    ⟨by rw [dp, dims_single], by rw [kp, kronList_single]; rfl⟩
  have hLk : LEq (List.replicate k ((2, some (fn I)) : SLeg R)) [((2 ^ k, none) : SLeg R)] :=
    ⟨by rw [dk, dims_single], by rw [kk, kronList_single]; rfl⟩
  have h3 : LEq ((singleLayer I A p k).map blockLeg)
      [((2 ^ p, none) : SLeg R), (2, some (fn A)), (2 ^ k, none)] := by
    unfold singleLayer
    rw [List.append_assoc, List.map_append, List.map_append, hmapI, hmapI]
    have hA' : [Block.mat A].map blockLeg = [((2, some (fn A)) : SLeg R)] := by
      simp [blockLeg, Block.toPy, pvLeg, matLeg, hA]
    rw [hA']
    have hr : LEq ([((2, some (fn A)) : SLeg R)] ++ List.replicate k ((2, some (fn I)) : SLeg R))
        ([((2, some (fn A)) : SLeg R)] ++ [((2 ^ k, none) : SLeg R)]) :=
      LEq.append (LEq.refl _) hLk (hgoodI k) (by simpa using good_none (2 ^ k) hK)
    have := LEq.append hLp hr
      (by
        intro x hx
        simp only [List.mem_append, List.mem_singleton] at hx
        rcases hx with rfl | hx
        · exact hgoodA
        · exact hgoodI k x hx)
      (by
        intro x hx
        simp only [List.mem_append, List.mem_singleton] at hx
        rcases hx with rfl | rfl
        · exact hgoodA
        · exact good_none (2 ^ k) hK)
    simpa using this
  have hd3 : dims [((2 ^ p, none) : SLeg R), (2, some (fn A)), (2 ^ k, none)] = 2 ^ (p + 1 + k) := by
    simp only [dims]; rw [pow_add, pow_add]; ring
  have hlm : layerMat (singleLayer I A p k) =
      kronList [((2 ^ p, none) : SLeg R), (2, some (fn A)), (2 ^ k, none)] := h3.2
  rw [hlm, ← hd3, ← einsumList_eq _ (by
      intro x hx
      simp only [List.mem_cons, List.not_mem_nil, or_false] at hx
      rcases hx with rfl | rfl | rfl
      · exact Nat.pow_pos (by omega)
      · omega
      · exact hK) _ _ (by rw [hd3]; exact hidx)]
  exact einsum_three (2 ^ p) (2 ^ k) hK (fn A) (vfn ψ) hi a lo ha hlo

/-! ## the index-based backend on the same matrices, item by item -/

/-- a layer's Kronecker product is the product of the embeddings `1 ⊗ block ⊗ 1` of its blocks, applied one after the
other in list order (scalar placeholders contribute the factor 1) -/
theorem layer_eq_prod_embed (n : ℕ) (l : Layer (Mat R)) (hwf : Layer.wf n l = true) (v : ℕ → R) (i : ℕ)
    (hi : i < 2 ^ n) :
    mulVec (2 ^ n) (layerMat l) v i = applyBlocks 1 (l.map blockLeg) v i := by
  obtain ⟨hw, hlen⟩ := wf_wfi hwf
  have hd : dims (l.map blockLeg) = 2 ^ n := by rw [hw.length_dims, hlen]
  rw [applyBlocks_eq 1 (by omega) _ hw.good _ i (by rw [hd, Nat.one_mul]; exact hi), hd, Nat.one_mul]
  have : kronList (((1, none) : SLeg R) :: l.map blockLeg) = layerMat l := by
    rw [kronList_cons]
    exact kron_one_left (isCut_kronList _ hw.good)
  rw [this]

/-- `BinaryBackend(n).statevector(items, ψ)` (C02's model: level-4 optimizer, then dense / sparse operator construction
item by item) on the item list `[[M, [q]], [G, [q, q+1]], …]` of the same layers (`layersItems`: a 2x2 entry at list
position `q` is `[M, [q]]`, a 4x4 entry with its placeholder after or before it is `[G, [q, q+1]]`, layer after layer)
returns the same vector as the layer-based backends -/
theorem binary_layer_spec (n : ℕ) (L : List (Layer (Mat R))) (ψ : Array R) (h : Admissible n L ψ) :
    QG.Model.Binary.statevector (QG.Spec.Register.semiringScalar R) (QG.Spec.Register.matOps R)
        (QG.Spec.Register.regEntries R) n ((layersItems L).map toRaw) ψ.toList =
      .ok (specApply n L ψ).toList := by
  have hwf : ∀ l ∈ L, WFI l ∧ l.length = n := fun l hl => wf_wfi (h.wf l hl)
  have hnorm : ((layersItems L).map toRaw).map QG.Model.Optimizer.normalize = layersItems L := by
    rw [List.map_map]
    conv_rhs => rw [← List.map_id (layersItems L)]
    apply List.map_congr_left
    intro x _
    exact normalize_toRaw x
  rw [QG.C02.binary_spec n _ (by rw [hnorm]; exact wf_layersItems L hwf)
    (by simpa using layersItems_ne h.n_pos L h.nonempty hwf) ψ.toList (by simpa using h.size), hnorm]
  congr 1
  rw [listOf_eq_ofFn]
  unfold specApply
  congr 2
  funext i
  rw [sem_layers L hwf _ i.val i.isLt]
  exact specFn_congr' n L _ _ (fun j hj => flatOf_vecOf ψ j hj) i.val i.isLt

/-- the items of `binary_layer_spec` act on exactly the qubits that the executable `itemQubits` of the model lists (the
driver's `items` op, compared on every run with the item lists the harness hands to the real `BinaryBackend`) -/
theorem binary_items_qubits (L : List (Layer (Mat R))) :
    (layersItems L).map itemQ = L.flatMap fun l => itemQubits Mat.dim l 0 := by
  induction L with
  | nil => rfl
  | cons l rest ih =>
    simp only [layersItems, List.flatMap_cons, List.map_append] at ih ⊢
    rw [ih, itemsFrom_qubits]

/-! ## non-vacuity: concrete objects satisfy the hypotheses -/

section Examples

/-- Gaussian-integer style test matrices over `ℤ` -/
private def mA : Mat ℤ := ⟨2, #[1, 2, 3, 4]⟩
private def mI : Mat ℤ := ⟨2, #[1, 0, 0, 1]⟩
private def mG : Mat ℤ := ⟨4, #[1, 0, 0, 0, 0, 1, 0, 0, 0, 0, 0, 1, 0, 0, 1, 0]⟩

/-- a 9-qubit layer with a 4x4 block straddling the 4 | 4 | 1 chunk boundary (entries 3 and 4) is well formed -/
example : Layer.wf 9 ([.mat mA, .mat mI, .mat mA, .mat mG, .scalar, .mat mA, .mat mI, .mat mA, .mat mA] : Layer (Mat ℤ))
    = true := by decide

/-- … also with the placeholder before the block, and a block whose placeholder is the single entry of the last chunk -/
example : Layer.wf 9 ([.mat mA, .mat mI, .mat mA, .scalar, .mat mG, .mat mA, .mat mI, .mat mG, .scalar] : Layer (Mat ℤ))
    = true := by decide

/-- `Admissible` is inhabited by a two-layer 3-qubit circuit (so the hypotheses of every theorem above are satisfiable) -/
example : Admissible 3 ([[.mat mA, .mat mG, .scalar], [.scalar, .mat mG, .mat mI]] : List (Layer (Mat ℤ)))
    #[1, 0, 0, 0, 0, 0, 0, 2] :=
  ⟨by decide, by simp, by decide, by decide⟩

/-- the chunk-count hypothesis holds for the default setting up to the code's own limit (`n = 52`: 13 chunks of 4) … -/
example : numOperands 52 3 4 = 13 := by decide
/-- … and is violated just beyond it; the short-tail merge is taken into account (`n = 53`: 14 raw chunks, the last one
of length 1 < 3 is merged: still 13 operands) -/
example : numOperands 53 3 4 = 13 ∧ numOperands 56 3 4 = 14 := by decide

/-- a run of 20 non-identity factors hits the four-way split (pieces 5 / 5 / 5 / 5), in both copies; 13 factors are split
three-way by the copy inside the loop (threshold 11) but two-way by the copy after the loop (threshold 14) -/
example : (splitRun true (List.range 20)).map List.length = [5, 5, 5, 5] ∧
    (splitRun false (List.range 20)).map List.length = [5, 5, 5, 5] ∧
    (splitRun true (List.range 13)).map List.length = [4, 4, 5] ∧
    (splitRun false (List.range 13)).map List.length = [6, 7] := by decide

/-- the item list of `binary_layer_spec` for the two-layer circuit above: qubits `[0], [1,2]` then `[0,1], [2]` (both
placeholder sides give the ascending adjacent pair) -/
example : (layersItems ([[.mat mA, .mat mG, .scalar], [.scalar, .mat mG, .mat mI]] : List (Layer (Mat ℤ)))).map
    (fun x => match x with
      | .one _ q => [q]
      | .two _ a b => [a, b]) = [[0], [1, 2], [0, 1], [2]] := by
  simp [layersItems, itemsFrom, mA, mG, mI]

/-- `msb_first` is not vacuous: an identity representation and a 2x2 matrix exist -/
example : mI.dim = 2 ∧ fn mI = idMat 2 ∧ mA.dim = 2 := by
  refine ⟨rfl, ?_, rfl⟩
  exact (isIdentity_sound mI (by decide)).2

end Examples

end QG.C01
