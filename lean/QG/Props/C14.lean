import QG.Lemmas.RunValidate

/-!
# C14 — a run returns a normalised distribution over all measured outcomes

Property theorems only (model: `QG/Model/RunValidate.lean`; helper lemmas: `QG/Lemmas/RunValidate.lean`).

`run num circ psi0 shots device nqubit sim` is `MrAndersonSimulator.run` with the simulation stage replaced by the vector
`sim` it returns (the mean over the shots of the Born-rule vectors `|ψ|²`, of length `2^nqubit`).  The theorems are about
*every* such vector, so they hold for every gate set, circuit class and shot count.  Python dicts are item lists in
insertion order; keys are bit strings (`List Bool`, first character first, `true` = '1').

Part 0  `_process_layout`                              (`layout_ascending_and_covers`)
Part 1  keys and values of `_measurament`            (`keys_exact`, `keys_first_appearance`, `keys_repeated_qubit`,
                                                       `keys_not_exact_of_repeat`, `values_marginal`)
Part 2  normalisation                                  (`values_nonneg_sum_one`, `nonfinite_is_assertion`, `nan_is_assertion`)
Part 3  argument validation as decision logic          (`rejects_*`, `rejects_any_combination`, `accepts_valid`,
                                                       `accepts_iff_valid`, `validate_decision`, `rejection_classes`)
Part 4  the whole run                                  (`run_valid_distribution`, `run_zero_total_is_assertion`,
                                                       `run_every_shot_count`)
Part 5  the pinned tree before repair D20              (`unrepaired_agrees_on_arrays`, `unrepaired_non_array_psi0`)
-/
namespace QG.C14
open QG.Model.RunValidate QG.Lemmas.RunValidate

/-! ## Part 0 — `_process_layout` -/

/-- **The processed layout** (since repair D6: `used_q.sort()`): strictly ascending qubit labels, exactly the qubits
the loop recorded as used (first-touch order forgotten), and every measured qubit belongs to it — for every circuit. -/
theorem layout_ascending_and_covers (data : List Instr) :
    (processLayout data).1.Pairwise (· < ·) ∧
    (∀ q, q ∈ (processLayout data).1 ↔ q ∈ (layoutLoop data).1) ∧
    (processLayout data).1.length = (layoutLoop data).1.length ∧
    (processLayout data).2 = (layoutLoop data).2 ∧
    (∀ t ∈ (processLayout data).2, t.1 ∈ (processLayout data).1) :=
  ⟨processLayout_ascending data, mem_processLayout data, processLayout_length data, rfl, (processLayout_inv data).2⟩

/-! ## Part 1 — keys and values of `_measurament` -/

/-- the key under which basis state `i` (of `n` qubits) is counted: character `j` is the bit of the `j`-th measured qubit -/
def keyOfState (layout : List Nat) (meas : List (Nat × Nat)) (i : Nat) : List Bool :=
  proj (positions layout meas) (bits layout.length i)

private theorem positions_lt (layout : List Nat) (meas : List (Nat × Nat)) (hmem : ∀ t ∈ meas, t.1 ∈ layout) :
    ∀ i ∈ positions layout meas, i < layout.length := by
  intro i hi
  simp only [positions, List.mem_map] at hi
  obtain ⟨t, ht, rfl⟩ := hi
  exact List.idxOf_lt_length_of_mem (hmem t ht)

private theorem positions_nodup (layout : List Nat) (meas : List (Nat × Nat)) (hmem : ∀ t ∈ meas, t.1 ∈ layout)
    (hdist : (meas.map Prod.fst).Nodup) : (positions layout meas).Nodup := by
  have : positions layout meas = (meas.map Prod.fst).map (fun q => layout.idxOf q) := by
    simp [positions, List.map_map, Function.comp_def]
  rw [this]
  refine List.Nodup.map_on ?_ hdist
  intro a ha b hb hab
  have ha' : a ∈ layout := by
    obtain ⟨t, ht, rfl⟩ := List.mem_map.mp ha
    exact hmem t ht
  have hb' : b ∈ layout := by
    obtain ⟨t, ht, rfl⟩ := List.mem_map.mp hb
    exact hmem t ht
  have h1 := List.getElem_idxOf (List.idxOf_lt_length_of_mem ha')
  have h2 := List.getElem_idxOf (List.idxOf_lt_length_of_mem hb')
  simp only [hab] at h1
  rw [← h1, h2]

private theorem accumulate_keys {α : Type} (num : Num α) (pairs : List (α × List Bool)) :
    (accumulate num pairs).map Prod.fst = firstOcc (pairs.map Prod.snd) := by
  simpa [accumulate, firstOcc] using fold_keys num pairs []

private theorem res_length (layout : List Nat) (meas : List (Nat × Nat)) :
    ((allBits layout.length).map (proj (positions layout meas))).length = 2 ^ layout.length := by
  simp [allBits_length]

/-- **The keys are the projected basis strings in order of first appearance** (whatever the measured list is). -/
theorem keys_first_appearance {α : Type} (num : Num α) (layout : List Nat) (meas : List (Nat × Nat)) (prob : List α)
    (hmem : ∀ t ∈ meas, t.1 ∈ layout) (hlen : prob.length = 2 ^ layout.length) :
    ∃ out, measurement num prob meas layout.length layout = .ok out ∧
      out.map Prod.fst = firstOcc ((List.range (2 ^ layout.length)).map (keyOfState layout meas)) := by
  refine ⟨_, measurement_eq num prob meas layout hmem, ?_⟩
  rw [accumulate_keys, List.map_snd_zip (by rw [res_length, hlen]), ← range_map_bits, List.map_map]
  rfl

/-- **keys_exact.**  For `m` measured qubits that are pairwise distinct and belong to the layout — any number `n` of
qubits, any `m ≤ n`, any order of the measure instructions, any classical bits — `_measurament` does not raise and the
keys of the returned dict are exactly the `2^m` bit strings of length `m`, each once. -/
theorem keys_exact {α : Type} (num : Num α) (layout : List Nat) (meas : List (Nat × Nat)) (prob : List α)
    (hmem : ∀ t ∈ meas, t.1 ∈ layout) (hdist : (meas.map Prod.fst).Nodup)
    (hlen : prob.length = 2 ^ layout.length) :
    ∃ out, measurement num prob meas layout.length layout = .ok out ∧
      (out.map Prod.fst).Nodup ∧ (∀ k, k ∈ out.map Prod.fst ↔ k.length = meas.length) ∧
      out.length = 2 ^ meas.length := by
  refine ⟨_, measurement_eq num prob meas layout hmem, ?_⟩
  have hkeys : (accumulate num (prob.zip ((allBits layout.length).map (proj (positions layout meas))))).map Prod.fst
      = firstOcc ((allBits layout.length).map (proj (positions layout meas))) := by
    rw [accumulate_keys, List.map_snd_zip (by rw [res_length, hlen])]
  have hnd := firstOcc_nodup ((allBits layout.length).map (proj (positions layout meas)))
  have hmemk : ∀ k, k ∈ firstOcc ((allBits layout.length).map (proj (positions layout meas))) ↔
      k.length = meas.length := by
    intro k
    rw [mem_firstOcc, List.mem_map]
    constructor
    · rintro ⟨s, _, rfl⟩
      simp [proj_length, positions]
    · intro hk
      obtain ⟨s, hs, hp⟩ := proj_surj layout.length (positions layout meas)
        (positions_nodup layout meas hmem hdist) (positions_lt layout meas hmem) k (by simp [positions, hk])
      exact ⟨s, mem_allBits.mpr hs, hp⟩
  change ((accumulate num (prob.zip ((allBits layout.length).map (proj (positions layout meas))))).map Prod.fst).Nodup
    ∧ _ ∧ _
  rw [hkeys]
  refine ⟨hnd, hmemk, ?_⟩
  have hperm : (firstOcc ((allBits layout.length).map (proj (positions layout meas)))).Perm (allBits meas.length) :=
    (List.perm_ext_iff_of_nodup hnd (allBits_nodup _)).mpr (fun k => by rw [hmemk, mem_allBits])
  have := hperm.length_eq
  rw [allBits_length, ← hkeys, List.length_map] at this
  exact this

/-- **A qubit measured twice** (two measure instructions on the same qubit, into whatever classical bits): the two
characters of every key agree … -/
theorem keys_repeated_qubit {α : Type} (num : Num α) (layout : List Nat) (meas : List (Nat × Nat)) (prob : List α)
    (hmem : ∀ t ∈ meas, t.1 ∈ layout) (hlen : prob.length = 2 ^ layout.length)
    (j j' : Nat) (hj : j < meas.length) (hj' : j' < meas.length) (hrep : meas[j].1 = meas[j'].1) :
    ∃ out, measurement num prob meas layout.length layout = .ok out ∧
      ∀ k ∈ out.map Prod.fst, k.getD j false = k.getD j' false := by
  obtain ⟨out, ho, hk⟩ := keys_first_appearance num layout meas prob hmem hlen
  refine ⟨out, ho, ?_⟩
  intro k hkm
  rw [hk, mem_firstOcc, List.mem_map] at hkm
  obtain ⟨i, _, rfl⟩ := hkm
  simp only [keyOfState, proj, positions, List.map_map]
  rw [List.getD_eq_getElem?_getD, List.getD_eq_getElem?_getD, List.getElem?_map, List.getElem?_map,
    List.getElem?_eq_getElem hj, List.getElem?_eq_getElem hj']
  simp [hrep]

/-- … so the key set is **not** the set of all strings of that length (its strings have length = number of measure
instructions, and only those with equal characters at the repeated positions occur). -/
theorem keys_not_exact_of_repeat {α : Type} (num : Num α) (layout : List Nat) (meas : List (Nat × Nat)) (prob : List α)
    (hmem : ∀ t ∈ meas, t.1 ∈ layout) (hlen : prob.length = 2 ^ layout.length)
    (j j' : Nat) (hj : j < meas.length) (hj' : j' < meas.length) (hne : j ≠ j') (hrep : meas[j].1 = meas[j'].1) :
    ∃ out, measurement num prob meas layout.length layout = .ok out ∧
      ∃ k, k.length = meas.length ∧ k ∉ out.map Prod.fst := by
  obtain ⟨out, ho, hk⟩ := keys_repeated_qubit num layout meas prob hmem hlen j j' hj hj' hrep
  refine ⟨out, ho, (List.range meas.length).map (fun i => decide (i = j)), by simp, ?_⟩
  intro hmemk
  have := hk _ hmemk
  rw [List.getD_eq_getElem?_getD, List.getD_eq_getElem?_getD, List.getElem?_map, List.getElem?_map,
    List.getElem?_range hj, List.getElem?_range hj'] at this
  simp at this
  exact hne this.symm

private theorem list_eq_map_getD {α : Type} (l : List α) (d : α) :
    l = (List.range l.length).map (fun i => l.getD i d) := by
  apply List.ext_getElem
  · simp
  · intro i h1 h2
    simp [List.getD_eq_getElem?_getD, List.getElem?_eq_getElem h1]

/-- **values_marginal.**  Each value of the returned dict is the sum of the probabilities of the basis states that
agree with its key on the measured positions (no distinctness needed). -/
theorem values_marginal {α : Type} [AddCommMonoid α] (num : Num α) (hl : Lawful num) (layout : List Nat)
    (meas : List (Nat × Nat)) (prob : List α) (hmem : ∀ t ∈ meas, t.1 ∈ layout)
    (hlen : prob.length = 2 ^ layout.length) :
    ∃ out, measurement num prob meas layout.length layout = .ok out ∧ (out.map Prod.fst).Nodup ∧
      ∀ k v, (k, v) ∈ out →
        v = (((List.range (2 ^ layout.length)).filter (fun i => keyOfState layout meas i = k)).map
              (fun i => prob.getD i 0)).sum := by
  refine ⟨_, measurement_eq num prob meas layout hmem, ?_, ?_⟩
  · rw [accumulate_keys]; exact firstOcc_nodup _
  · intro k v hkv
    have hnd : ((accumulate num (prob.zip ((allBits layout.length).map (proj (positions layout meas))))).map
        Prod.fst).Nodup := by rw [accumulate_keys]; exact firstOcc_nodup _
    rw [← getV_of_mem _ hnd k v hkv]
    unfold accumulate
    rw [fold_getV num hl]
    simp only [getV, zero_add]
    have hz : prob.zip ((allBits layout.length).map (proj (positions layout meas))) =
        (List.range (2 ^ layout.length)).map (fun i => (prob.getD i 0, keyOfState layout meas i)) := by
      conv_lhs => rw [list_eq_map_getD prob 0, hlen, ← range_map_bits, List.map_map]
      rw [List.zip_map']
      rfl
    rw [hz, List.filter_map, List.map_map]
    rfl

/-! ## Part 2 — normalisation -/

section field
variable {K : Type} [Field K] [LinearOrder K] [IsStrictOrderedRing K]

/-- **values_nonneg_sum_one.**  Over any linearly ordered field (ℚ, ℝ): for a non-negative vector of length `2^n` with
positive total — what the mean of Born-rule vectors is, whatever the gates and for every shot count — normalisation and
`_measurament` do not raise, and the returned values are `≥ 0` and sum to 1.  The measured list is arbitrary (repeats
allowed); its qubits belong to the layout. -/
theorem values_nonneg_sum_one (layout : List Nat) (meas : List (Nat × Nat)) (r : List K)
    (hmem : ∀ t ∈ meas, t.1 ∈ layout) (hlen : r.length = 2 ^ layout.length)
    (hnn : ∀ x ∈ r, 0 ≤ x) (hpos : 0 < r.sum) :
    ∃ out, finish (fieldNum K) (layout, meas) r = .ok out ∧ (∀ p ∈ out, 0 ≤ p.2) ∧ (out.map Prod.snd).sum = 1 := by
  have hl := fieldNum_lawful (K := K)
  set final := r.map (fun x => x / r.sum) with hfinal
  set res := (allBits layout.length).map (proj (positions layout meas)) with hres
  have hfl : final.length = res.length := by simp [hfinal, hres, hlen, allBits_length]
  have hnd : ((accumulate (fieldNum K) (final.zip res)).map Prod.fst).Nodup := by
    rw [accumulate_keys]; exact firstOcc_nodup _
  refine ⟨accumulate (fieldNum K) (final.zip res), ?_, ?_, ?_⟩
  · simp only [finish, normalise_of_pos r hpos]
    exact measurement_eq (fieldNum K) final meas layout hmem
  · rintro ⟨k, v⟩ hp
    rw [← getV_of_mem _ hnd k v hp]
    unfold accumulate
    rw [fold_getV _ hl]
    simp only [getV, zero_add]
    apply List.sum_nonneg
    intro x hx
    obtain ⟨p, hp', rfl⟩ := List.mem_map.mp hx
    have hp'' : p ∈ final.zip res := (List.mem_filter.mp hp').1
    have : p.1 ∈ final := (List.of_mem_zip (a := p.1) (b := p.2) hp'').1
    obtain ⟨y, hy, hxy⟩ := List.mem_map.mp this
    rw [← hxy]
    exact div_nonneg (hnn y hy) hpos.le
  · unfold accumulate
    rw [fold_sum _ hl, List.map_fst_zip hfl.le]
    simp only [List.map_nil, List.sum_nil, zero_add, hfinal, sum_map_div]
    exact div_self hpos.ne'

/-- **nonfinite_is_assertion (zero or negative total).**  A vector whose total is not positive ends in
`AssertionError`, never in a result. -/
theorem nonfinite_is_assertion (lm : List Nat × List (Nat × Nat)) (r : List K) (h : ¬ 0 < r.sum) :
    finish (fieldNum K) lm r = .error .assertionError := by
  simp [finish, normalise_of_not_pos r h]

/-- arithmetic with a NaN: `none` is NaN, absorbing for `+` and `/`, and `NaN > 0` is false -/
def nanNum (K : Type) [Field K] [LinearOrder K] [IsStrictOrderedRing K] : Num (Option K) :=
  ⟨some 0, fun a b => a.bind fun x => b.map fun y => x + y, fun a b => a.bind fun x => b.map fun y => x / y,
   fun a => match a with | some x => decide (0 < x) | none => false⟩

private theorem foldl_nan (l : List (Option K)) : l.foldl (nanNum K).add none = none := by
  induction l with
  | nil => rfl
  | cons x xs ih => simpa [List.foldl_cons, nanNum] using ih

private theorem foldl_mem_nan (l : List (Option K)) (a : Option K) (h : none ∈ l) :
    l.foldl (nanNum K).add a = none := by
  induction l generalizing a with
  | nil => simp at h
  | cons x xs ih =>
    rcases List.mem_cons.mp h with hx | hx
    · subst hx
      have : (nanNum K).add a none = none := by cases a <;> rfl
      rw [List.foldl_cons, this, foldl_nan]
    · rw [List.foldl_cons]; exact ih _ hx

/-- **nonfinite_is_assertion (NaN).**  If any entry of the vector is NaN (for instance because a sampled gate
contains `sqrt` of a negative derived error), the run ends in `AssertionError`, never in a result. -/
theorem nan_is_assertion (lm : List Nat × List (Nat × Nat)) (r : List (Option K)) (h : none ∈ r) :
    finish (nanNum K) lm r = .error .assertionError := by
  have ht : total (nanNum K) r = none := foldl_mem_nan r _ h
  have hp : (nanNum K).pos none = false := rfl
  unfold finish normalise
  simp only [ht, hp, Bool.false_eq_true, if_false]

end field

/-! ## Part 3 — argument validation as decision logic

The inconsistent-argument classes of the statement, as predicates on what the code can observe.  `data` is the
instruction list of the circuit object (`circ.data? = some data`: the object has a `.data`). -/

/-- "no measurement" -/
def NoMeasurement (data : List Instr) : Prop := (processLayout data).2 = []
/-- "a shot count … not an integer" (`True`/`False` are Python ints) -/
def ShotsNotInteger (shots : PyVal) : Prop := asInt? shots = none
/-- "a shot count below one" -/
def ShotsBelowOne (shots : PyVal) : Prop := ∃ s, asInt? shots = some s ∧ s < 1
/-- "device parameters that are not a mapping" (as the code tests it: not a `dict`) -/
def DeviceNotMapping (device : PyVal) : Prop := asDict? device = none

/-- the shape of an initial-state object where it has a length: arrays, lists, tuples -/
def stateShape? : PyVal → Option (List Nat)
  | .ndarray s => some s
  | .list n => some [n]
  | .tuple n => some [n]
  | _ => none

/-- "initial state whose length is not 2^nqubit" (also: an array that is not one-dimensional) -/
def Psi0LengthMismatch (psi0 nqubit : PyVal) : Prop :=
  ∃ nq shape, asInt? nqubit = some nq ∧ stateShape? psi0 = some shape ∧ shapeMismatch shape nq = true
/-- "more qubits requested than the circuit uses" -/
def MoreQubitsThanUsed (data : List Instr) (nqubit : PyVal) : Prop :=
  ∃ nq, asInt? nqubit = some nq ∧ nq > ((processLayout data).1.length : Int)
/-- "more qubits requested … than the device parameters cover" -/
def MoreQubitsThanDeviceCovers (device nqubit : PyVal) : Prop :=
  ∃ nq k, asInt? nqubit = some nq ∧ asDict? device = some (.sized k) ∧ nq > (k : Int)

/-- any of the inconsistencies the statement names -/
def NamedDefect (data : List Instr) (psi0 shots device nqubit : PyVal) : Prop :=
  NoMeasurement data ∨ ShotsNotInteger shots ∨ ShotsBelowOne shots ∨ DeviceNotMapping device ∨
  Psi0LengthMismatch psi0 nqubit ∨ MoreQubitsThanUsed data nqubit ∨ MoreQubitsThanDeviceCovers device nqubit

/-- **validate_decision.**  The validation as a decision table: `ValueError` exactly when one of the listed
conditions holds; otherwise `KeyError` / `TypeError` / accepted according to `device_param["T1"]` only. -/
theorem validate_decision (c : Bool) (L : Nat) (psi0 shots device nqubit : PyVal) :
    (validate c L psi0 shots device nqubit = .error .valueError ↔
      (c = false ∨ asInt? shots = none ∨ asDict? device = none ∨ asInt? nqubit = none ∨ asNdarray? psi0 = none ∨
       (∃ s, asInt? shots = some s ∧ s < 1) ∨
       (∃ nq shape, asInt? nqubit = some nq ∧ asNdarray? psi0 = some shape ∧ shapeMismatch shape nq = true) ∨
       (∃ nq, asInt? nqubit = some nq ∧ nq > (L : Int)) ∨
       (∃ nq k, asInt? nqubit = some nq ∧ asDict? device = some (.sized k) ∧ nq > (k : Int)))) ∧
    (validate c L psi0 shots device nqubit ≠ .error .valueError →
      (asDict? device = some .missing → validate c L psi0 shots device nqubit = .error .keyError) ∧
      (asDict? device = some .unsized → validate c L psi0 shots device nqubit = .error .typeError) ∧
      (∀ k, asDict? device = some (.sized k) → validate c L psi0 shots device nqubit = .ok ())) := by
  unfold validate
  cases c
  · simp
  rcases hs : asInt? shots with _ | s
  · simp
  rcases hd : asDict? device with _ | t1
  · simp
  rcases hn : asInt? nqubit with _ | nq
  · simp
  rcases hp : asNdarray? psi0 with _ | shape
  · simp
  by_cases h1 : s < 1
  · simp [h1]
  by_cases h2 : shapeMismatch shape nq = true
  · simp [h1, h2]
  by_cases h3 : (L : Int) < nq
  · simp [h1, h2, h3]
  cases t1 with
  | missing => simp [h1, h2, h3]
  | unsized => simp [h1, h2, h3]
  | sized k =>
    by_cases h4 : (k : Int) < nq
    · simp [h1, h2, h3, h4]
    · simp [h1, h2, h3, h4]

private theorem validate_valueError_of (c : Bool) (L : Nat) (psi0 shots device nqubit : PyVal)
    (h : c = false ∨ asInt? shots = none ∨ asDict? device = none ∨ asInt? nqubit = none ∨ asNdarray? psi0 = none ∨
       (∃ s, asInt? shots = some s ∧ s < 1) ∨
       (∃ nq shape, asInt? nqubit = some nq ∧ asNdarray? psi0 = some shape ∧ shapeMismatch shape nq = true) ∨
       (∃ nq, asInt? nqubit = some nq ∧ nq > (L : Int)) ∨
       (∃ nq k, asInt? nqubit = some nq ∧ asDict? device = some (.sized k) ∧ nq > (k : Int))) :
    validate c L psi0 shots device nqubit = .error .valueError :=
  (validate_decision c L psi0 shots device nqubit).1.mpr h

private theorem run_of_validate_error {α : Type} (num : Num α) (circ : CircArg) (data : List Instr)
    (psi0 shots device nqubit : PyVal) (sim : List α) (hd : circ.data? = some data) (e : Err)
    (hv : (processLayout data).2 ≠ [] →
      validate circ.isQC (processLayout data).1.length psi0 shots device nqubit = .error e)
    (he : (processLayout data).2 = [] → e = .valueError) :
    run num circ psi0 shots device nqubit sim = .error e := by
  unfold run runWith precheckWith
  simp only [hd]
  by_cases hm : (processLayout data).2 = []
  · simp [hm, he hm]
  · have : (processLayout data).2.isEmpty = false := by simpa using hm
    simp [this, hv hm]

private theorem psi0_mismatch_cases (psi0 nqubit : PyVal) (h : Psi0LengthMismatch psi0 nqubit) :
    asNdarray? psi0 = none ∨
      ∃ nq shape, asInt? nqubit = some nq ∧ asNdarray? psi0 = some shape ∧ shapeMismatch shape nq = true := by
  obtain ⟨nq, shape, h1, h2, h3⟩ := h
  cases psi0 <;> simp [stateShape?, asNdarray?] at h2 ⊢
  subst h2
  exact ⟨nq, h1, h3⟩

/-- **rejects_any_combination.**  Whenever the circuit object has a `.data` at all and *any* of the named
inconsistencies is present — alone or together with any other defect of any argument — the run ends in `ValueError`
and never in a result, whatever the simulation would return. -/
theorem rejects_any_combination {α : Type} (num : Num α) (circ : CircArg) (data : List Instr)
    (psi0 shots device nqubit : PyVal) (sim : List α) (hd : circ.data? = some data)
    (h : NamedDefect data psi0 shots device nqubit) :
    run num circ psi0 shots device nqubit sim = .error .valueError := by
  apply run_of_validate_error num circ data psi0 shots device nqubit sim hd .valueError _ (fun _ => rfl)
  intro hm
  apply validate_valueError_of
  rcases h with h | h | h | h | h | h | h
  · exact absurd h hm
  · exact Or.inr (Or.inl h)
  · exact Or.inr (Or.inr (Or.inr (Or.inr (Or.inr (Or.inl h)))))
  · exact Or.inr (Or.inr (Or.inl h))
  · rcases psi0_mismatch_cases psi0 nqubit h with h | h
    · exact Or.inr (Or.inr (Or.inr (Or.inr (Or.inl h))))
    · exact Or.inr (Or.inr (Or.inr (Or.inr (Or.inr (Or.inr (Or.inl h))))))
  · exact Or.inr (Or.inr (Or.inr (Or.inr (Or.inr (Or.inr (Or.inr (Or.inl h)))))))
  · exact Or.inr (Or.inr (Or.inr (Or.inr (Or.inr (Or.inr (Or.inr (Or.inr h)))))))

section rejects
variable {α : Type} (num : Num α) (circ : CircArg) (data : List Instr) (psi0 shots device nqubit : PyVal)
  (sim : List α) (hd : circ.data? = some data)
include hd

/-- initial state whose length is not `2^nqubit` -/
theorem rejects_psi0_length (h : Psi0LengthMismatch psi0 nqubit) :
    run num circ psi0 shots device nqubit sim = .error .valueError :=
  rejects_any_combination num circ data psi0 shots device nqubit sim hd (Or.inr (Or.inr (Or.inr (Or.inr (Or.inl h)))))

/-- shot count below one -/
theorem rejects_shots_below_one (h : ShotsBelowOne shots) :
    run num circ psi0 shots device nqubit sim = .error .valueError :=
  rejects_any_combination num circ data psi0 shots device nqubit sim hd (Or.inr (Or.inr (Or.inl h)))

/-- shot count not an integer -/
theorem rejects_shots_not_integer (h : ShotsNotInteger shots) :
    run num circ psi0 shots device nqubit sim = .error .valueError :=
  rejects_any_combination num circ data psi0 shots device nqubit sim hd (Or.inr (Or.inl h))

/-- no measurement -/
theorem rejects_no_measurement (h : NoMeasurement data) :
    run num circ psi0 shots device nqubit sim = .error .valueError :=
  rejects_any_combination num circ data psi0 shots device nqubit sim hd (Or.inl h)

/-- more qubits requested than the circuit uses -/
theorem rejects_more_qubits_than_used (h : MoreQubitsThanUsed data nqubit) :
    run num circ psi0 shots device nqubit sim = .error .valueError :=
  rejects_any_combination num circ data psi0 shots device nqubit sim hd
    (Or.inr (Or.inr (Or.inr (Or.inr (Or.inr (Or.inl h))))))

/-- more qubits requested than the device parameters cover -/
theorem rejects_more_qubits_than_device_covers (h : MoreQubitsThanDeviceCovers device nqubit) :
    run num circ psi0 shots device nqubit sim = .error .valueError :=
  rejects_any_combination num circ data psi0 shots device nqubit sim hd
    (Or.inr (Or.inr (Or.inr (Or.inr (Or.inr (Or.inr h))))))

/-- device parameters that are not a mapping -/
theorem rejects_device_not_mapping (h : DeviceNotMapping device) :
    run num circ psi0 shots device nqubit sim = .error .valueError :=
  rejects_any_combination num circ data psi0 shots device nqubit sim hd (Or.inr (Or.inr (Or.inr (Or.inl h))))

end rejects

/-- what the statement calls consistent arguments: a `QuantumCircuit` with at least one measurement, an integer shot
count `≥ 1` (`True` counts as 1), `nqubit` an integer `nq ≥ 0` not larger than the number of used qubits, `psi0` an
array of shape `(2^nq,)`, device parameters a dict whose `"T1"` covers `nq` qubits -/
def ValidArgs (circ : CircArg) (psi0 shots device nqubit : PyVal) (data : List Instr) (nq : Nat) : Prop :=
  circ = .qc data ∧ (processLayout data).2 ≠ [] ∧ (∃ s, asInt? shots = some s ∧ 1 ≤ s) ∧
  asInt? nqubit = some (nq : Int) ∧ psi0 = .ndarray [2 ^ nq] ∧ nq ≤ (processLayout data).1.length ∧
  ∃ k, device = .dict (.sized k) ∧ nq ≤ k

private theorem shapeMismatch_self (nq : Nat) : shapeMismatch [2 ^ nq] (nq : Int) = false := by
  simp [shapeMismatch]

/-- **accepts_valid.**  Consistent arguments pass `_process_layout`, the measurement test and the validation. -/
theorem accepts_valid (circ : CircArg) (psi0 shots device nqubit : PyVal) (data : List Instr) (nq : Nat)
    (h : ValidArgs circ psi0 shots device nqubit data nq) :
    precheck circ psi0 shots device nqubit = .ok (processLayout data) := by
  obtain ⟨rfl, hm, ⟨s, hs, hs1⟩, hn, rfl, hL, k, rfl, hk⟩ := h
  have hm' : (processLayout data).2.isEmpty = false := by simpa using hm
  have h1 : ¬ s < 1 := by omega
  have h3 : ¬ ((processLayout data).1.length : Int) < (nq : Int) := by omega
  have h4 : ¬ ((k : Nat) : Int) < (nq : Int) := by omega
  simp [precheck, precheckWith, CircArg.data?, CircArg.isQC, hm', validate, hs, hn, asDict?, asNdarray?, h1,
    shapeMismatch_self, h3, h4]

/-- **accepts_iff_valid.**  Conversely, nothing else is accepted: the pre-simulation stage succeeds exactly on
consistent arguments. -/
theorem accepts_iff_valid (circ : CircArg) (psi0 shots device nqubit : PyVal) (lm : List Nat × List (Nat × Nat)) :
    precheck circ psi0 shots device nqubit = .ok lm ↔
      ∃ data nq, ValidArgs circ psi0 shots device nqubit data nq ∧ lm = processLayout data := by
  constructor
  · intro h
    unfold precheck precheckWith at h
    cases circ with
    | noData => simp [CircArg.data?] at h
    | duck data =>
      simp only [CircArg.data?, CircArg.isQC] at h
      split at h
      · simp at h
      · simp [validate] at h
    | qc data =>
      simp only [CircArg.data?, CircArg.isQC, if_true] at h
      split at h
      · simp at h
      · rename_i hm
        split at h
        · simp at h
        · rename_i hv
          have hlm : lm = processLayout data := by
            simpa using (Except.ok.inj h).symm
          have hdec := validate_decision true (processLayout data).1.length psi0 shots device nqubit
          have hne : validate true (processLayout data).1.length psi0 shots device nqubit ≠ .error .valueError := by
            rw [hv]; simp
          have hnot := mt hdec.1.mpr hne
          simp only [not_or, not_exists, not_and] at hnot
          obtain ⟨_, hs, hdv, hn, hp, hs1, hsh, hL, hk⟩ := hnot
          obtain ⟨s, hs'⟩ := Option.ne_none_iff_exists'.mp hs
          obtain ⟨t1, ht1⟩ := Option.ne_none_iff_exists'.mp hdv
          obtain ⟨nqi, hn'⟩ := Option.ne_none_iff_exists'.mp hn
          obtain ⟨shape, hp'⟩ := Option.ne_none_iff_exists'.mp hp
          have hshape := hsh nqi shape hn' hp'
          have hnq0 : ¬ nqi < 0 := by
            intro hneg
            simp [shapeMismatch, hneg] at hshape
          obtain ⟨nq, rfl⟩ : ∃ nq : Nat, nqi = nq := ⟨nqi.toNat, by omega⟩
          have hshape' : shape = [2 ^ nq] := by
            simpa [shapeMismatch] using hshape
          have hpsi : psi0 = .ndarray [2 ^ nq] := by
            cases psi0 <;> simp [asNdarray?] at hp'
            rw [hp', hshape']
          have ht : ∃ k, t1 = .sized k := by
            cases t1 with
            | missing => have := (hdec.2 hne).1 ht1; rw [hv] at this; simp at this
            | unsized => have := (hdec.2 hne).2.1 ht1; rw [hv] at this; simp at this
            | sized k => exact ⟨k, rfl⟩
          obtain ⟨k, rfl⟩ := ht
          have hdev : device = .dict (.sized k) := by
            cases device <;> simp [asDict?] at ht1
            rw [ht1]
          refine ⟨data, nq, ⟨rfl, by simpa using hm, ⟨s, hs', ?_⟩, hn', hpsi, ?_, k, hdev, ?_⟩, hlm⟩
          · have := hs1 s hs'; omega
          · have := hL nq hn'; omega
          · have := hk nq k hn' ht1; omega
  · rintro ⟨data, nq, hv, rfl⟩
    exact accepts_valid circ psi0 shots device nqubit data nq hv

/-- **rejection_classes.**  The pre-simulation stage raises nothing but `ValueError`, except: `AttributeError` for an
object without `.data` in place of the circuit; `KeyError` for a dict without `"T1"`; `TypeError` for a `"T1"` entry
without a length. -/
theorem rejection_classes (circ : CircArg) (psi0 shots device nqubit : PyVal) (e : Err)
    (h : precheck circ psi0 shots device nqubit = .error e) :
    e = .valueError ∨ (e = .attributeError ∧ circ = .noData) ∨
    (e = .keyError ∧ asDict? device = some .missing) ∨ (e = .typeError ∧ asDict? device = some .unsized) := by
  unfold precheck precheckWith at h
  cases circ with
  | noData => right; left; simp [CircArg.data?] at h; exact ⟨h.symm, rfl⟩
  | duck data =>
    simp only [CircArg.data?, CircArg.isQC] at h
    split at h
    · left; simpa using h.symm
    · left; simpa [validate] using h.symm
  | qc data =>
    simp only [CircArg.data?, CircArg.isQC, if_true] at h
    split at h
    · left; simpa using h.symm
    · split at h
      · rename_i e' hv
        have he : e' = e := by simpa using h
        subst he
        by_cases hve : e' = .valueError
        · exact Or.inl hve
        · have hdec := validate_decision true (processLayout data).1.length psi0 shots device nqubit
          have hne : validate true (processLayout data).1.length psi0 shots device nqubit ≠ .error .valueError := by
            rw [hv]; simpa using hve
          have hnot := mt hdec.1.mpr hne
          simp only [not_or] at hnot
          obtain ⟨t1, ht1⟩ := Option.ne_none_iff_exists'.mp hnot.2.2.1
          cases t1 with
          | missing =>
            have := (hdec.2 hne).1 ht1; rw [hv] at this
            exact Or.inr (Or.inr (Or.inl ⟨by simpa using this, ht1⟩))
          | unsized =>
            have := (hdec.2 hne).2.1 ht1; rw [hv] at this
            exact Or.inr (Or.inr (Or.inr ⟨by simpa using this, ht1⟩))
          | sized k => have := (hdec.2 hne).2.2 k ht1; rw [hv] at this; simp at this
      · simp at h

/-! ## Part 4 — the whole run -/

section run
variable {K : Type} [Field K] [LinearOrder K] [IsStrictOrderedRing K]

private theorem preprocessCheck_ok (data : List Instr) (nqubit : PyVal) (nq : Nat)
    (hn : asInt? nqubit = some (nq : Int)) (hnq : nq = (processLayout data).1.length) :
    preprocessCheck (processLayout data) nqubit = .ok () := by
  unfold preprocessCheck
  simp only [hn]
  rw [if_pos]
  rw [List.all_eq_true]
  intro t ht
  have := List.idxOf_lt_length_of_mem ((processLayout_inv data).2 t ht)
  simp only [decide_eq_true_eq]
  omega

/-- **C14, first sentence.**  For consistent arguments with `nqubit` = the number of qubits the circuit uses, and for
*every* non-negative vector with positive total returned by the simulation stage (any gate set, any circuit class, any
shot count): `run` returns a dict; its values are `≥ 0` and sum to 1; each value is the marginal of its key; and if no
qubit is measured twice its keys are exactly the `2^m` bit strings of the `m` measured qubits, each once. -/
theorem run_valid_distribution (circ : CircArg) (psi0 shots device nqubit : PyVal) (data : List Instr) (nq : Nat)
    (hv : ValidArgs circ psi0 shots device nqubit data nq) (hnq : nq = (processLayout data).1.length)
    (sim : List K) (hlen : sim.length = 2 ^ nq) (hnn : ∀ x ∈ sim, 0 ≤ x) (hpos : 0 < sim.sum) :
    ∃ out, run (fieldNum K) circ psi0 shots device nqubit sim = .ok out ∧
      (∀ p ∈ out, 0 ≤ p.2) ∧ (out.map Prod.snd).sum = 1 ∧ (out.map Prod.fst).Nodup ∧
      (∀ k v, (k, v) ∈ out → v = (((List.range (2 ^ nq)).filter (fun i =>
          keyOfState (processLayout data).1 (processLayout data).2 i = k)).map (fun i => sim.getD i 0 / sim.sum)).sum) ∧
      (((processLayout data).2.map Prod.fst).Nodup →
        (∀ k, k ∈ out.map Prod.fst ↔ k.length = (processLayout data).2.length) ∧
        out.length = 2 ^ (processLayout data).2.length) := by
  have hpre := accepts_valid circ psi0 shots device nqubit data nq hv
  have hinv := processLayout_inv data
  have hmem : ∀ t ∈ (processLayout data).2, t.1 ∈ (processLayout data).1 := hinv.2
  have hlen' : sim.length = 2 ^ (processLayout data).1.length := hnq ▸ hlen
  obtain ⟨out, hout, h1, h2⟩ := values_nonneg_sum_one (processLayout data).1 (processLayout data).2 sim hmem hlen' hnn hpos
  have hrun : run (fieldNum K) circ psi0 shots device nqubit sim = .ok out := by
    unfold run runWith
    have : precheckWith true circ psi0 shots device nqubit = .ok (processLayout data) := hpre
    rw [this]
    simp only [preprocessCheck_ok data nqubit nq hv.2.2.2.1 hnq]
    exact hout
  -- the same `out` seen through `_measurament` on the normalised vector
  have hfin : measurement (fieldNum K) (sim.map fun x => x / sim.sum) (processLayout data).2
      (processLayout data).1.length (processLayout data).1 = .ok out := by
    simpa [finish, normalise_of_pos sim hpos] using hout
  have hlenf : (sim.map fun x => x / sim.sum).length = 2 ^ (processLayout data).1.length := by simpa using hlen'
  obtain ⟨out2, ho2, hnd2, hval2⟩ := values_marginal (fieldNum K) fieldNum_lawful (processLayout data).1
    (processLayout data).2 _ hmem hlenf
  have e2 : out2 = out := by rw [hfin] at ho2; exact (Except.ok.inj ho2).symm
  subst e2
  refine ⟨out2, hrun, h1, h2, hnd2, ?_, ?_⟩
  · intro k v hkv
    rw [hval2 k v hkv, hnq]
    congr 1
    apply List.map_congr_left
    intro i hi
    have hi' : i < sim.length := by
      rw [hlen']; exact List.mem_range.mp (List.mem_filter.mp hi).1
    simp [List.getD_eq_getElem?_getD, List.getElem?_eq_getElem hi']
  · intro hdist
    obtain ⟨out3, ho3, _, hk3, hl3⟩ := keys_exact (fieldNum K) (processLayout data).1 (processLayout data).2 _ hmem
      hdist hlenf
    have e3 : out3 = out2 := by rw [hfin] at ho3; exact (Except.ok.inj ho3).symm
    subst e3
    exact ⟨hk3, hl3⟩

/-- consistent arguments but a simulation result whose total is not positive: `AssertionError`, not a result -/
theorem run_zero_total_is_assertion (circ : CircArg) (psi0 shots device nqubit : PyVal) (data : List Instr) (nq : Nat)
    (hv : ValidArgs circ psi0 shots device nqubit data nq) (hnq : nq = (processLayout data).1.length)
    (sim : List K) (h : ¬ 0 < sim.sum) :
    run (fieldNum K) circ psi0 shots device nqubit sim = .error .assertionError := by
  unfold run runWith
  have : precheckWith true circ psi0 shots device nqubit = .ok (processLayout data) :=
    accepts_valid circ psi0 shots device nqubit data nq hv
  rw [this]
  simp only [preprocessCheck_ok data nqubit nq hv.2.2.2.1 hnq]
  exact nonfinite_is_assertion _ sim h

/-- **For every shot count.**  `_perform_simulation` adds the per-shot vectors and divides by `shots`.  If each shot
returns a non-negative vector of length `2^nqubit` (Born rule: squares of moduli) and at least one shot has a non-zero
state, then for consistent arguments the run returns a dict whose values are `≥ 0` and sum to 1 — for every number of
shots `≥ 1`, every gate set (unitary or not) and every circuit class. -/
theorem run_every_shot_count (circ : CircArg) (psi0 shots device nqubit : PyVal) (data : List Instr) (nq : Nat)
    (hv : ValidArgs circ psi0 shots device nqubit data nq) (hnq : nq = (processLayout data).1.length)
    (results : List (List K)) (hshots : asInt? shots = some (results.length : Int))
    (hlen : ∀ r ∈ results, r.length = 2 ^ nq) (hnn : ∀ r ∈ results, ∀ x ∈ r, 0 ≤ x)
    (hpos : ∃ r ∈ results, 0 < r.sum) :
    ∃ out, run (fieldNum K) circ psi0 shots device nqubit
        (meanOfShots (fieldNum K) (2 ^ nq) (results.length : K) results) = .ok out ∧
      (∀ p ∈ out, 0 ≤ p.2) ∧ (out.map Prod.snd).sum = 1 := by
  obtain ⟨r0, hr0, hr0pos⟩ := hpos
  have hne : 0 < results.length := by
    obtain ⟨s, hs', hs1⟩ := hv.2.2.1
    rw [hshots] at hs'
    have := Option.some.inj hs'
    omega
  have hs : (0 : K) < (results.length : K) := by exact_mod_cast hne
  obtain ⟨h1, h2, h3⟩ := meanOfShots_spec (2 ^ nq) (results.length : K) hs results hlen hnn
  have hsum : 0 < (results.map List.sum).sum := by
    have hall : ∀ x ∈ results.map List.sum, 0 ≤ x := by
      intro x hx
      obtain ⟨r, hr, rfl⟩ := List.mem_map.mp hx
      exact List.sum_nonneg (hnn r hr)
    have hmem : r0.sum ∈ results.map List.sum := List.mem_map.mpr ⟨r0, hr0, rfl⟩
    exact lt_of_lt_of_le hr0pos (List.single_le_sum hall _ hmem)
  obtain ⟨out, ho, hnn', hs1, _⟩ := run_valid_distribution circ psi0 shots device nqubit data nq hv hnq
    (meanOfShots (fieldNum K) (2 ^ nq) (results.length : K) results) h1 h2 (by rw [h3]; exact div_pos hsum hs)
  exact ⟨out, ho, hnn', hs1⟩

end run

/-! ## Part 5 — the pinned tree before repair D20 -/

/-- the repair changes nothing for array-valued `psi0` … -/
theorem unrepaired_agrees_on_arrays (c : Bool) (L : Nat) (psi0 shots device nqubit : PyVal)
    (h : asNdarray? psi0 ≠ none) :
    validateUnrepaired c L psi0 shots device nqubit = validate c L psi0 shots device nqubit := by
  obtain ⟨shape, hp⟩ := Option.ne_none_iff_exists'.mp h
  unfold validateUnrepaired validate
  cases c <;> cases asInt? shots <;> cases asDict? device <;> cases asInt? nqubit <;> simp [hp]

/-- … and for a `psi0` that is not an array (a list or tuple of any length, `None`) the pinned tree raises
`AttributeError` as soon as the circuit is a circuit, `shots` is an int `≥ 1`, `device_param` a dict and `nqubit` an
int — in particular for a list whose length is not `2^nqubit` (defect D20) — where the repaired code raises `ValueError`. -/
theorem unrepaired_non_array_psi0 (L : Nat) (psi0 shots device nqubit : PyVal) (s nq : Int) (t1 : T1Entry)
    (hp : asNdarray? psi0 = none) (hs : asInt? shots = some s) (hs1 : 1 ≤ s) (hd : asDict? device = some t1)
    (hn : asInt? nqubit = some nq) :
    validateUnrepaired true L psi0 shots device nqubit = .error .attributeError ∧
    validate true L psi0 shots device nqubit = .error .valueError := by
  have h1 : ¬ s < 1 := by omega
  simp [validateUnrepaired, validate, hp, hs, hd, hn, h1]

/-! ## Non-vacuity: concrete objects meeting the hypotheses -/

/-- a 3-qubit register in which qubits 2, 0 are used (in this order of first touch; the layout is sorted to [0, 2]) and
0, 2 measured into clbits 1, 0 -/
private def exData : List Instr := [.gate [2], .delay [1], .gate [2, 0], .gate [0, 1, 2], .measure 0 1, .measure 2 0]

example : layoutLoop exData = ([2, 0], [(0, 1), (2, 0)]) ∧ processLayout exData = ([0, 2], [(0, 1), (2, 0)]) := by decide

/-- hypotheses of `keys_exact` / `values_marginal` / `values_nonneg_sum_one`, and what the model returns -/
example : let lm := processLayout exData
    (∀ t ∈ lm.2, t.1 ∈ lm.1) ∧ (lm.2.map Prod.fst).Nodup ∧ ([1, 2, 3, 4] : List ℚ).length = 2 ^ lm.1.length ∧
    (∀ x ∈ ([1, 2, 3, 4] : List ℚ), 0 ≤ x) ∧ 0 < ([1, 2, 3, 4] : List ℚ).sum ∧
    (measurement (fieldNum ℚ) [1, 2, 3, 4] lm.2 lm.1.length lm.1).map (·.map Prod.fst) =
      .ok [[false, false], [false, true], [true, false], [true, true]] := by
  refine ⟨by decide, by decide, by decide, by norm_num, by norm_num, by decide⟩

/-- hypotheses of `ValidArgs` (with `nqubit` = number of used qubits); `shots = True` is accepted as one shot -/
example : ValidArgs (.qc exData) (.ndarray [4]) (.int 5) (.dict (.sized 10)) (.int 2) exData 2 ∧
    ValidArgs (.qc exData) (.ndarray [4]) (.bool true) (.dict (.sized 2)) (.int 2) exData 2 ∧
    2 = (processLayout exData).1.length := by
  refine ⟨⟨rfl, by decide, ⟨5, rfl, by decide⟩, rfl, rfl, by decide, 10, rfl, by decide⟩,
    ⟨rfl, by decide, ⟨1, rfl, by decide⟩, rfl, rfl, by decide, 2, rfl, by decide⟩, by decide⟩

/-- hypotheses of `run_every_shot_count`: three shots on two qubits -/
example : let results : List (List ℚ) := [[1, 0, 0, 0], [0, 1/2, 1/2, 0], [1, 0, 0, 0]]
    asInt? (.int 3) = some (results.length : Int) ∧ (∀ r ∈ results, r.length = 2 ^ 2) ∧
    (∀ r ∈ results, ∀ x ∈ r, 0 ≤ x) ∧ (∃ r ∈ results, 0 < r.sum) ∧
    meanOfShots (fieldNum ℚ) 4 3 results = [2/3, 1/6, 1/6, 0] := by
  refine ⟨rfl, by decide, ?_, ⟨[1, 0, 0, 0], by simp, by norm_num⟩, ?_⟩
  · intro r hr x hx
    simp only [List.mem_cons, List.not_mem_nil, or_false] at hr
    rcases hr with rfl | rfl | rfl <;> simp at hx <;> rcases hx with rfl | rfl | rfl <;> norm_num
  · simp [meanOfShots, addVec, fieldNum]
    norm_num

/-- every named defect is inhabited (one concrete instance each) -/
example : NoMeasurement [.gate [0]] ∧ ShotsNotInteger (.npInt 5) ∧ ShotsNotInteger .float ∧
    ShotsBelowOne (.int 0) ∧ ShotsBelowOne (.bool false) ∧ DeviceNotMapping .other ∧
    Psi0LengthMismatch (.ndarray [3]) (.int 2) ∧ Psi0LengthMismatch (.ndarray [4, 1]) (.int 2) ∧
    Psi0LengthMismatch (.list 3) (.int 2) ∧ Psi0LengthMismatch (.ndarray [1]) (.int (-1)) ∧
    MoreQubitsThanUsed exData (.int 3) ∧ MoreQubitsThanDeviceCovers (.dict (.sized 1)) (.int 2) := by
  refine ⟨by unfold NoMeasurement; decide, rfl, rfl, ⟨0, rfl, by decide⟩, ⟨0, rfl, by decide⟩, rfl, ⟨2, [3], rfl, rfl, by decide⟩,
    ⟨2, [4, 1], rfl, rfl, by decide⟩, ⟨2, [3], rfl, rfl, by decide⟩, ⟨-1, [1], rfl, rfl, by decide⟩,
    ⟨3, rfl, by decide⟩, ⟨2, 1, rfl, rfl, by decide⟩⟩

/-- a qubit measured twice: the model returns the keys `00`, `11` only (hypotheses of `keys_not_exact_of_repeat`) -/
example : (measurement (fieldNum ℚ) [1, 2] [(0, 0), (0, 1)] 1 [0]).map (·.map Prod.fst) =
    .ok [[false, false], [true, true]] := by decide

/-- `nqubit` smaller than the number of used qubits is NOT rejected by the validation (no clause of the statement
names it): with 3 used qubits, `nqubit = 2` and a 4-entry vector the model — like the layered circuit classes of the
real code — returns an incomplete key set, because `zip` stops after 4 of the 8 basis strings. -/
example : (run (fieldNum ℚ) (.qc [.gate [0], .gate [1], .gate [2], .measure 1 0, .measure 0 1]) (.ndarray [4]) (.int 1)
    (.dict (.sized 5)) (.int 2) [1, 0, 1, 0]).map (·.map Prod.fst) = .ok [[false, false], [true, false]] := by
  decide +kernel

/-- the pinned tree on defect D20's input: a list of length 3 as `psi0` for 2 qubits -/
example : validateUnrepaired true 2 (.list 3) (.int 1) (.dict (.sized 2)) (.int 2) = .error .attributeError ∧
    validate true 2 (.list 3) (.int 1) (.dict (.sized 2)) (.int 2) = .error .valueError := by decide

end QG.C14
