import Mathlib.Tactic
import QG.Props.C07

/-!
# C06 — composite two-qubit gates apply each qubit's own noise on that qubit

`QG.Gen.*` is regenerated from `factories.py` on every run.

**Specification vocabulary.**  A two-qubit *pulse sequence* acts on the qubits occupying the two
tensor slots, described by their noise records `q₀ q₁ : Noise` (`p, T1, T2`).  It is a product of
layers; a layer is either a cross-resonance pulse on the pair or a pair of single-qubit pulses, one
per slot.  The evaluator `evalLayer` is the only place where noise parameters are supplied, and it
supplies
* to a single-qubit pulse in slot `r` the record `q_r` — that qubit's own `p, T1, T2`,
* to a cross-resonance pulse the derived two-qubit error and `(q₀.T1, q₀.T2, q₁.T1, q₁.T2)`.
`handoff_*` state that the sampled gate of each composite factory **is** such a sequence, with the
control in slot 0 for the forward gates and the target in slot 0 for the reversed CNOT
(the factories' `np.kron` order).  Equality of matrices for all samples gives equality of the noise
statistics once the constituent draws are independent (the RNG assumption, DESIGN.md 1.6).
-/
namespace QG.C06
open QG.Gen Matrix
open scoped Matrix.Norms.Operator

/-- noise record of one physical qubit -/
structure Noise where
  p : ℝ
  T1 : ℝ
  T2 : ℝ

/-- single-qubit pulses with their phase / angle / duration and their samples, but **without** noise parameters -/
inductive Pulse1
  | x (phi : ℝ) (w : X.Samples)
  | sx (phi : ℝ) (w : SX.Samples)
  | rot (theta phi : ℝ) (w : SingleQubit.Samples)
  | idle (dt : ℝ) (w : Relaxation.Samples)
  | scaled (z : ℂ) (u : Pulse1)

/-- a pulse on the qubit with noise record `q`: the noise arguments are that qubit's own -/
noncomputable def evalPulse (F : ℝ → ℝ) (q : Noise) : Pulse1 → Matrix (Fin 2) (Fin 2) ℂ
  | .x phi w => X.construct F phi q.p q.T1 q.T2 w
  | .sx phi w => SX.construct F phi q.p q.T1 q.T2 w
  | .rot theta phi w => SingleQubit.construct F theta phi q.p q.T1 q.T2 w
  | .idle dt w => Relaxation.construct dt q.T1 q.T2 w
  | .scaled z u => z • evalPulse F q u

inductive Layer
  | cr (theta phi : ℝ) (w : CR.Samples)
  | pair (u₀ u₁ : Pulse1)

/-- one layer on the qubits `q₀` (slot 0) and `q₁` (slot 1), CR duration `tcr` and derived CR error `pcr` -/
noncomputable def evalLayer (F : ℝ → ℝ) (q₀ q₁ : Noise) (tcr pcr : ℝ) : Layer → Matrix (Fin 4) (Fin 4) ℂ
  | .cr theta phi w => CR.construct F theta phi tcr pcr q₀.T1 q₀.T2 q₁.T1 q₁.T2 w
  | .pair u₀ u₁ => QG.Spec.kron2 (evalPulse F q₀ u₀) (evalPulse F q₁ u₁)

/-- the product of the layers, first list element leftmost (= applied last) -/
noncomputable def evalSeq (F : ℝ → ℝ) (q₀ q₁ : Noise) (tcr pcr : ℝ) : List Layer → Matrix (Fin 4) (Fin 4) ℂ
  | [] => 1
  | l :: ls => evalLayer F q₀ q₁ tcr pcr l * evalSeq F q₀ q₁ tcr pcr ls

/-! ## hand-off: every composite factory is a pulse sequence on its own qubits -/

theorem handoff_CNOT (F : ℝ → ℝ) (phi_c phi_t t p2 pc pt T1c T2c T1t T2t : ℝ) (w : CNOT.Samples) :
    CNOT.construct F phi_c phi_t t p2 pc pt T1c T2c T1t T2t w =
      evalSeq F ⟨pc, T1c, T2c⟩ ⟨pt, T1t, T2t⟩ (CNOT.t_cr t) (CNOT.p_cr_1 p2 pc pt)
        [.cr (-Real.pi / 4) (-phi_t) w.first_cr,
         .pair (.x (-phi_c + Real.pi / 2) w.x_gate) (.idle CNOT.tg w.relaxation_gate),
         .cr (Real.pi / 4) (-phi_t) w.second_cr,
         .pair (.rot (-Real.pi) (-phi_c + Real.pi / 2 + Real.pi / 2) w.Y_Rz) (.sx (-phi_t) w.sx_gate)] := by
  simp only [CNOT.construct, evalSeq, evalLayer, evalPulse, mul_one, mul_assoc]

/-- reversed CNOT: the **target** occupies slot 0, the control slot 1 -/
theorem handoff_CNOT_inv (F : ℝ → ℝ) (phi_c phi_t t p2 pc pt T1c T2c T1t T2t : ℝ) (w : CNOTInv.Samples) :
    CNOTInv.construct F phi_c phi_t t p2 pc pt T1c T2c T1t T2t w =
      evalSeq F ⟨pt, T1t, T2t⟩ ⟨pc, T1c, T2c⟩ (CNOTInv.t_cr t) (CNOTInv.p_cr_1 p2 pc pt)
        [.pair (.rot (-Real.pi / 2) (-phi_t - Real.pi / 2 + Real.pi / 2) w.Ry)
               (.sx (-phi_c - Real.pi - Real.pi / 2) w.first_sx_gate),
         .cr (-Real.pi / 4) (-phi_c - Real.pi) w.first_cr,
         .pair (.x (-phi_t - Real.pi / 2) w.x_gate) (.idle CNOTInv.tg w.relaxation_gate),
         .cr (Real.pi / 4) (-phi_c - Real.pi) w.second_cr,
         .pair (.sx (-phi_t - Real.pi / 2) w.second_sx_gate)
               (.rot (Real.pi / 2) (-phi_c - Real.pi + Real.pi / 2) w.Y_Z)] := by
  simp only [CNOTInv.construct, evalSeq, evalLayer, evalPulse, mul_one, mul_assoc]

theorem handoff_ECR (F : ℝ → ℝ) (phi_c phi_t t p2 pc pt T1c T2c T1t T2t : ℝ) (w : ECR.Samples) :
    ECR.construct F phi_c phi_t t p2 pc pt T1c T2c T1t T2t w =
      evalSeq F ⟨pc, T1c, T2c⟩ ⟨pt, T1t, T2t⟩ (ECR.t_cr t) (ECR.p_cr_1 p2 pc pt)
        [.cr (Real.pi / 4) (Real.pi - phi_t) w.first_cr,
         .pair (.scaled (-Complex.I) (.x (Real.pi - phi_c) w.x_gate)) (.idle ECR.tg w.relaxation_gate),
         .cr (-Real.pi / 4) (Real.pi - phi_t) w.second_cr] := by
  simp only [ECR.construct, evalSeq, evalLayer, evalPulse, mul_one, mul_assoc]

theorem handoff_ECR_inv (F : ℝ → ℝ) (phi_c phi_t t p2 pc pt T1c T2c T1t T2t : ℝ) (w : ECRInv.Samples) :
    ECRInv.construct F phi_c phi_t t p2 pc pt T1c T2c T1t T2t w =
      Complex.I • evalSeq F ⟨pc, T1c, T2c⟩ ⟨pt, T1t, T2t⟩ (ECRInv.t_cr t) (ECRInv.p_cr_1 p2 pc pt)
        [.pair (.sx (-Real.pi / 2 - phi_c) w.sx_gate_ctr_1) (.sx (-Real.pi / 2 - phi_t) w.sx_gate_trg_1),
         .cr (Real.pi / 4) (Real.pi - phi_t) w.first_cr,
         .pair (.scaled (-Complex.I) (.x (Real.pi - phi_c) w.x_gate)) (.idle ECRInv.tg w.relaxation_gate),
         .cr (-Real.pi / 4) (Real.pi - phi_t) w.second_cr,
         .pair (.sx (-Real.pi / 2 - phi_c) w.sx_gate_ctr_2) (.sx (-Real.pi / 2 - phi_t) w.sx_gate_trg_2)] := by
  simp only [ECRInv.construct, evalSeq, evalLayer, evalPulse, mul_one, mul_assoc, Matrix.smul_mul]


/-! ## the derived cross-resonance error -/

/-- the CR error handed to both CR pulses is a function of the three error probabilities only and
vanishes when they vanish (it does not see `T1`, `T2`, phases or durations) -/
theorem pcr_zero : CNOT.p_cr_1 0 0 0 = 0 ∧ CNOTInv.p_cr_1 0 0 0 = 0 ∧ ECR.p_cr_1 0 0 0 = 0 ∧ ECRInv.p_cr_1 0 0 0 = 0 := by
  refine ⟨?_, ?_, ?_, ?_⟩ <;>
    simp [CNOT.p_cr_1, CNOTInv.p_cr_1, ECR.p_cr_1, ECRInv.p_cr_1, CNOT.p_cr, CNOTInv.p_cr, ECR.p_cr, ECRInv.p_cr]

/-- the error handed to the CR pulses is the derived value `p_cr` where that is non-negative and `0` otherwise (repair of R2:
on the pinned tree the negative value went under a square root) -/
theorem pcr_clamped (p2 pc pt : ℝ) :
    CNOT.p_cr_1 p2 pc pt = max (CNOT.p_cr p2 pc pt) 0 ∧ CNOTInv.p_cr_1 p2 pc pt = max (CNOTInv.p_cr p2 pc pt) 0 ∧
    ECR.p_cr_1 p2 pc pt = max (ECR.p_cr p2 pc pt) 0 ∧ ECRInv.p_cr_1 p2 pc pt = max (ECRInv.p_cr p2 pc pt) 0 := by
  refine ⟨?_, ?_, ?_, ?_⟩
  · unfold CNOT.p_cr_1; split_ifs with h
    · exact (max_eq_right (le_of_lt h)).symm
    · exact (max_eq_left (not_lt.mp h)).symm
  · unfold CNOTInv.p_cr_1; split_ifs with h
    · exact (max_eq_right (le_of_lt h)).symm
    · exact (max_eq_left (not_lt.mp h)).symm
  · unfold ECR.p_cr_1; split_ifs with h
    · exact (max_eq_right (le_of_lt h)).symm
    · exact (max_eq_left (not_lt.mp h)).symm
  · unfold ECRInv.p_cr_1; split_ifs with h
    · exact (max_eq_right (le_of_lt h)).symm
    · exact (max_eq_left (not_lt.mp h)).symm

/-- `0 ≤ p_cr` exactly when the two-qubit fidelity does not exceed the product of the single-qubit
fidelities it is divided by (forward CNOT; probabilities below 4/3).  Outside this region the code uses 0
(`pcr_clamped`; on the pinned tree it took the square root of a negative number — R2, repaired). -/
theorem pcr_nonneg_iff (p2 pc pt : ℝ) (hc : pc < 4 / 3) (ht : pt < 4 / 3) :
    0 ≤ CNOT.p_cr p2 pc pt ↔ (1 - 3 / 4 * p2) ^ 2 ≤ (1 - 3 / 4 * pc) ^ 2 * (1 - 3 / 4 * pt) := by
  have hc' : 0 < 1 - 3 / 4 * pc := by linarith
  have ht' : 0 < 1 - 3 / 4 * pt := by linarith
  have hden : 0 < (1 - 3 / 4 * pc) ^ 2 * (1 - 3 / 4 * pt) := by positivity
  unfold CNOT.p_cr
  have key : Real.sqrt (Real.sqrt ((1 - 3 / 4 * p2) ^ 2 / ((1 - 3 / 4 * pc) ^ 2 * (1 - 3 / 4 * pt)))) ≤ 1 ↔
      (1 - 3 / 4 * p2) ^ 2 ≤ (1 - 3 / 4 * pc) ^ 2 * (1 - 3 / 4 * pt) := by
    rw [Real.sqrt_le_left (by norm_num), Real.sqrt_le_left (by norm_num), div_le_iff₀ hden]
    norm_num
  constructor
  · intro h; apply key.mp; nlinarith
  · intro h; have := key.mpr h; nlinarith

/-! ## one-sided noise: switching off one qubit and the two-qubit error leaves the other qubit's pulses -/

/-- the noise-free matrix of a pulse -/
noncomputable def idealPulse : Pulse1 → Matrix (Fin 2) (Fin 2) ℂ
  | .x phi _ => NoiseFree.X phi 0 0 0
  | .sx phi _ => NoiseFree.SX phi 0 0 0
  | .rot theta phi _ => NoiseFree.single_qubit_gate theta phi 0 0 0
  | .idle dt _ => NoiseFree.relaxation dt 0 0
  | .scaled z u => z • idealPulse u

/-- the idle pulses' off-diagonal sample has standard deviation 0 when `T1 = 0`, i.e. is `0` -/
def Pulse1.idleSampleZero : Pulse1 → Prop
  | .idle _ w => w.I = 0
  | .scaled _ u => u.idleSampleZero
  | _ => True

theorem quiet_pulse_is_ideal (F : ℝ → ℝ) (u : Pulse1) (h : u.idleSampleZero) :
    evalPulse F ⟨0, 0, 0⟩ u = idealPulse u := by
  induction u with
  | x phi w => exact QG.C07.x_zero_noise F phi w
  | sx phi w => exact QG.C07.sx_zero_noise F phi w
  | rot theta phi w => exact QG.C07.single_qubit_zero_noise F theta phi w
  | idle dt w => exact QG.C07.relaxation_zero_noise dt w h
  | scaled z u ih => simp only [evalPulse, idealPulse, ih h]

/-- with qubit 1 quiet and no two-qubit error, a pair layer is `(noisy pulse of qubit 0) ⊗ (ideal pulse)` -/
theorem one_sided_pair (F : ℝ → ℝ) (q₀ : Noise) (tcr : ℝ) (u₀ u₁ : Pulse1) (h : u₁.idleSampleZero) :
    evalLayer F q₀ ⟨0, 0, 0⟩ tcr 0 (.pair u₀ u₁) = QG.Spec.kron2 (evalPulse F q₀ u₀) (idealPulse u₁) := by
  simp only [evalLayer, quiet_pulse_is_ideal F u₁ h]

theorem one_sided_pair' (F : ℝ → ℝ) (q₁ : Noise) (tcr : ℝ) (u₀ u₁ : Pulse1) (h : u₀.idleSampleZero) :
    evalLayer F ⟨0, 0, 0⟩ q₁ tcr 0 (.pair u₀ u₁) = QG.Spec.kron2 (idealPulse u₀) (evalPulse F q₁ u₁) := by
  simp only [evalLayer, quiet_pulse_is_ideal F u₀ h]

/-- with the second qubit quiet and no two-qubit error a CR pulse carries exactly the first qubit's
relaxation and dephasing terms: every depolarising generator and every generator of the second qubit
vanishes, for all samples -/
theorem one_sided_cr {K : Type} [Field K] (v : CR.Env K) (h1 : v.ed_cr = 0) (h4 : v.e1_trg = 0) (h5 : v.ep_trg = 0) :
    CR.noiseArg v = v.i • CR.Ir_ctr v + v.i • CR.Ip_ctr v ∧ CR.driftArg v = CR.deterministic_r_ctr v := by
  constructor
  · ext a b; fin_cases a <;> fin_cases b <;>
      simp [CR.noiseArg, CR.Ir_trg, CR.Ip_trg, CR.Idx_ctr, CR.Idy_ctr, CR.Idz_ctr, CR.Idx_trg, CR.Idy_trg,
        CR.Idz_trg, h1, h4, h5]
  · ext a b; fin_cases a <;> fin_cases b <;> simp [CR.driftArg, CR.deterministic_r_trg, h4]

theorem one_sided_cr' {K : Type} [Field K] (v : CR.Env K) (h1 : v.ed_cr = 0) (h2 : v.e1_ctr = 0) (h3 : v.ep_ctr = 0) :
    CR.noiseArg v = v.i • CR.Ir_trg v + v.i • CR.Ip_trg v ∧ CR.driftArg v = CR.deterministic_r_trg v := by
  constructor
  · ext a b; fin_cases a <;> fin_cases b <;>
      simp [CR.noiseArg, CR.Ir_ctr, CR.Ip_ctr, CR.Idx_ctr, CR.Idy_ctr, CR.Idz_ctr, CR.Idx_trg, CR.Idy_trg,
        CR.Idz_trg, h1, h2, h3]
  · ext a b; fin_cases a <;> fin_cases b <;> simp [CR.driftArg, CR.deterministic_r_ctr, h2]

/-- non-vacuity: a strongly asymmetric pair of records and a one-source-at-a-time setting -/
example : (⟨1e-3, 5e-6, 7e-6⟩ : Noise).T1 ≠ (⟨0, 0, 0⟩ : Noise).T1 := by norm_num

end QG.C06
