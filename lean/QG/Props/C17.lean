import Mathlib.Analysis.SpecialFunctions.Sqrt
import Mathlib.Analysis.SpecialFunctions.Pow.Real
import Mathlib.Analysis.InnerProductSpace.PiL2
import Mathlib.Tactic
import QG.Gen.Hellinger

/-!
# C17 — the Hellinger distance is a bounded metric on distributions

`QG.Gen.hellinger` is regenerated from the source text of `compute_Hellinger_distance` on every run.
Probability vectors over `2^n` outcomes are functions `ℕ → ℝ` read on `range (2^n)` (numpy arrays
indexed from 0).  All statements are about exact real arithmetic.
-/
namespace QG.C17
open Finset Real QG.Gen

/-- a probability vector on the `2^n` outcomes -/
structure IsDist (n : ℕ) (p : ℕ → ℝ) : Prop where
  nonneg : ∀ i ∈ range (2 ^ n), 0 ≤ p i
  sum_one : ∑ i ∈ range (2 ^ n), p i = 1

/-- normal form of the generated definition; everything below goes through it, so a harmless
rewrite of the Python only has to keep this one lemma provable -/
theorem hellinger_eq (p q : ℕ → ℝ) (n : ℕ) :
    hellinger p q n = (1 / √2) * √(∑ i ∈ range (2 ^ n), (√(q i) - √(p i)) ^ 2) := by
  unfold hellinger
  simp

private theorem sum_sq_expand (n : ℕ) (p q : ℕ → ℝ) (hp : IsDist n p) (hq : IsDist n q) :
    ∑ i ∈ range (2 ^ n), (√(q i) - √(p i)) ^ 2 = 2 - 2 * ∑ i ∈ range (2 ^ n), √(p i * q i) := by
  have : ∀ i ∈ range (2 ^ n), (√(q i) - √(p i)) ^ 2 = q i + p i - 2 * √(p i * q i) := by
    intro i hi
    rw [sqrt_mul (hp.nonneg i hi), sub_sq, sq_sqrt (hq.nonneg i hi), sq_sqrt (hp.nonneg i hi)]; ring
  rw [sum_congr rfl this, sum_sub_distrib, sum_add_distrib, hp.sum_one, hq.sum_one, ← mul_sum]; ring

/-- `H² = 1 − Σ √(p_i q_i)`, i.e. `H = sqrt(1 − Σ sqrt(p_i q_i))` -/
theorem hellinger_sq (n : ℕ) (p q : ℕ → ℝ) (hp : IsDist n p) (hq : IsDist n q) :
    hellinger p q n ^ 2 = 1 - ∑ i ∈ range (2 ^ n), √(p i * q i) := by
  rw [hellinger_eq, mul_pow, sq_sqrt (sum_nonneg fun i _ => sq_nonneg _), sum_sq_expand n p q hp hq]
  rw [div_pow, one_pow, sq_sqrt (by norm_num : (0:ℝ) ≤ 2)]; ring

theorem hellinger_nonneg (n : ℕ) (p q : ℕ → ℝ) : 0 ≤ hellinger p q n := by
  rw [hellinger_eq]; positivity

theorem hellinger_formula (n : ℕ) (p q : ℕ → ℝ) (hp : IsDist n p) (hq : IsDist n q) :
    hellinger p q n = √(1 - ∑ i ∈ range (2 ^ n), √(p i * q i)) := by
  rw [← hellinger_sq n p q hp hq, sqrt_sq (hellinger_nonneg n p q)]

theorem hellinger_symm (n : ℕ) (p q : ℕ → ℝ) : hellinger p q n = hellinger q p n := by
  rw [hellinger_eq, hellinger_eq]; congr 2; refine sum_congr rfl fun i _ => ?_; ring

theorem hellinger_le_one (n : ℕ) (p q : ℕ → ℝ) (hp : IsDist n p) (hq : IsDist n q) :
    hellinger p q n ≤ 1 := by
  have h := hellinger_sq n p q hp hq
  have h0 : 0 ≤ ∑ i ∈ range (2 ^ n), √(p i * q i) := sum_nonneg fun i _ => sqrt_nonneg _
  have : hellinger p q n ^ 2 ≤ 1 := by rw [h]; linarith
  nlinarith [hellinger_nonneg n p q]

/-- distance 0 exactly when the vectors coincide (on the `2^n` outcomes) -/
theorem hellinger_eq_zero_iff (n : ℕ) (p q : ℕ → ℝ) (hp : IsDist n p) (hq : IsDist n q) :
    hellinger p q n = 0 ↔ ∀ i ∈ range (2 ^ n), p i = q i := by
  constructor
  · intro h
    rw [hellinger_eq] at h
    have h2 : √(∑ i ∈ range (2 ^ n), (√(q i) - √(p i)) ^ 2) = 0 := by
      rcases mul_eq_zero.mp h with h | h
      · exfalso; have : (0:ℝ) < 1 / √2 := by positivity
        linarith
      · exact h
    rw [sqrt_eq_zero (sum_nonneg fun i _ => sq_nonneg _)] at h2
    have h3 := (sum_eq_zero_iff_of_nonneg (fun i _ => sq_nonneg _)).mp h2
    intro i hi
    have := h3 i hi
    have h4 : √(q i) = √(p i) := by nlinarith [this]
    have := congrArg (· ^ 2) h4
    simp only [sq_sqrt (hq.nonneg i hi), sq_sqrt (hp.nonneg i hi)] at this
    exact this.symm
  · intro h
    rw [hellinger_eq]
    have : ∑ i ∈ range (2 ^ n), (√(q i) - √(p i)) ^ 2 = 0 := by
      apply sum_eq_zero; intro i hi; rw [h i hi]; simp
    rw [this]; simp

/-- distance 1 exactly when the supports are disjoint -/
theorem hellinger_eq_one_iff (n : ℕ) (p q : ℕ → ℝ) (hp : IsDist n p) (hq : IsDist n q) :
    hellinger p q n = 1 ↔ ∀ i ∈ range (2 ^ n), p i * q i = 0 := by
  have hsq := hellinger_sq n p q hp hq
  have hnn := hellinger_nonneg n p q
  constructor
  · intro h
    rw [h] at hsq
    have hs : ∑ i ∈ range (2 ^ n), √(p i * q i) = 0 := by linarith
    have := (sum_eq_zero_iff_of_nonneg (fun i _ => sqrt_nonneg _)).mp hs
    intro i hi
    exact (sqrt_eq_zero (mul_nonneg (hp.nonneg i hi) (hq.nonneg i hi))).mp (this i hi)
  · intro h
    have hs : ∑ i ∈ range (2 ^ n), √(p i * q i) = 0 := by
      apply sum_eq_zero; intro i hi; rw [h i hi, sqrt_zero]
    rw [hs] at hsq
    nlinarith [hsq, hnn]

/-- triangle inequality: `hellinger` is (1/√2) × Euclidean distance of the square-root vectors -/
theorem hellinger_triangle (n : ℕ) (p q r : ℕ → ℝ) :
    hellinger p r n ≤ hellinger p q n + hellinger q r n := by
  let v : (ℕ → ℝ) → EuclideanSpace ℝ (Fin (2 ^ n)) :=
    fun p => (WithLp.equiv 2 _).symm (fun i => √(p i))
  have key : ∀ a b : ℕ → ℝ, hellinger a b n = (1 / √2) * dist (v b) (v a) := by
    intro a b
    rw [hellinger_eq, EuclideanSpace.dist_eq, Finset.sum_range]
    simp [v, Real.dist_eq, sq_abs]
  rw [key, key, key, ← mul_add]
  apply mul_le_mul_of_nonneg_left _ (by positivity)
  calc dist (v r) (v p) ≤ dist (v r) (v q) + dist (v q) (v p) := dist_triangle _ _ _
    _ = dist (v q) (v p) + dist (v r) (v q) := add_comm _ _

/-- non-vacuity: the uniform and a point distribution on one qubit are distributions, at distance
`sqrt(1 - sqrt(1/2))` (neither 0 nor 1). -/
example : IsDist 1 (fun _ => 1/2) ∧ IsDist 1 (fun i => if i = 0 then 1 else 0) := by
  constructor
  · constructor
    · intro i _; norm_num
    · simp
  · constructor
    · intro i _; split_ifs <;> norm_num
    · simp

end QG.C17
