-- Root of the `QG` library: everything a clean `lake build` must check.
import QG.Model.FixCounts
