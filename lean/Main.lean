import QG.Driver.FixCounts
/-! Line-protocol driver: one JSON request per line on stdin, one JSON answer per line on stdout.
Imports only the import-free models under `QG/Model` (plus Lean's own JSON), never Mathlib. -/
open Lean QG.Driver

def dispatch (j : Json) : Except String Json := do
  let op ← getStr j "op"
  match op with
  | "fix_counts" => handleFixCounts j
  | _ => throw s!"unknown op {op}"

partial def loop (h : IO.FS.Stream) (out : IO.FS.Stream) : IO Unit := do
  let line ← h.getLine
  if line.isEmpty then return ()
  let ans := match Json.parse line with
    | .error e => jErr s!"bad-json: {e}"
    | .ok j => match dispatch j with
      | .error e => Json.mkObj [("bad", Json.str e)]
      | .ok r => r
  out.putStrLn ans.compress
  loop h out

def main : IO Unit := do
  let out ← IO.getStdout
  loop (← IO.getStdin) out
  out.flush
